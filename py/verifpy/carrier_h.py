"""Harness for C15: ONE scripted server conversation played over the four REAL carriers
(`stdio_client`, `http_client` answering with JSON bodies, `http_client` answering with SSE bodies,
`sse_client`), the real request helpers run through the `(read, write)` pair each transport yields.

Reuses the seams of the per-carrier harnesses (imported, not copied):
  stdio_h   FakeProcess / FakeStdin, `_patched` / `_restore` (the `anyio.open_process` seam)
  http_h    `_MockPatch` (httpx.AsyncClient -> httpx.MockTransport(handler)), URL
  http_gen  `sse_text` (renderer of every conformant SSE body encoding), `idtag`
  sse_h     `guarded_run` (virtual-time loop that reports a deadlock of the code under test), `cut_bytes`
  helpers   discovery of the typed request helpers

A case (JSON):
  xs     [{"call": {"h": helper name | "send_message" | "send_initialize" | "raw", "method", "params",
                    "id": {"i"}|{"s"}|absent, "progress": bool (send_message with a progress callback),
                    "reuse": bool (the very params object of the previous call), "form": "request"|"legacy"|"dict"|"raising" (+ "exc": class name: an object that cannot be serialised)
                    and "pause": ticks between writing and reading (raw: the request is written to the write stream
                    and the answer awaited on the read stream by hand — ids the helpers cannot produce: 0, "")},
           "notifs": [{"method", "params"|absent}]   ("$TOK" in params = the progress token of the request),
           "reply": {"result": obj} | {"error": obj},
           "after": [{"method", "params"} | {"dup": true}]   sent after the reply (a notification, the reply again),
           "echo": bool   the server puts the method and params it received into the result,
           "D": helper timeout of this call in ticks (tiny / 0: the call times out, the conversation goes on),
           "lat": ticks until the server's first byte, "gap": ticks between pieces}]
  style  {"sp": bool, "ascii": bool, "order": "rev"|absent, "extra": bool}   how the scripted server writes JSON text
         (separators, escaping, top-level members in reverse order, an extra top-level member)
  D      helper timeout in ticks (1/1024 s)
  tie    "events" | "timers" | "io": order of scripted arrivals and timers at equal instants (vloop)
  wire   per carrier, the free choices of its encoding (all optional):
         stdio   {"crlf": [bool per line], "cuts": [[byte offsets inside the exchange's block]],
                  "batch": [bool per exchange: all its messages as ONE JSON array line],
                  "blank": [[blank lines written before the k-th line]], "eof": bool (stdout closed after the last block)}
         json    [{"status", "sess", "batch", "all": bool (body = array of ALL messages of the exchange),
                   "ctp": Content-Type parameters (e.g. "; charset=ISO-8859-1": the body is UTF-8 whatever the label says),
                   "mime": the media type as written (case variants), "hname": "upper" | "title" (header NAMES in that case)}]  per exchange; httpsse likewise, plus "bom": bool
         httpsse [{"status", "sess", "evs": [{"name", "nc", "dc", "after": [ignored], "before": [event without message]}],
                   "eols", "tail", "trailing": [event without message]}]     (events as in http_gen)
         sse     {"pre": [{"k","d","crlf"}], "crlf": [bool per message], "cuts": [[...]], "ack": [piece index],
                  "m200": [bool per exchange: the reply comes as the 200 body of the POST], "eof": bool,
                  "untyped": [bool per message: the event has no `event:` line]}

Observation per carrier: the read-stream transcript seen by a tap on the read stream (id with JSON
type, method, params / result / error as JSON values; kind = field presence), each helper's outcome,
the ids the client generated, and what the scripted server actually wrote (for the model side).
"""
from __future__ import annotations

import asyncio
import collections
import copy
import json

from . import http_gen as G
from . import http_h, sse_h, stdio_h, vloop

CARRIERS = ["stdio", "http_json", "http_sse", "sse"]
ENDPOINT = "/messages/?session_id=verif"
TRANSPORT_TIMEOUT_S = 8.0
SETTLE_TICKS = 6
FINAL_SETTLE_TICKS = 64


# ------------------------------------------------------------------------------- seams

import contextvars

INSTANCE = contextvars.ContextVar("verif_c15_instance", default=0)
PROCS = {}      # command -> factory of the scripted child (one per transport instance)
HANDLERS = {}   # host -> handler of the scripted HTTP server (one per transport instance)


def host_of(inst):
    return f"verif{inst}.test"


def command_of(inst):
    return f"verif-fake-child-{inst}"


async def dispatch_http(request):
    import httpx
    h = HANDLERS.get(request.url.host)
    if h is None:
        return httpx.Response(502, text="no scripted server for this host")
    return await h(request)


def patch_open_process(mod):
    """the `anyio.open_process` seam of stdio_h, dispatching on the command so that several scripted
    children can live in one process (restored with `stdio_h._restore`)"""
    import anyio

    async def fake_open_process(command, *a, **k):
        return PROCS[command[0]]()

    saved = [(anyio, "open_process", anyio.open_process)]
    anyio.open_process = fake_open_process
    if hasattr(mod, "open_process"):
        saved.append((mod, "open_process", mod.open_process))
        mod.open_process = fake_open_process
    return saved


# ------------------------------------------------------------------------------- conversation

def json_all(case, k) -> bool:
    w = (case.get("wire") or {}).get("json") or []
    if isinstance(w, dict):
        return bool(w.get("all"))
    return bool(k < len(w) and (w[k] or {}).get("all"))


def exchanges_of(case):
    return case["xs"] if "xs" in case else list(case.get("inits") or []) + list(case.get("answers") or [])


def expressible(case, carrier) -> bool:
    if carrier == "http_json" and "ops" in case:
        w = (case.get("wire") or {}).get("json")
        return all(not x.get("notifs") and not x.get("after") for x in exchanges_of(case)) or bool(isinstance(w, dict) and w.get("all"))
    if carrier == "http_json":
        return all((not x.get("notifs") and not x.get("after")) or json_all(case, k) for k, x in enumerate(case["xs"]))
    return True


def _lits_out(v, lits):
    """`{"$lit": "<JSON text>"}` nodes (a literal the server writes as it is: NaN, 1e400, "\\ud83d" …) -> placeholders"""
    if isinstance(v, dict):
        if set(v) == {"$lit"}:
            lits.append(v["$lit"])
            return f"$LIT{len(lits) - 1}$"
        return {k: _lits_out(x, lits) for k, x in v.items()}
    if isinstance(v, list):
        return [_lits_out(x, lits) for x in v]
    return v


def delit(v):
    """the value a JSON parser that accepts the literal (the stdlib's) gives for it"""
    if isinstance(v, dict):
        if set(v) == {"$lit"}:
            return json.loads(v["$lit"])
        return {k: delit(x) for k, x in v.items()}
    if isinstance(v, list):
        return [delit(x) for x in v]
    return v


def dumps(style, v) -> str:
    lits = []
    v = _lits_out(v, lits)
    text = _dumps(style, v)
    for i, t in enumerate(lits):
        text = text.replace(json.dumps(f"$LIT{i}$"), t)
    return text


def _dumps(style, v) -> str:
    sp = bool(style.get("sp"))
    if isinstance(v, dict):
        if style.get("extra"):
            v = dict(v)
            v["x-verif-extra"] = {"a": None, "b": ""}
        if style.get("nulls") and "id" in v and "method" not in v:
            # `"error": null` next to a result, `"result": null` next to an error (absent and null mean the same)
            v = dict(v)
            v["error" if "result" in v else "result"] = None
        if style.get("order") == "rev":
            v = dict(reversed(list(v.items())))
    text = json.dumps(v, ensure_ascii=bool(style.get("ascii")), separators=((", ", ": ") if sp else (",", ":")))
    if style.get("dup") and isinstance(v, dict) and text.endswith("}") and "jsonrpc" in v:
        # a duplicated member (the same name twice, the same value): every JSON parser of the carriers keeps one
        text = text[:-1] + ("," + (" " if sp else "")) + json.dumps("jsonrpc") + (": " if sp else ":") + json.dumps("2.0") + "}"
    return text


def subst(v, tok):
    if v == "$TOK":
        return tok
    if isinstance(v, list):
        return [subst(x, tok) for x in v]
    if isinstance(v, dict):
        return {k: subst(x, tok) for k, x in v.items()}
    return v


def notif_msg(n, tok=None):
    d = {"jsonrpc": "2.0", "method": n["method"]}
    if n.get("params") is not None:
        d["params"] = subst(n["params"], tok)
    return d


def reply_msg(x, req):
    d = {"jsonrpc": "2.0", "id": req.get("id")}
    r = x["reply"]
    if "error" in r:
        d["error"] = r["error"]
    else:
        d["result"] = r["result"]
        if x.get("echo"):
            d["result"] = dict(r["result"], echo={"method": req.get("method"), "params": req.get("params")})
    return d


def messages3(x, req):
    """(before, reply, after) of one exchange, given the request as the server received it (or, for
    the oracle, as the client built it)"""
    meta = (req.get("params") or {}).get("_meta") if isinstance(req.get("params"), dict) else None
    tok = meta.get("progressToken") if isinstance(meta, dict) else None
    reply = reply_msg(x, req)
    after = [copy.deepcopy(reply) if a.get("dup") else notif_msg(a, tok) for a in x.get("after", [])]
    return [notif_msg(n, tok) for n in x.get("notifs", [])], reply, after


def messages(x, req):
    if not isinstance(req, dict):
        req = {"id": req}
    b, r, a = messages3(x, req)
    return b + [r] + a


def jsonable(v):
    try:
        return json.loads(json.dumps(v))
    except Exception:  # noqa
        return {"$object": type(v).__name__}


def canon_msg(m):
    """a read-stream entry by its members (the class of the object says nothing)"""
    if isinstance(m, list):
        return {"list": [canon_msg(x) for x in m]}
    get = (lambda k: m.get(k)) if isinstance(m, dict) else (lambda k: getattr(m, k, None))
    return {"id": G.idtag(get("id")), "method": jsonable(get("method")), "params": jsonable(delit(get("params"))),
            "result": jsonable(delit(get("result"))), "error": jsonable(delit(get("error")))}


def kind_of(e):
    if "list" in e:
        return "list"
    if e["method"] is not None:
        return "request" if e["id"] is not None else "notification"
    if e["error"] is not None:
        return "error"
    if e["result"] is not None:
        return "result"
    return "other"


def expected_transcript(case, sent, calls):
    """the scripted conversation as read-stream entries; `sent[k]` = the k-th request as the CLIENT built
    it (id, method, params — taken from a tap on the write stream, i.e. before any carrier touched it)"""
    out = []
    if "ops" in case:
        n_init = n_call = 0
        for req in sent:
            x = client_exchange(case, req.get("method"), n_init, n_call)
            if req.get("method") == "initialize":
                n_init += 1
            else:
                n_call += 1
            out += [canon_msg(m) for m in messages(x, req)]
        return out
    # `calls[j]` = the call that wrote the j-th request; a call that fails before writing anything
    # (e.g. a progress token cannot be put into a non-object `_meta`) has no exchange played
    for k, req in zip(calls, sent):
        for m in messages(case["xs"][k], req):
            out.append(canon_msg(m))
    return out


# ------------------------------------------------------------------------------- plumbing

class PushStream:
    """bytes released by the scripted server, consumed by the code under test"""

    def __init__(self, loop):
        self.loop = loop
        self.q = collections.deque()
        self.waiter = None
        self.closed = False

    def push(self, item):
        self.q.append(item)
        if self.waiter is not None and not self.waiter.done():
            self.waiter.set_result(None)

    async def get(self):
        while not self.q:
            self.waiter = self.loop.create_future()
            await self.waiter
        return self.q.popleft()


class Tap:
    """read stream handed to the helpers: everything received is recorded, then passed on"""

    def __init__(self, inner, log):
        self._inner = inner
        self._log = log

    async def receive(self):
        m = await self._inner.receive()
        self._log.append(canon_msg(m))
        return m

    def receive_nowait(self):
        m = self._inner.receive_nowait()
        self._log.append(canon_msg(m))
        return m

    def __aiter__(self):
        return self

    async def __anext__(self):
        import anyio
        try:
            return await self.receive()
        except anyio.EndOfStream:
            raise StopAsyncIteration

    def drain(self):
        import anyio
        n = 0
        while True:
            try:
                self.receive_nowait()
                n += 1
            except (anyio.WouldBlock, anyio.EndOfStream, anyio.ClosedResourceError, anyio.BrokenResourceError):
                return n

    def __getattr__(self, name):
        return getattr(self._inner, name)


class WriteTap:
    """write stream handed to the helpers: records the id of every request the client builds"""

    def __init__(self, inner, ids, sent, calls):
        self._inner = inner
        self._ids = ids
        self._sent = sent
        self._calls = calls
        self.current = 0   # index of the call in progress

    async def send(self, msg):
        get = (lambda k: msg.get(k)) if isinstance(msg, dict) else (lambda k: getattr(msg, k, None))
        if get("id") is not None and get("method") is not None and not isinstance(msg, Unsendable):
            self._ids.append(get("id"))
            self._sent.append({"id": get("id"), "method": get("method"), "params": jsonable(get("params"))})
            self._calls.append(self.current)
        await self._inner.send(msg)

    def __getattr__(self, name):
        return getattr(self._inner, name)


def at_future(loop, tick):
    f = loop.create_future()

    def fire():
        if not f.done():
            f.set_result(None)
    loop.at(max(tick, loop.ticks), fire)
    return f


class Server:
    """plays the conversation: the k-th request (a message with id and method) is answered with the
    k-th exchange, the reply bearing the id the request arrived with"""

    def __init__(self, case, obs):
        self.case = case
        self.obs = obs
        self.k = 0
        self.busy = 0  # the server works its requests off one after the other
        self.n_init = self.n_call = 0

    def start(self, now, lat):
        return max(now, self.busy) + lat

    def is_request(self, body):
        return isinstance(body, dict) and body.get("id") is not None and isinstance(body.get("method"), str)

    def take(self, body):
        j = self.k
        self.k += 1
        self.obs["requests"].append({"method": body.get("method"), "params": body.get("params"), "id": G.idtag(body.get("id"))})
        # the j-th request to arrive was written by the call `sent_calls[j]` (a call that fails before
        # writing anything sends none): the server answers it with that call's exchange
        if "ops" in self.case:
            # a client-operations case: the answer depends on the request's method
            method = body.get("method")
            x = client_exchange(self.case, method, self.n_init, self.n_call)
            if method == "initialize":
                self.n_init += 1
            else:
                self.n_call += 1
            st = self.case.get("style") or {}
            b, r, a = messages3(x, body)
            texts = [dumps(st, m) for m in b + [r] + a]
            self.obs["texts"].append(texts)
            self.obs["shape"].append([len(b), len(a)])
            return j, x, texts
        calls = self.obs["sent_calls"]
        if j >= len(calls) or calls[j] >= len(self.case["xs"]):
            self.obs["unscripted"] = self.obs.get("unscripted", 0) + 1
            return None
        k = calls[j]
        x = self.case["xs"][k]
        st = self.case.get("style") or {}
        b, r, a = messages3(x, body)
        texts = [dumps(st, m) for m in b + [r] + a]
        self.obs["texts"].append(texts)
        self.obs["shape"].append([len(b), len(a)])
        return k, x, texts


def wire_of(case, carrier):
    return (case.get("wire") or {}).get(carrier)


def nth(lst, k, dflt):
    if isinstance(lst, dict):
        return lst  # one choice for every exchange
    return lst[k] if lst is not None and k < len(lst) else dflt


# ------------------------------------------------------------------------------- helpers

class DictSub(dict):
    """a dict subclass (what a caller's own mapping type looks like)"""


class StrSub(str):
    pass


def subclassed(v):
    if isinstance(v, dict):
        return DictSub((StrSub(k), subclassed(x)) for k, x in v.items())
    if isinstance(v, list):
        return [subclassed(x) for x in v]
    if isinstance(v, str):
        return StrSub(v)
    return v


class StrRaises(Exception):
    def __str__(self):
        raise RuntimeError("str() of this exception raises")


EXC_CLASSES = {c.__name__: c for c in (TypeError, ValueError, KeyError, IndexError, AttributeError, RuntimeError, RecursionError,
                                       OSError, Exception, StrRaises)}


class Unsendable:
    """a message object whose serialisation raises: it looks like a request, and every way a transport
    may turn it into JSON fails with the given exception"""

    jsonrpc = "2.0"
    params = None

    def __init__(self, rid, method, exc):
        self.id, self.method, self._exc = rid, method, exc

    def _boom(self, *a, **k):
        raise self._exc("scripted: this message cannot be serialised")

    model_dump = model_dump_json = dict = json = _boom


def typed_eq(a, b):
    return type(a) is type(b) and a == b


async def call_helper(call, rd, wr, D_s, memo):
    import anyio
    from chuk_mcp.protocol.messages.send_message import send_message, CancelledError
    from chuk_mcp.protocol.types.errors import RetryableError, NonRetryableError
    from . import helpers

    h = call["h"]
    cbs = []
    extra = {}
    if call.get("reuse") and memo.get("params") is not None:
        params = memo["params"]  # the very object of the previous call
    else:
        params = copy.deepcopy(call.get("params"))
    if call.get("subclassed") and params is not None:
        params = subclassed(params)
    memo["params"] = params
    try:
        if h == "send_message":
            kw = {}
            if call.get("id") is not None:
                kw["message_id"] = G.idval(call["id"])
            if call.get("progress"):
                async def cb(progress, total, message):
                    cbs.append([jsonable(progress), jsonable(total), jsonable(message)])
                    if call.get("cb_writes"):
                        # re-entrancy: the callback uses the very write stream its request went out on
                        from chuk_mcp.protocol.messages.json_rpc_message import create_notification
                        await wr.send(create_notification("notifications/x-from-callback", {"n": len(cbs)}))
                kw["progress_callback"] = cb
                extra["cbs"] = cbs
            res = await send_message(rd, wr, call.get("method", "tools/list"), params, timeout=D_s, **kw)
        elif h == "raw":
            from chuk_mcp.protocol.messages.json_rpc_message import create_request, JSONRPCMessage
            rid = G.idval(call["id"])
            form = call.get("form", "request")
            if form == "raising":
                msg = Unsendable(rid, call.get("method", "tools/list"), EXC_CLASSES[call.get("exc", "TypeError")])
            elif form == "dict":
                msg = {"jsonrpc": "2.0", "id": rid, "method": call.get("method", "tools/list")}
                if params is not None:
                    msg["params"] = params
            elif form == "legacy":
                msg = JSONRPCMessage.create_request(call.get("method", "tools/list"), params, id=rid)
            else:
                msg = create_request(call.get("method", "tools/list"), params, id=rid)
            await wr.send(msg)
            if call.get("pause"):
                await anyio.sleep(call["pause"] * vloop.TICK)  # the consumer is slow: nobody reads meanwhile
            with anyio.fail_after(D_s):
                while True:
                    m = await rd.receive()
                    if not isinstance(m, list) and getattr(m, "method", None) is None and typed_eq(getattr(m, "id", None), rid):
                        break
            err = getattr(m, "error", None)
            if err is not None:
                return {"outcome": "error-reply", "error": jsonable(err)}
            res = getattr(m, "result", None)
        elif h == "send_initialize":
            from chuk_mcp.protocol.messages.initialize.send_messages import send_initialize
            res = await send_initialize(rd, wr, timeout=D_s)
        else:
            fn = helpers.discover()[0][h][0]
            res = await fn(rd, wr, D_s)
    except TimeoutError as ex:
        memo["exc"] = ex
        return dict({"outcome": "timeout"}, **extra)
    except CancelledError:
        return {"outcome": "cancelled"}
    except (RetryableError, NonRetryableError) as ex:
        memo["exc"] = ex
        return dict({"outcome": "raised", "retryable": isinstance(ex, RetryableError), "code": jsonable(ex.code)}, **extra)
    except Exception as ex:  # any other exception class (validation of a typed result, version mismatch …)
        memo["exc"] = ex
        return dict({"outcome": "exception", "exc": type(ex).__name__}, **extra)
    if hasattr(res, "model_dump"):
        try:
            res = {"$model": type(res).__name__, "dump": res.model_dump(by_alias=True, exclude_none=True)}
        except Exception:  # noqa
            res = {"$model": type(res).__name__}
    return dict({"outcome": "returned", "value": jsonable(res)}, **extra)


async def converse(rd, wr, case, obs, server, lo=0, hi=None, settle=True):
    import anyio
    loop = asyncio.get_running_loop()
    tap = Tap(rd, obs["transcript"])
    wtap = WriteTap(wr, obs["ids"], obs["sent"], obs["sent_calls"])
    memo = {}
    for i, x in list(enumerate(case["xs"]))[lo:hi]:
        wtap.current = i
        D_s = x.get("D", case.get("D", 5120)) * vloop.TICK
        if x.get("idle"):
            await anyio.sleep(x["idle"] * vloop.TICK)   # the session sits idle (hours of virtual time), then goes on
        memo.pop("exc", None)
        obs["outcomes"].append(await call_helper(x["call"], tap, wtap, D_s, memo))
        await anyio.sleep(SETTLE_TICKS * vloop.TICK)
        obs["late"] += tap.drain()
    if not settle:
        return   # the session is LEFT as it is (its last request still in flight)
    await settle_end(tap, obs, server)
    if case.get("escape") and hi is None and memo.get("exc") is not None:
        # the usual application shape: the exception of the (last) request helper is not caught inside the block
        obs["escaping"] = describe_exc(memo["exc"])
        raise memo["exc"]


async def settle_end(tap, obs, server):
    """whatever is still under way: wait until the server has received every request that was written
    and has finished writing"""
    import anyio
    loop = asyncio.get_running_loop()
    waited = 0
    while (server.k < len(obs["sent"]) or loop.ticks < server.busy) and waited < 20000:
        step = max(server.busy - loop.ticks, 16)
        await anyio.sleep(step * vloop.TICK)
        waited += step
    await anyio.sleep(FINAL_SETTLE_TICKS * vloop.TICK)
    obs["late"] += tap.drain()


def describe_exc(ex):
    """an exception as the caller of the block sees it (a group of one: its member, marked)"""
    grouped = False
    while isinstance(ex, BaseExceptionGroup) and len(ex.exceptions) == 1:
        ex, grouped = ex.exceptions[0], True
    d = {"raised": type(ex).__name__}
    if grouped:
        d["grouped"] = True
    if hasattr(ex, "code"):
        d["code"] = jsonable(getattr(ex, "code"))
    try:
        d["text"] = str(ex)[:200]
    except Exception:  # noqa
        d["text"] = None
    return d


async def drive(ttype, params, case, obs, server):
    if not case.get("escape"):
        return await drive_block(ttype, params, case, obs, server)
    try:
        await drive_block(ttype, params, case, obs, server)
        obs["block"] = {"left": "normally"}
    except Exception as ex:  # noqa  (BaseExceptionGroup of Exceptions is an Exception subclass: ExceptionGroup)
        obs["block"] = describe_exc(ex)


async def drive_block(ttype, params, case, obs, server):
    """the conversation over one transport type, reached the way the case says: the `*_client`
    context manager (`create_client`), the Transport class (`create_transport`), or — for a case of
    client operations — `MCPClient` / `connect_to_server` over the Transport class"""
    if "ops" in case:
        await client_session(ttype, params, case, obs, server)
    elif case.get("via") == "transport":
        t = make_transport(ttype, params, obs)
        # the same transport object is left and entered again before exchange `reenter` / before each of `sessions`;
        # `abandon`: every session but the last is left without waiting for what is still under way
        splits = list(case.get("sessions") or ([case["reenter"]] if case.get("reenter") is not None else []))
        bounds = [0] + splits + [None]
        for a, b in zip(bounds, bounds[1:]):
            async with t:
                rd, wr = await t.get_streams()
                await converse(rd, wr, case, obs, server, a, b, settle=(b is None or not case.get("abandon")))
    else:
        async with make_client(ttype, params, obs) as (rd, wr):
            await converse(rd, wr, case, obs, server)


def make_transport(ttype, params, obs):
    """`create_transport`; when the factory declares the type unavailable although its module
    imports (recorded, shown in the evidence as `feat:factory-unavailable:*`), the class itself"""
    import chuk_mcp.transports as T
    try:
        return T.create_transport(ttype, params)
    except ValueError:
        obs["factory_unavailable"] = ttype
        if ttype == "http":
            from chuk_mcp.transports.http import StreamableHTTPTransport
            return StreamableHTTPTransport(params)
        raise


def make_client(ttype, params, obs):
    import chuk_mcp.transports as T
    try:
        return T.create_client(ttype, params)
    except ValueError:
        obs["factory_unavailable"] = ttype
        if ttype == "http":
            from chuk_mcp.transports.http import http_client
            return http_client(params)
        raise


# ------------------------------------------------------------------------------- MCPClient

OP_METHOD = {"init": "initialize", "list_tools": "tools/list", "call_tool": "tools/call", "list_resources": "resources/list",
             "read_resource": "resources/read", "list_prompts": "prompts/list", "get_prompt": "prompts/get"}
DEFAULT_INIT = {"notifs": [], "reply": {"result": {"protocolVersion": "2025-06-18", "capabilities": {}, "serverInfo": {"name": "s", "version": "1"}}}}
DEFAULT_ANSWER = {
    "tools/list": {"tools": []}, "tools/call": {"content": [{"type": "text", "text": "ok"}]}, "resources/list": {"resources": []},
    "resources/read": {"contents": [{"uri": "file:///a", "text": "t"}]}, "prompts/list": {"prompts": []},
    "prompts/get": {"messages": [{"role": "user", "content": {"type": "text", "text": "t"}}]},
}


BAD_ANSWER = {
    "tools/list": {"tools": "x"}, "tools/call": {"content": "x"}, "resources/list": {"resources": 5}, "resources/read": {"contents": 5},
    "prompts/list": {"prompts": 5}, "prompts/get": {"messages": 5},
}


def good_answer(method, t):
    """a result of the shape the operation's helper accepts, carrying the text `t`"""
    return {
        "tools/list": {"tools": [{"name": t, "description": t, "inputSchema": {"type": "object", "properties": {}}}]},
        "tools/call": {"content": [{"type": "text", "text": t}], "isError": False},
        "resources/list": {"resources": [{"uri": "file:///x", "name": t}]},
        "resources/read": {"contents": [{"uri": "file:///a/b.txt", "text": t}]},
        "prompts/list": {"prompts": [{"name": t, "description": t}]},
        "prompts/get": {"description": t, "messages": [{"role": "user", "content": {"type": "text", "text": t}}]},
    }.get(method, {})


def client_exchange(case, method, n_init, n_call):
    """the exchange a client-operations case answers a request with: `initialize` requests take the
    `inits` in order, every other request the `answers` in order (then plain acceptable answers).
    An answer says HOW the request is answered ({"kind": "ok"|"bad"|"error", "text", "error", "notifs",
    "after"}); what a good / malformed result looks like follows from the request's method."""
    if method == "initialize":
        return nth(case.get("inits"), n_init, None) or DEFAULT_INIT
    a = nth(case.get("answers"), n_call, None) or {"kind": "ok", "text": "t"}
    if a.get("kind") == "error":
        reply = {"error": a["error"]}
    elif a.get("kind") == "bad":
        reply = {"result": BAD_ANSWER.get(method, {"x": 1})}
    else:
        reply = {"result": good_answer(method, a.get("text", "t"))}
    x = {"notifs": a.get("notifs", []), "reply": reply, "lat": a.get("lat", 1), "gap": a.get("gap", 1)}
    if a.get("after"):
        x["after"] = a["after"]
    return x


def dump_any(v):
    if isinstance(v, list):
        return [dump_any(x) for x in v]
    if isinstance(v, dict):
        return {str(k): dump_any(x) for k, x in v.items()}
    if hasattr(v, "model_dump"):
        try:
            return {"$model": type(v).__name__, "dump": jsonable(v.model_dump(by_alias=True, exclude_none=True))}
        except Exception:  # noqa
            return {"$model": type(v).__name__}
    return jsonable(v)


async def run_op(client, o):
    from chuk_mcp.protocol.types.errors import RetryableError, NonRetryableError
    op = o["op"]
    try:
        if op == "init":
            res = await client.initialize()
        elif op == "list_tools":
            res = await client.list_tools()
        elif op == "call_tool":
            res = await client.call_tool(o.get("name", "thing"), copy.deepcopy(o.get("arguments")))
        elif op == "list_resources":
            res = await client.list_resources()
        elif op == "read_resource":
            res = await client.read_resource(o.get("uri", "file:///a/b.txt"))
        elif op == "list_prompts":
            res = await client.list_prompts()
        elif op == "get_prompt":
            res = await client.get_prompt(o.get("name", "p"), copy.deepcopy(o.get("arguments")))
        else:
            raise ValueError(op)
    except TimeoutError:
        return {"outcome": "timeout"}
    except (RetryableError, NonRetryableError) as ex:
        return {"outcome": "raised", "retryable": isinstance(ex, RetryableError), "code": jsonable(ex.code)}
    except Exception as ex:  # noqa
        return {"outcome": "exception", "exc": type(ex).__name__}
    return {"outcome": "returned", "value": dump_any(res)}


class Tapped:
    """while active, the Transport class hands tapped streams to whoever asks (`MCPClient.initialize`)
    and its `set_protocol_version` calls are recorded"""

    def __init__(self, cls, obs):
        self.cls, self.obs = cls, obs
        self.tap = self.wtap = None

    def __enter__(self):
        cls, me = self.cls, self
        self.orig_get, self.orig_set = cls.get_streams, cls.set_protocol_version

        async def get_streams(this):
            rd, wr = await me.orig_get(this)
            if me.tap is None:
                me.tap = Tap(rd, me.obs["transcript"])
                me.wtap = WriteTap(wr, me.obs["ids"], me.obs["sent"], me.obs["sent_calls"])
            return me.tap, me.wtap

        def set_protocol_version(this, version):
            me.obs["set_version"].append(jsonable(version))
            return me.orig_set(this, version)

        cls.get_streams, cls.set_protocol_version = get_streams, set_protocol_version
        return self

    def __exit__(self, *exc):
        self.cls.get_streams, self.cls.set_protocol_version = self.orig_get, self.orig_set
        return False


async def client_session(ttype, params, case, obs, server):
    import anyio
    from chuk_mcp.client.client import MCPClient
    from chuk_mcp.client.connection import connect_to_server

    obs["set_version"] = []
    transport = make_transport(ttype, params, obs)
    with Tapped(type(transport), obs) as tp:
        async def ops(client):
            for i, o in enumerate(case["ops"]):
                if tp.wtap is not None:
                    tp.wtap.current = i
                obs["outcomes"].append(await run_op(client, o))
                await anyio.sleep(SETTLE_TICKS * vloop.TICK)
                if tp.tap is not None:
                    obs["late"] += tp.tap.drain()
            obs["client_initialized"] = bool(client.initialized)
            if tp.tap is not None:
                await settle_end(tp.tap, obs, server)

        if case.get("connect"):
            entered = False
            try:
                # stdio: `connect_to_server` builds the transport from the parameters itself
                async with connect_to_server(params if (ttype == "stdio" and case.get("connect") == "params") else transport) as client:
                    entered = True
                    obs["connected"] = True
                    await ops(client)
            except Exception as ex:  # noqa
                if entered:
                    raise
                obs["connected"] = False
                obs["connect_exc"] = type(ex).__name__
        else:
            async with transport:
                await ops(MCPClient(transport))


JUNK_MEMBERS = ["7", "null", "\"text\"", "{\"jsonrpc\":\"2.0\",\"method\":5}", "{\"jsonrpc\":\"2.0\",\"id\":[1],\"result\":{}}", "true"]


def with_junk(texts, junk):
    """batch members in between that are no JSON-RPC message for any parser (`junk`: indices into JUNK_MEMBERS)"""
    if not junk:
        return texts
    out = list(texts[:-1])
    for j in junk:
        out.append(JUNK_MEMBERS[j % len(JUNK_MEMBERS)])
    return out + [texts[-1]]


def cut_local(block: bytes, cuts):
    return sse_h.cut_bytes(block, cuts or [])


# ------------------------------------------------------------------------------- stdio

async def run_stdio(case, obs):
    loop = asyncio.get_running_loop()
    server = Server(case, obs)
    out = PushStream(loop)
    w = wire_of(case, "stdio") or {}
    sent = {"msgs": 0, "pos": 0, "cuts": [], "crlf": [], "bytes": b""}
    buf = bytearray()

    def on_bytes(data: bytes):
        buf.extend(data)
        while b"\n" in buf:
            line, _, rest = bytes(buf).partition(b"\n")
            del buf[: len(line) + 1]
            try:
                body = json.loads(line.decode("utf-8"))
            except Exception:  # noqa
                obs["bad_outbound"] = obs.get("bad_outbound", 0) + 1
                continue
            if not server.is_request(body):
                continue
            r = server.take(body)
            if r is None:
                continue
            k, x, texts = r
            if nth(w.get("batch"), k, False):
                # the whole exchange as one JSON-RPC batch line — optionally with members in the middle that no
                # parser of any carrier accepts (dropped alone)
                texts = ["[" + ",".join(with_junk(texts, nth(w.get("junk"), k, None))) + "]"]
            block = b""
            for t in texts:
                for bl in nth(w.get("blank"), sent["msgs"], None) or []:
                    block += bl.encode("utf-8") + b"\n"  # blank / white-space-only lines carry nothing
                crlf = bool(nth(w.get("crlf"), sent["msgs"], False))
                sent["crlf"].append(crlf)
                sent["msgs"] += 1
                block += t.encode("utf-8") + (b"\r\n" if crlf else b"\n")
            pieces = cut_local(block, nth(w.get("cuts"), k, []))
            gap = x.get("gap", 1)
            t0 = server.start(loop.ticks, x.get("lat", 1))
            server.busy = t0 + len(pieces) * gap
            for j, p in enumerate(pieces):
                loop.at(t0 + j * gap, (lambda b: (lambda: out.push(b)))(p))
                sent["bytes"] += p
                sent["pos"] += len(p)
                sent["cuts"].append(sent["pos"])
            if w.get("eof") and "xs" in case and k == len(case["xs"]) - 1:
                # the child closes its stdout after its last message and keeps running
                loop.at(t0 + len(pieces) * gap, lambda: out.push(None))

    class Stdin(stdio_h.FakeStdin):
        async def send(self, data):
            await super().send(data)
            on_bytes(bytes(data))

    class Stdout:
        def __aiter__(self):
            return self

        async def __anext__(self):
            c = await out.get()
            if c is None:
                raise StopAsyncIteration
            return c

        async def receive(self, max_bytes: int = 65536):
            import anyio
            c = await out.get()
            if c is None:
                raise anyio.EndOfStream
            return c

        async def aclose(self):
            return None

    inst = INSTANCE.get()

    def new_proc():
        # (a transport object entered a second time starts its child again)
        nonlocal out
        out = PushStream(loop)
        buf.clear()
        proc = stdio_h.FakeProcess([])
        proc.stdin = Stdin()
        proc.stdout = Stdout()
        obs["spawned"] = obs.get("spawned", 0) + 1
        return proc

    PROCS[command_of(inst)] = new_proc
    try:
        from chuk_mcp.transports.stdio.parameters import StdioParameters
        o = dict((case.get("opts") or {}).get("stdio") or {})
        await drive("stdio", StdioParameters(command=command_of(inst), args=list(o.get("args") or []), env=o.get("env")), case, obs, server)
    finally:
        PROCS.pop(command_of(inst), None)
        obs["wire"] = {"crlf": sent["crlf"], "cuts": sent["cuts"][:-1] if sent["cuts"] else [], "hex": sent["bytes"].hex()}


# ------------------------------------------------------------------------------- Streamable HTTP

def sse_body_of(texts, c):
    """the SSE body of one exchange in http_gen's vocabulary: per message its own event, preceded by
    the events without a message chosen for it (`before`), and the `trailing` ones at the end"""
    evs = []
    for i, t in enumerate(texts):
        e = nth(c.get("evs"), i, None) or {}
        evs += copy.deepcopy(list(e.get("before") or []))
        evs.append({"name": e.get("name"), "data": [t], "nc": e.get("nc") or dict(G.DFLT), "dc": [e.get("dc") or dict(G.DFLT)],
                    "after": list(e.get("after") or [])})
    evs += copy.deepcopy(list(c.get("trailing") or []))
    return {"form": "sse", "events": evs, "eols": list(c.get("eols") or []), "tail": c.get("tail", "full")}


async def run_http(case, obs, form):
    import httpx
    from chuk_mcp.transports.http import http_client, StreamableHTTPParameters

    loop = asyncio.get_running_loop()
    server = Server(case, obs)
    w = wire_of(case, "json" if form == "json" else "httpsse") or []

    async def handler(request):
        try:
            body = json.loads(request.content.decode("utf-8"))
        except Exception:  # noqa
            obs["bad_outbound"] = obs.get("bad_outbound", 0) + 1
            return httpx.Response(400, text="bad request")
        if request.method != "POST" or not server.is_request(body):
            return httpx.Response(202)
        r = server.take(body)
        if r is None:
            return httpx.Response(500, text="unscripted")
        k, x, texts = r
        c = nth(w, k, None) or {}
        server.busy = server.start(loop.ticks, x.get("lat", 1))
        await at_future(loop, server.busy)
        headers = []
        hn = lambda name: {"upper": name.upper(), "title": name.title()}.get(c.get("hname"), name)  # header names are case-insensitive
        if c.get("sess") is not None:
            headers.append((hn("mcp-session-id"), c["sess"]))
        if form == "json":
            if c.get("all"):
                text = "[" + ",".join(with_junk(texts, c.get("junk"))) + "]"  # the exchange as one JSON-RPC batch body
            else:
                text = ("[" + texts[-1] + "]") if c.get("batch") else texts[-1]
            raw = text.encode("utf-8")
            headers.append((hn("content-type"), c.get("mime", "application/json") + (c.get("ctp") or "")))
        else:
            text = G.sse_text(sse_body_of(texts, c))
            raw = (b"\xef\xbb\xbf" if c.get("bom") else b"") + text.encode("utf-8")  # (a leading BOM is part of the event-stream format)
            headers.append((hn("content-type"), c.get("mime", "text/event-stream") + (c.get("ctp") or "")))
        obs.setdefault("bodies", []).append({"status": c.get("status", 200), "text": text})
        return httpx.Response(c.get("status", 200), headers=headers, content=raw)

    inst = INSTANCE.get()
    HANDLERS[host_of(inst)] = handler
    try:
        from chuk_mcp.transports.http.http_client import create_http_parameters_from_url
        o = dict((case.get("opts") or {}).get("http") or {})
        params = create_http_parameters_from_url(f"http://{host_of(inst)}/mcp", timeout=TRANSPORT_TIMEOUT_S, **o)
        await drive("http", params, case, obs, server)
    finally:
        HANDLERS.pop(host_of(inst), None)


# ------------------------------------------------------------------------------- legacy SSE

def event_bytes(text: str, crlf: bool, name="message") -> bytes:
    eol = "\r\n" if crlf else "\n"
    if name is None:  # an event without event field: the transport recognises JSON-RPC data by its look
        return (f"data: {text}{eol}{eol}").encode("utf-8")
    return (f"event: {name}{eol}data: {text}{eol}{eol}").encode("utf-8")


def pre_bytes(pre) -> bytes:
    out = b""
    for p in pre:
        eol = "\r\n" if p.get("crlf") else "\n"
        if p["k"] == "comment":
            out += (":" + p["d"] + eol).encode("utf-8")
        else:
            out += event_bytes(p["d"], bool(p.get("crlf")), name=p["k"])
    return out


DEFAULT_PRE = [{"k": "endpoint", "d": ENDPOINT, "crlf": False}]


async def run_sse(case, obs):
    import httpx
    from chuk_mcp.transports.sse.sse_client import sse_client
    from chuk_mcp.transports.sse.parameters import SSEParameters

    loop = asyncio.get_running_loop()
    server = Server(case, obs)
    stream = PushStream(loop)
    w = wire_of(case, "sse") or {}
    pre = w.get("pre") or DEFAULT_PRE
    sent = {"msgs": 0, "pos": 0, "bytes": b"", "cuts": [], "crlf": [], "acks": []}

    class ByteStream(httpx.AsyncByteStream):
        async def __aiter__(self):
            mine = stream
            while True:
                item = await mine.get()
                if item is None:
                    return
                yield item

        async def aclose(self):
            stream.closed = True

    def release(b):
        def f():
            stream.push(b)
        return f

    async def handler(request):
        nonlocal stream
        if request.method == "GET":
            stream = PushStream(loop)  # (a transport object entered a second time connects again)
            b = pre_bytes(pre)
            sent["bytes"] += b
            sent["pos"] += len(b)
            sent["cuts"].append(sent["pos"])
            stream.push(b)
            if w.get("bom"):
                stream.q.appendleft(b"\xef\xbb\xbf")
            return httpx.Response(200, headers={"content-type": "text/event-stream" + (w.get("ctp") or "")}, stream=ByteStream())
        try:
            body = json.loads(request.content.decode("utf-8"))
        except Exception:  # noqa
            obs["bad_outbound"] = obs.get("bad_outbound", 0) + 1
            return httpx.Response(400, text="bad request")
        if not server.is_request(body):
            return httpx.Response(202, text="Accepted")
        r = server.take(body)
        if r is None:
            return httpx.Response(202, text="Accepted")
        k, x, texts = r
        nb, na = obs["shape"][-1]
        m200 = bool(nth(w.get("m200"), k, False))
        on_stream = [t for i, t in enumerate(texts) if not (m200 and i == nb)]
        block, ends = b"", []
        for t in on_stream:
            crlf = bool(nth(w.get("crlf"), sent["msgs"], False))
            sent["crlf"].append(crlf)
            untyped = bool(nth(w.get("untyped"), sent["msgs"], False))
            sent["msgs"] += 1
            block += event_bytes(t, crlf, None if untyped else "message")
            ends.append(len(block))
        lat = max(x.get("lat", 2), 2)
        now = max(loop.ticks, server.busy)
        last = "xs" in case and k == len(case["xs"]) - 1

        def schedule(pieces, t0):
            for j, p in enumerate(pieces):
                loop.at(t0 + 2 * j, release(p))
                sent["bytes"] += p
                sent["pos"] += len(p)
                sent["cuts"].append(sent["pos"])
            return t0 + 2 * len(pieces)

        if m200:
            # the notifications on the stream, then the reply as the body of a 200, then what follows it
            cut = ends[nb - 1] if nb else 0
            t1 = schedule(cut_local(block[:cut], nth(w.get("cuts"), k, [])) if cut else [], now + lat)
            t2 = schedule([block[cut:]] if block[cut:] else [], t1 + 2)
            if w.get("eof") and last:
                loop.at(t2, release(None))
            server.busy = t2
            sent["acks"].append(None)
            await at_future(loop, t1 + 1)
            return httpx.Response(200, headers={"content-type": "application/json" + (w.get("ctp200") or "")}, content=texts[nb].encode("utf-8"))
        pieces = cut_local(block, nth(w.get("cuts"), k, []))
        a = min(max(int(nth(w.get("ack"), k, 0)), 0), len(pieces))
        done = sum(len(p) for p in pieces[:a])
        t2 = schedule(pieces, now + lat)
        server.busy = t2
        if w.get("eof") and last:
            loop.at(t2, release(None))
        # the model's `ack`: stream messages of this exchange completely delivered before the 202
        sent["acks"].append(sum(1 for e in ends if e <= done))
        await at_future(loop, now + lat + 2 * a - 1)
        return httpx.Response(202, text="Accepted")

    inst = INSTANCE.get()
    HANDLERS[host_of(inst)] = handler
    try:
        from chuk_mcp.transports.sse.sse_client import create_sse_parameters_from_url
        o = dict((case.get("opts") or {}).get("sse") or {})
        params = create_sse_parameters_from_url(f"http://{host_of(inst)}", timeout=TRANSPORT_TIMEOUT_S, **o)
        await drive("sse", params, case, obs, server)
    finally:
        HANDLERS.pop(host_of(inst), None)
        # chunk boundaries in characters (what `aiter_text` hands over piece by piece)
        cuts = [len(sent["bytes"][:c].decode("utf-8", errors="ignore")) for c in sent["cuts"][:-1]]
        obs["wire"] = {"crlf": sent["crlf"], "cuts": cuts, "acks": sent["acks"], "pre": pre}


# ------------------------------------------------------------------------------- entry points

def fresh_obs():
    return {"transcript": [], "outcomes": [], "ids": [], "sent": [], "sent_calls": [], "requests": [], "texts": [], "shape": [], "late": 0}


def formatting_debug_logging():
    """the host has logging configured at DEBUG with a handler that FORMATS every record (a NullHandler
    never does, so `%`-style argument mismatches and failing reprs of arguments stay invisible with it)"""
    import logging

    class Formatting(logging.Handler):
        def emit(self, record):
            try:  # (as every handler of the standard library does)
                self.format(record)
            except Exception:  # noqa
                self.handleError(record)

    root = logging.getLogger()
    prev_disable, prev_level, prev_handlers, prev_raise = root.manager.disable, root.level, list(root.handlers), logging.raiseExceptions
    h = Formatting()
    h.setFormatter(logging.Formatter("%(asctime)s %(name)s %(levelname)s %(message)s"))
    root.handlers[:] = [h]
    root.setLevel(logging.DEBUG)
    logging.disable(logging.NOTSET)

    def restore():
        logging.disable(prev_disable)
        root.setLevel(prev_level)
        root.handlers[:] = prev_handlers
        logging.raiseExceptions = prev_raise
    return restore


class FailingStream:
    encoding = "utf-8"

    def write(self, s):
        raise OSError("scripted: this stream cannot be written")

    def flush(self):
        raise OSError("scripted: this stream cannot be flushed")


def odd_stderr(kind):
    import io
    if kind == "closed":
        f = io.StringIO()
        f.close()
        return f
    if kind == "ascii":
        return io.TextIOWrapper(io.BytesIO(), encoding="ascii", errors="strict")
    if kind == "failing":
        return FailingStream()
    return io.StringIO()


def run_carrier(case, carrier):
    """one conversation over one real carrier, under the virtual-time loop, with deterministic
    request ids (`uuid.uuid4` seam) so that every carrier's client generates the same ids.
    `case["twin"] = n`: n transport instances of this carrier alive at once in the one process, each
    with its own scripted server, playing the same conversation simultaneously (equal ids, equal
    virtual instants); `case["debug"]`: the host has logging configured at DEBUG."""
    import os
    import sys
    import uuid
    import anyio

    n = max(1, int(case.get("twin", 1)))
    all_obs = [fresh_obs() for _ in range(n)]
    counters = [0] * n
    real_uuid4 = uuid.uuid4

    def fake_uuid4():
        i = INSTANCE.get()
        counters[i] += 1
        return uuid.UUID(int=(0xC15 << 100) + counters[i])

    async def one(i):
        INSTANCE.set(i)
        obs = all_obs[i]
        try:
            if carrier == "stdio":
                await run_stdio(case, obs)
            elif carrier == "http_json":
                await run_http(case, obs, "json")
            elif carrier == "http_sse":
                await run_http(case, obs, "sse")
            elif carrier == "sse":
                await run_sse(case, obs)
            else:
                raise ValueError(carrier)
        except Exception as ex:  # the transport's context manager (or a helper's plumbing) raised
            obs["crash"] = type(ex).__name__

    async def main():
        if n == 1:
            await one(0)
        else:
            async with anyio.create_task_group() as tg:
                for i in range(n):
                    tg.start_soon(one, i)

    env_token = ((case.get("opts") or {}).get("env") or {}).get("MCP_BEARER_TOKEN")
    prev_token = os.environ.get("MCP_BEARER_TOKEN")
    restore_logging = None
    saved = patch_open_process(stdio_h.stdio_module())
    uuid.uuid4 = fake_uuid4
    real_stderr = sys.stderr
    try:
        if case.get("debug") == "format":
            restore_logging = formatting_debug_logging()
        elif case.get("debug"):
            from .await_h import _debug_logging
            restore_logging = _debug_logging()
        if env_token is not None:
            os.environ["MCP_BEARER_TOKEN"] = env_token
        if case.get("stderr") or case.get("quiet_stderr"):
            # (a transport prints the traceback of a message it cannot serialise); the host's stderr may be closed,
            # ascii-only or failing
            sys.stderr = odd_stderr(case.get("stderr") or "quiet")
        with http_h._MockPatch(dispatch_http):
            dl = sse_h.guarded_run(main, tie=case.get("tie", "events"))
        if dl is not None:
            for o in all_obs:
                o["deadlock"] = [x for x in dl if "run_carrier" not in x]
    except BaseException as ex:  # harness failure, not an observation
        if isinstance(ex, (KeyboardInterrupt, SystemExit)):
            raise
        all_obs[0]["harness_error"] = repr(ex)[:300]
    finally:
        sys.stderr = real_stderr
        uuid.uuid4 = real_uuid4
        stdio_h._restore(saved)
        if restore_logging is not None:
            restore_logging()
        if env_token is not None:
            if prev_token is None:
                os.environ.pop("MCP_BEARER_TOKEN", None)
            else:
                os.environ["MCP_BEARER_TOKEN"] = prev_token
    obs = all_obs[0]
    if n > 1:
        obs["twins"] = all_obs[1:]
    return obs


def run_case(case):
    return {c: (run_carrier(case, c) if expressible(case, c) else None) for c in CARRIERS}
