"""Harness for C15: ONE scripted server conversation played over the four REAL carriers
(`stdio_client`, `http_client` answering with JSON bodies, `http_client` answering with SSE bodies,
`sse_client`), the real request helpers run through the `(read, write)` pair each transport yields.

Reuses the seams of the per-carrier harnesses (imported, not copied):
  stdio_h   FakeProcess / FakeStdin, `_patched` / `_restore` (the `anyio.open_process` seam)
  http_h    `_MockPatch` (httpx.AsyncClient -> httpx.MockTransport(handler)), URL
  http_gen  `sse_text` (renderer of every conformant SSE body encoding), `idtag`
  sse_h     `guarded_run` (virtual-time loop that reports a deadlock of the code under test), `cut_bytes`
  helpers   discovery of the typed request helpers

A case (JSON):
  xs     [{"call": {"h": helper name | "send_message" | "send_initialize", "method", "params", "id": {"i"}|{"s"}|absent},
           "notifs": [{"method", "params"|absent}], "reply": {"result": obj} | {"error": obj},
           "lat": ticks until the server's first byte, "gap": ticks between pieces}]
  style  {"sp": bool, "ascii": bool}     how the scripted server writes JSON text
  D      helper timeout in ticks (1/1024 s)
  tie    "events" | "timers" | "io": order of scripted arrivals and timers at equal instants (vloop)
  wire   per carrier, the free choices of its encoding (all optional):
         stdio   {"crlf": [bool per message], "cuts": [[byte offsets inside the exchange's block]]}
         json    [{"status", "sess", "batch"}]                       per exchange
         httpsse [{"status", "sess", "evs": [{"name", "nc", "dc", "after": [ignored], "before": [event without message]}],
                   "eols", "tail", "trailing": [event without message]}]     (events as in http_gen)
         sse     {"pre": [{"k","d","crlf"}], "crlf": [bool per message], "cuts": [[...]], "ack": [piece index]}

Observation per carrier: the read-stream transcript seen by a tap on the read stream (id with JSON
type, method, params / result / error as JSON values; kind = field presence), each helper's outcome,
the ids the client generated, and what the scripted server actually wrote (for the model side).
"""
from __future__ import annotations

import asyncio
import collections
import copy
import json

from . import http_gen as G
from . import http_h, sse_h, stdio_h, vloop

CARRIERS = ["stdio", "http_json", "http_sse", "sse"]
ENDPOINT = "/messages/?session_id=verif"
TRANSPORT_TIMEOUT_S = 8.0
SETTLE_TICKS = 6


# ------------------------------------------------------------------------------- conversation

def expressible(case, carrier) -> bool:
    if carrier == "http_json":
        return all(not x.get("notifs") for x in case["xs"])
    return True


def dumps(style, v) -> str:
    sp = bool(style.get("sp"))
    return json.dumps(v, ensure_ascii=bool(style.get("ascii")), separators=((", ", ": ") if sp else (",", ":")))


def notif_msg(n):
    d = {"jsonrpc": "2.0", "method": n["method"]}
    if n.get("params") is not None:
        d["params"] = n["params"]
    return d


def reply_msg(x, rid):
    d = {"jsonrpc": "2.0", "id": rid}
    r = x["reply"]
    if "error" in r:
        d["error"] = r["error"]
    else:
        d["result"] = r["result"]
    return d


def messages(x, rid):
    return [notif_msg(n) for n in x.get("notifs", [])] + [reply_msg(x, rid)]


def jsonable(v):
    try:
        return json.loads(json.dumps(v))
    except Exception:  # noqa
        return {"$object": type(v).__name__}


def canon_msg(m):
    """a read-stream entry by its members (the class of the object says nothing)"""
    if isinstance(m, list):
        return {"list": [canon_msg(x) for x in m]}
    get = (lambda k: m.get(k)) if isinstance(m, dict) else (lambda k: getattr(m, k, None))
    return {"id": G.idtag(get("id")), "method": jsonable(get("method")), "params": jsonable(get("params")),
            "result": jsonable(get("result")), "error": jsonable(get("error"))}


def kind_of(e):
    if "list" in e:
        return "list"
    if e["method"] is not None:
        return "request" if e["id"] is not None else "notification"
    if e["error"] is not None:
        return "error"
    if e["result"] is not None:
        return "result"
    return "other"


def expected_transcript(case, ids):
    """the scripted conversation as read-stream entries; `ids[k]` = the id the client generated for
    its k-th request (the server answers with the id it received)"""
    out = []
    for k, x in enumerate(case["xs"]):
        rid = ids[k] if k < len(ids) else None
        for m in messages(x, rid):
            out.append(canon_msg(m))
    return out


# ------------------------------------------------------------------------------- plumbing

class PushStream:
    """bytes released by the scripted server, consumed by the code under test"""

    def __init__(self, loop):
        self.loop = loop
        self.q = collections.deque()
        self.waiter = None
        self.closed = False

    def push(self, item):
        self.q.append(item)
        if self.waiter is not None and not self.waiter.done():
            self.waiter.set_result(None)

    async def get(self):
        while not self.q:
            self.waiter = self.loop.create_future()
            await self.waiter
        return self.q.popleft()


class Tap:
    """read stream handed to the helpers: everything received is recorded, then passed on"""

    def __init__(self, inner, log):
        self._inner = inner
        self._log = log

    async def receive(self):
        m = await self._inner.receive()
        self._log.append(canon_msg(m))
        return m

    def receive_nowait(self):
        m = self._inner.receive_nowait()
        self._log.append(canon_msg(m))
        return m

    def __aiter__(self):
        return self

    async def __anext__(self):
        import anyio
        try:
            return await self.receive()
        except anyio.EndOfStream:
            raise StopAsyncIteration

    def drain(self):
        import anyio
        n = 0
        while True:
            try:
                self.receive_nowait()
                n += 1
            except (anyio.WouldBlock, anyio.EndOfStream, anyio.ClosedResourceError, anyio.BrokenResourceError):
                return n

    def __getattr__(self, name):
        return getattr(self._inner, name)


class WriteTap:
    """write stream handed to the helpers: records the id of every request the client builds"""

    def __init__(self, inner, ids):
        self._inner = inner
        self._ids = ids

    async def send(self, msg):
        get = (lambda k: msg.get(k)) if isinstance(msg, dict) else (lambda k: getattr(msg, k, None))
        if get("id") is not None and get("method") is not None:
            self._ids.append(get("id"))
        await self._inner.send(msg)

    def __getattr__(self, name):
        return getattr(self._inner, name)


def at_future(loop, tick):
    f = loop.create_future()

    def fire():
        if not f.done():
            f.set_result(None)
    loop.at(max(tick, loop.ticks), fire)
    return f


class Server:
    """plays the conversation: the k-th request (a message with id and method) is answered with the
    k-th exchange, the reply bearing the id the request arrived with"""

    def __init__(self, case, obs):
        self.case = case
        self.obs = obs
        self.k = 0

    def is_request(self, body):
        return isinstance(body, dict) and body.get("id") is not None and isinstance(body.get("method"), str)

    def take(self, body):
        k = self.k
        self.k += 1
        self.obs["requests"].append({"method": body.get("method"), "params": body.get("params"), "id": G.idtag(body.get("id"))})
        if k >= len(self.case["xs"]):
            self.obs["unscripted"] = self.obs.get("unscripted", 0) + 1
            return None
        x = self.case["xs"][k]
        texts = [dumps(self.case.get("style") or {}, m) for m in messages(x, body.get("id"))]
        self.obs["texts"].append(texts)
        return k, x, texts


def wire_of(case, carrier):
    return (case.get("wire") or {}).get(carrier)


def nth(lst, k, dflt):
    return lst[k] if lst is not None and k < len(lst) else dflt


# ------------------------------------------------------------------------------- helpers

async def call_helper(call, rd, wr, D_s):
    from chuk_mcp.protocol.messages.send_message import send_message, CancelledError
    from chuk_mcp.protocol.types.errors import RetryableError, NonRetryableError
    from . import helpers

    h = call["h"]
    try:
        if h == "send_message":
            params = copy.deepcopy(call.get("params"))
            kw = {}
            if call.get("id") is not None:
                kw["message_id"] = G.idval(call["id"])
            res = await send_message(rd, wr, call.get("method", "tools/list"), params, timeout=D_s, **kw)
        elif h == "send_initialize":
            from chuk_mcp.protocol.messages.initialize.send_messages import send_initialize
            res = await send_initialize(rd, wr, timeout=D_s)
        else:
            fn = helpers.discover()[0][h][0]
            res = await fn(rd, wr, D_s)
    except TimeoutError:
        return {"outcome": "timeout"}
    except CancelledError:
        return {"outcome": "cancelled"}
    except (RetryableError, NonRetryableError) as ex:
        return {"outcome": "raised", "retryable": isinstance(ex, RetryableError), "code": jsonable(ex.code)}
    except Exception as ex:  # any other exception class (validation of a typed result, version mismatch …)
        return {"outcome": "exception", "exc": type(ex).__name__}
    if hasattr(res, "model_dump"):
        try:
            res = {"$model": type(res).__name__, "dump": res.model_dump(by_alias=True, exclude_none=True)}
        except Exception:  # noqa
            res = {"$model": type(res).__name__}
    return {"outcome": "returned", "value": jsonable(res)}


async def converse(rd, wr, case, obs):
    import anyio
    tap = Tap(rd, obs["transcript"])
    wtap = WriteTap(wr, obs["ids"])
    D_s = case.get("D", 5120) * vloop.TICK
    for x in case["xs"]:
        obs["outcomes"].append(await call_helper(x["call"], tap, wtap, D_s))
        await anyio.sleep(SETTLE_TICKS * vloop.TICK)
        obs["late"] += tap.drain()


def cut_local(block: bytes, cuts):
    return sse_h.cut_bytes(block, cuts or [])


# ------------------------------------------------------------------------------- stdio

async def run_stdio(case, obs):
    loop = asyncio.get_running_loop()
    mod = stdio_h.stdio_module()
    server = Server(case, obs)
    out = PushStream(loop)
    w = wire_of(case, "stdio") or {}
    sent = {"msgs": 0, "pos": 0, "cuts": [], "crlf": []}
    buf = bytearray()

    def on_bytes(data: bytes):
        buf.extend(data)
        while b"\n" in buf:
            line, _, rest = bytes(buf).partition(b"\n")
            del buf[: len(line) + 1]
            try:
                body = json.loads(line.decode("utf-8"))
            except Exception:  # noqa
                obs["bad_outbound"] = obs.get("bad_outbound", 0) + 1
                continue
            if not server.is_request(body):
                continue
            r = server.take(body)
            if r is None:
                continue
            k, x, texts = r
            block = b""
            for t in texts:
                crlf = bool(nth(w.get("crlf"), sent["msgs"], False))
                sent["crlf"].append(crlf)
                sent["msgs"] += 1
                block += t.encode("utf-8") + (b"\r\n" if crlf else b"\n")
            pieces = cut_local(block, nth(w.get("cuts"), k, []))
            now, lat, gap = loop.ticks, x.get("lat", 1), x.get("gap", 1)
            for j, p in enumerate(pieces):
                loop.at(now + lat + j * gap, (lambda b: (lambda: out.push(b)))(p))
                sent["pos"] += len(p)
                sent["cuts"].append(sent["pos"])

    class Stdin(stdio_h.FakeStdin):
        async def send(self, data):
            await super().send(data)
            on_bytes(bytes(data))

    class Stdout:
        def __aiter__(self):
            return self

        async def __anext__(self):
            c = await out.get()
            if c is None:
                raise StopAsyncIteration
            return c

        async def receive(self, max_bytes: int = 65536):
            import anyio
            c = await out.get()
            if c is None:
                raise anyio.EndOfStream
            return c

        async def aclose(self):
            return None

    proc = stdio_h.FakeProcess([])
    proc.stdin = Stdin()
    proc.stdout = Stdout()
    holder = {"proc": proc}
    saved = stdio_h._patched(mod, holder)
    try:
        from chuk_mcp.transports.stdio.parameters import StdioParameters
        async with mod.stdio_client(StdioParameters(command="verif-fake-child", args=[])) as (rd, wr):
            await converse(rd, wr, case, obs)
    finally:
        stdio_h._restore(saved)
        obs["wire"] = {"crlf": sent["crlf"], "cuts": sent["cuts"][:-1] if sent["cuts"] else []}


# ------------------------------------------------------------------------------- Streamable HTTP

def sse_body_of(texts, c):
    """the SSE body of one exchange in http_gen's vocabulary: per message its own event, preceded by
    the events without a message chosen for it (`before`), and the `trailing` ones at the end"""
    evs = []
    for i, t in enumerate(texts):
        e = nth(c.get("evs"), i, None) or {}
        evs += copy.deepcopy(list(e.get("before") or []))
        evs.append({"name": e.get("name"), "data": [t], "nc": e.get("nc") or dict(G.DFLT), "dc": [e.get("dc") or dict(G.DFLT)],
                    "after": list(e.get("after") or [])})
    evs += copy.deepcopy(list(c.get("trailing") or []))
    return {"form": "sse", "events": evs, "eols": list(c.get("eols") or []), "tail": c.get("tail", "full")}


async def run_http(case, obs, form):
    import httpx
    from chuk_mcp.transports.http import http_client, StreamableHTTPParameters

    loop = asyncio.get_running_loop()
    server = Server(case, obs)
    w = wire_of(case, "json" if form == "json" else "httpsse") or []

    async def handler(request):
        try:
            body = json.loads(request.content.decode("utf-8"))
        except Exception:  # noqa
            obs["bad_outbound"] = obs.get("bad_outbound", 0) + 1
            return httpx.Response(400, text="bad request")
        if request.method != "POST" or not server.is_request(body):
            return httpx.Response(202)
        r = server.take(body)
        if r is None:
            return httpx.Response(500, text="unscripted")
        k, x, texts = r
        c = nth(w, k, None) or {}
        await at_future(loop, loop.ticks + x.get("lat", 1))
        headers = []
        if c.get("sess") is not None:
            headers.append(("mcp-session-id", c["sess"]))
        if form == "json":
            raw = (("[" + texts[-1] + "]") if c.get("batch") else texts[-1]).encode("utf-8")
            headers.append(("content-type", "application/json"))
        else:
            raw = G.sse_text(sse_body_of(texts, c)).encode("utf-8")
            headers.append(("content-type", "text/event-stream"))
        return httpx.Response(c.get("status", 200), headers=headers, content=raw)

    with http_h._MockPatch(handler):
        params = StreamableHTTPParameters(url=http_h.URL, timeout=TRANSPORT_TIMEOUT_S)
        async with http_client(params) as (rd, wr):
            await converse(rd, wr, case, obs)


# ------------------------------------------------------------------------------- legacy SSE

def event_bytes(text: str, crlf: bool, name="message") -> bytes:
    eol = "\r\n" if crlf else "\n"
    return (f"event: {name}{eol}data: {text}{eol}{eol}").encode("utf-8")


def pre_bytes(pre) -> bytes:
    out = b""
    for p in pre:
        eol = "\r\n" if p.get("crlf") else "\n"
        if p["k"] == "comment":
            out += (":" + p["d"] + eol).encode("utf-8")
        else:
            out += event_bytes(p["d"], bool(p.get("crlf")), name=p["k"])
    return out


DEFAULT_PRE = [{"k": "endpoint", "d": ENDPOINT, "crlf": False}]


async def run_sse(case, obs):
    import httpx
    from chuk_mcp.transports.sse.sse_client import sse_client
    from chuk_mcp.transports.sse.parameters import SSEParameters

    loop = asyncio.get_running_loop()
    server = Server(case, obs)
    stream = PushStream(loop)
    w = wire_of(case, "sse") or {}
    pre = w.get("pre") or DEFAULT_PRE
    sent = {"msgs": 0, "pos": 0, "bytes": b"", "cuts": [], "crlf": [], "acks": []}

    class ByteStream(httpx.AsyncByteStream):
        async def __aiter__(self):
            while True:
                item = await stream.get()
                if item is None:
                    return
                yield item

        async def aclose(self):
            stream.closed = True

    def release(b):
        def f():
            stream.push(b)
        return f

    async def handler(request):
        if request.method == "GET":
            b = pre_bytes(pre)
            sent["bytes"] += b
            sent["pos"] += len(b)
            sent["cuts"].append(sent["pos"])
            stream.push(b)
            return httpx.Response(200, headers={"content-type": "text/event-stream"}, stream=ByteStream())
        try:
            body = json.loads(request.content.decode("utf-8"))
        except Exception:  # noqa
            obs["bad_outbound"] = obs.get("bad_outbound", 0) + 1
            return httpx.Response(400, text="bad request")
        if not server.is_request(body):
            return httpx.Response(202, text="Accepted")
        r = server.take(body)
        if r is None:
            return httpx.Response(202, text="Accepted")
        k, x, texts = r
        block, ends = b"", []
        for t in texts:
            crlf = bool(nth(w.get("crlf"), sent["msgs"], False))
            sent["crlf"].append(crlf)
            sent["msgs"] += 1
            block += event_bytes(t, crlf)
            ends.append(len(block))
        pieces = cut_local(block, nth(w.get("cuts"), k, []))
        a = min(max(int(nth(w.get("ack"), k, 0)), 0), len(pieces))
        now, lat = loop.ticks, max(x.get("lat", 2), 2)
        done = 0
        for j, p in enumerate(pieces):
            loop.at(now + lat + 2 * j, release(p))
            sent["bytes"] += p
            sent["pos"] += len(p)
            sent["cuts"].append(sent["pos"])
            if j < a:
                done += len(p)
        # the model's `ack`: stream messages of this exchange completely delivered before the 202
        sent["acks"].append(sum(1 for e in ends if e <= done))
        await at_future(loop, now + lat + 2 * a - 1)
        return httpx.Response(202, text="Accepted")

    try:
        with http_h._MockPatch(handler):
            params = SSEParameters(url="http://verif.test", timeout=TRANSPORT_TIMEOUT_S)
            async with sse_client(params) as (rd, wr):
                await converse(rd, wr, case, obs)
    finally:
        # chunk boundaries in characters (what `aiter_text` hands over piece by piece)
        cuts = [len(sent["bytes"][:c].decode("utf-8", errors="ignore")) for c in sent["cuts"][:-1]]
        obs["wire"] = {"crlf": sent["crlf"], "cuts": cuts, "acks": sent["acks"], "pre": pre}


# ------------------------------------------------------------------------------- entry points

def fresh_obs():
    return {"transcript": [], "outcomes": [], "ids": [], "requests": [], "texts": [], "late": 0}


def run_carrier(case, carrier):
    """one conversation over one real carrier, under the virtual-time loop, with deterministic
    request ids (`uuid.uuid4` seam) so that every carrier's client generates the same ids"""
    import uuid

    obs = fresh_obs()
    counter = {"n": 0}
    real_uuid4 = uuid.uuid4

    def fake_uuid4():
        counter["n"] += 1
        return uuid.UUID(int=(0xC15 << 100) + counter["n"])

    async def main():
        try:
            if carrier == "stdio":
                await run_stdio(case, obs)
            elif carrier == "http_json":
                await run_http(case, obs, "json")
            elif carrier == "http_sse":
                await run_http(case, obs, "sse")
            elif carrier == "sse":
                await run_sse(case, obs)
            else:
                raise ValueError(carrier)
        except Exception as ex:  # the transport's context manager (or a helper's plumbing) raised
            obs["crash"] = type(ex).__name__

    uuid.uuid4 = fake_uuid4
    try:
        dl = sse_h.guarded_run(main, tie=case.get("tie", "events"))
        if dl is not None:
            obs["deadlock"] = [x for x in dl if "run_carrier" not in x]
    except BaseException as ex:  # harness failure, not an observation
        if isinstance(ex, (KeyboardInterrupt, SystemExit)):
            raise
        obs["harness_error"] = repr(ex)[:300]
    finally:
        uuid.uuid4 = real_uuid4
    return obs


def run_case(case):
    return {c: (run_carrier(case, c) if expressible(case, c) else None) for c in CARRIERS}
