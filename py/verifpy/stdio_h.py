"""Harness for the stdio transport (C05, C06, C13): drives the REAL `StdioClient` through the
`anyio.open_process` seam with a scripted fake child.

* the fake child's stdout yields the scripted chunks one by one (a scripted `set` entry calls
  `client.set_protocol_version` while the reader is between two reads);
* its stdin records every `send()` and the `aclose()`;
* everything runs under the virtual-time loop, so "wait until the reader/writer has nothing left
  to do" is a virtual `sleep` that costs no wall-clock time and also terminates when the reader
  task has died.

Observations are canonical JSON-able values; no log text, no exception wording.
"""
from __future__ import annotations

import sys

from . import vloop

MODNAME = "chuk_mcp.transports.stdio.stdio_client"


def stdio_module():
    import importlib

    importlib.import_module(MODNAME)
    return sys.modules[MODNAME]


STEP = 1.0 / 1024  # one scheduling step of the slow pipe, in virtual seconds


class FakeStdin:
    """The child's stdin as the client sees it (anyio's process stdin: `write()` appends the bytes
    to the pipe/transport buffer as a unit, then `drain()` may suspend the caller).

    `drain_bytes` = 0: the child reads at once (`send` only yields to the loop).
    `drain_bytes` = N: the child is slow: it takes N bytes per scheduling step, so a `send()` of S
    bytes suspends its caller for ceil(S/N) steps of virtual time AFTER its bytes were appended -
    other tasks (the stdout reader) run and may write to the same pipe meanwhile."""

    """
    Further scripted conditions (all optional):
    `stall` = T seconds: the child does not read its stdin AT ALL until T seconds (virtual) after the
    connection was opened - longer than any timeout a client may have; the pipe and the transport
    buffer take `capacity` bytes, a `send()` that leaves more than that outstanding suspends until the
    child has read enough (after the stall it reads `drain_bytes` per step, or everything at once).
    A `send()` whose wait is cancelled has ALREADY handed its bytes over (as `StreamWriter.write` has).
    `fail_sends` = {k, …}: the k-th `send()` call (0-based) fails with BrokenPipeError, nothing is written.
    `breaks_at` = k: the child closes its stdin: the k-th and every later `send()` fails."""

    def __init__(self, drain_bytes: int = 0):
        self.sends: list[bytes] = []
        self.closed = False
        self.sends_at_close = None
        self.drain_bytes = drain_bytes
        self.stall = None
        self.capacity = 131072
        self.t_open = None
        self.total = 0
        self.calls = 0
        self.fail_sends = set()
        self.breaks_at = None
        self.failed = []

    async def send(self, data):
        import asyncio

        import anyio

        if self.closed:
            raise anyio.ClosedResourceError
        k = self.calls
        self.calls += 1
        if k in self.fail_sends or (self.breaks_at is not None and k >= self.breaks_at):
            self.failed.append(k)
            await anyio.lowlevel.checkpoint()
            raise BrokenPipeError("the child is not taking this write")
        data = bytes(data)
        self.sends.append(data)
        if self.stall is not None:
            self.total += len(data)
            now = asyncio.get_running_loop().time()
            end = self.t_open + self.stall
            need = self.total - self.capacity  # bytes the child must have read before this call may return
            if need <= 0:
                await anyio.lowlevel.checkpoint()
                return
            t = end + ((-(-need // self.drain_bytes)) * STEP if self.drain_bytes else 0.0)
            if t > now:
                await anyio.sleep(t - now)
            else:
                await anyio.lowlevel.checkpoint()
        elif self.drain_bytes:
            await anyio.sleep(-(-len(data) // self.drain_bytes) * STEP)
        else:
            await anyio.lowlevel.checkpoint()

    async def aclose(self):
        if not self.closed:
            self.closed = True
            self.sends_at_close = len(self.sends)
        if getattr(self, "aclose_raises", False):  # the pipe is already gone: closing it fails
            raise OSError("stdin already closed by the child")


class FakeStdout:
    """async-iterable byte stream yielding the scripted reads"""

    def __init__(self, proc, script):
        self.proc = proc
        self.script = list(script)
        self.i = 0

    def __aiter__(self):
        return self

    async def _next(self):
        import anyio

        await anyio.lowlevel.checkpoint()
        while self.i < len(self.script):
            kind, val = self.script[self.i]
            self.i += 1
            if kind == "chunk":
                return val
            if kind == "set":
                self.proc.client.set_protocol_version(val)
                info = getattr(self.proc, "info", None)
                c = self.proc.client
                if info is not None and hasattr(c, "is_batching_enabled"):
                    try:
                        info.append({"set": val, "version": c.get_protocol_version(), "enabled": c.is_batching_enabled(),
                                     "info": c.get_batching_info()})
                    except Exception as ex:  # noqa
                        info.append({"set": val, "raised": type(ex).__name__})
            if kind == "close_stdin":
                await self.proc.stdin.aclose()
            if kind == "reply_init":  # the child answers the client's `initialize` request with this version
                import json as _json

                rid = None
                for _ in range(20000):
                    for b in self.proc.stdin.sends:
                        try:
                            d = _json.loads(b.decode("utf-8"))
                        except Exception:  # noqa
                            continue
                        if isinstance(d, dict) and d.get("method") == "initialize":
                            rid = d.get("id")
                    if rid is not None:
                        break
                    await anyio.sleep(STEP)
                return (_json.dumps({"jsonrpc": "2.0", "id": rid, "result": {
                    "protocolVersion": val, "capabilities": {}, "serverInfo": {"name": "verif-fake-child", "version": "1"}}}) + "\n").encode()
            if kind == "sleep":  # the child is busy for `val` scheduling steps before its next output
                await anyio.sleep(val * STEP)
            if kind == "at":  # output at step `val` after the start of the case, injected by the loop itself
                import asyncio  # (a scripted event, so the loop's tie order decides what a timer of the same instant sees)

                ev = anyio.Event()
                asyncio.get_running_loop().at(self.proc.t0 + val, ev.set)
                await ev.wait()
        self.proc.eof = True
        return None

    async def __anext__(self):
        c = await self._next()
        if c is None:
            raise StopAsyncIteration
        return c

    async def receive(self, max_bytes: int = 65536):
        import anyio

        c = await self._next()
        if c is None:
            raise anyio.EndOfStream
        return c

    async def aclose(self):
        return None


class FakeProcess:
    def __init__(self, script):
        self.pid = 424242
        self.returncode = None
        self.stdin = FakeStdin()
        self.stdout = FakeStdout(self, script)
        self.stderr = None
        self.client = None
        self.eof = False
        self.terminated = False

    def terminate(self):
        self.terminated = True
        if self.returncode is None:
            self.returncode = -15

    def kill(self):
        if self.returncode is None:
            self.returncode = -9

    def send_signal(self, sig):
        self.terminate()

    async def wait(self):
        if self.returncode is None:
            self.returncode = 0
        return self.returncode

    async def aclose(self):
        return None


def dump_msg(m):
    """canonical value of something found on the read / notification stream"""
    if isinstance(m, list):
        return [dump_msg(x) for x in m]
    if hasattr(m, "model_dump"):
        try:
            return m.model_dump(exclude_none=True)
        except Exception:  # noqa
            return {"$undumpable": type(m).__name__}
    if isinstance(m, (dict, str, int, float, bool)) or m is None:
        return m
    return {"$object": type(m).__name__}


_PARSE_CACHE: dict = {}


def parse_line(text: str):
    """cached `parse_line_uncached` (the verdict is a pure function of the text within one run)"""
    r = _PARSE_CACHE.get(text)
    if r is None:
        r = _PARSE_CACHE[text] = parse_line_uncached(text)
        if len(_PARSE_CACHE) > 200000:
            _PARSE_CACHE.clear()
    return r


HISTORY_DEPENDENT: list = []


def run_reader_cases_fresh(cases):
    """`run_reader_cases` in a new process (the first thing that process does with the library)"""
    import os
    import pickle
    import subprocess
    import sys

    from . import core

    env = dict(os.environ)
    env["PYTHONPATH"] = str(core.ROOT / "py") + os.pathsep + env.get("PYTHONPATH", "")
    env["VERIF_REPO"] = str(core.REPO)
    p = subprocess.run([sys.executable, "-m", "verifpy.stdio_worker", "reader"], input=pickle.dumps(cases), capture_output=True, env=env, timeout=900)
    if p.returncode != 0:
        return [{"harness_error": "worker: " + p.stderr.decode("utf-8", "replace")[-300:]} for _ in cases]
    return pickle.loads(p.stdout)


def prejudge(texts):
    """Fill the verdict cache for these lines from a process that has parsed nothing else (`stdio_judge`): what a
    well-formed line is must not depend on what this process, or the library's parser, saw before.  Lines the judge
    could not decide stay with the in-process answer.  Returns the lines on which the parser's answer turned out to
    depend on its history."""
    import os
    import pickle
    import subprocess
    import sys

    from . import core

    todo = list(dict.fromkeys(texts))  # also lines already asked in-process: the fresh answer replaces that one
    if not todo or not hasattr(os, "fork"):
        return []
    env = dict(os.environ)
    env["PYTHONPATH"] = str(core.ROOT / "py") + os.pathsep + env.get("PYTHONPATH", "")
    env["VERIF_REPO"] = str(core.REPO)
    try:
        p = subprocess.run([sys.executable, "-m", "verifpy.stdio_judge"], input=pickle.dumps(todo), capture_output=True, env=env, timeout=600)
        r = pickle.loads(p.stdout)
    except Exception:  # noqa
        return []
    _PARSE_CACHE.update(r["verdicts"])
    for t in r["history_dependent"]:
        if t not in HISTORY_DEPENDENT:
            HISTORY_DEPENDENT.append(t)
    return r["history_dependent"]


def _key_of(m):
    """the key under which the legacy per-request API looks a message up: `str(id)` (None for no id)"""
    i = getattr(m, "id", None)
    return None if i is None else str(i)


def parse_line_uncached(text: str):
    """The library's own verdict on one whole line: ("junk",) | ("single", dump, is_notification)
    | ("batch", [None | (dump, is_notification)])."""
    from chuk_mcp.protocol import fast_json
    from chuk_mcp.protocol.messages.json_rpc_message import parse_message

    try:
        data = fast_json.loads(text)
    except Exception:  # noqa
        # The library's decoder refuses it.  If the text is nevertheless inside the RFC 8259 grammar (reference: the
        # stdlib decoder with NaN / Infinity refused) it IS a JSON line - a lone surrogate escape, a number beyond the
        # double range, nesting beyond one decoder's limit - and what it denotes is what the reference decoder says.
        import json as _json

        def _refuse(tok):
            raise ValueError(tok)

        try:
            data = _json.loads(text, parse_constant=_refuse)
        except Exception:  # noqa
            return ("junk",)
    if isinstance(data, list):
        items = []
        for it in data:
            try:
                m = parse_message(it)
                items.append((dump_msg(m), getattr(m, "id", None) is None, _key_of(m)))
            except Exception:  # noqa
                items.append(None)
        return ("batch", items)
    try:
        m = parse_message(data)
    except Exception:  # noqa
        return ("junk",)
    return ("single", dump_msg(m), getattr(m, "id", None) is None, _key_of(m))


def _decode_writes(sends):
    """bytes written to the child's stdin -> list of {"json": value} | {"raw": hex}"""
    import json

    out = []
    for b in sends:
        try:
            t = b.decode("utf-8")
            if not t.endswith("\n") or "\n" in t[:-1]:
                raise ValueError
            out.append({"json": json.loads(t)})
        except Exception:  # noqa
            out.append({"raw": b.hex()})
    return out


def _Cancelled():
    import anyio

    return anyio.get_cancelled_exc_class()


def _script_of(events):
    script = []
    for e in events:
        if "c" in e:
            script.append(("chunk", bytes.fromhex(e["c"])))
        elif "s" in e:  # a text chunk (the reader accepts str chunks as well as bytes)
            script.append(("chunk", e["s"]))
        elif "sleep" in e:
            script.append(("sleep", e["sleep"]))
        elif "close_stdin" in e:  # the client's write side goes away while the child keeps talking
            script.append(("close_stdin", None))
        elif "reply_init" in e:
            script.append(("reply_init", e["reply_init"]))
        else:
            script.append(("set", e["v"]))
    return script


def _open_client(mod, api, server=None):
    """the public ways to get a stdio connection; returns (context manager, get(entered) -> (client, read, write)).
    `server`: non-default options of the connection ({"env": {...}, "args": [...], "init": {kwargs of
    stdio_client_with_initialize}})"""
    from chuk_mcp.transports.stdio.parameters import StdioParameters

    server = server or {}
    params = StdioParameters(command="verif-fake-child", args=list(server.get("args", [])), env=server.get("env"))
    if api == "function":  # stdio_client(): only the two streams are handed out
        cm = mod.stdio_client(params)

        async def get(entered):
            return None, entered[0], entered[1]
        return cm, get
    if api == "with_initialize":  # stdio_client_with_initialize(): a real handshake, the client object stays hidden
        cm = mod.stdio_client_with_initialize(params, **dict({"timeout": 5.0}, **server.get("init", {})))

        async def get(entered):
            return None, entered[0], entered[1]
        return cm, get
    if api == "transport":  # StdioTransport wrapper
        tmod = __import__("chuk_mcp.transports.stdio.transport", fromlist=["StdioTransport"])
        t = tmod.StdioTransport(params)

        async def get(entered):
            r, w = await t.get_streams()
            return t._client, r, w
        return t, get
    client = mod.StdioClient(params)

    async def get(entered):
        r, w = client.get_streams()
        return client, r, w
    return client, get


class _BodyError(Exception):
    """what the body of `async with client:` raises in a session that ends with an exception"""


class _session_ending:
    """`async with cm` whose body ends the way `end` says once the caller's block is through:
    None = the host leaves normally; "child-exited" = the child has already exited by itself (returncode set) when the host
    leaves; "exception" = the body raises; "cancelled" = the body is cancelled from outside.  What the context manager does
    with the exception / cancellation stays inside this wrapper: the session's observation is complete either way."""

    def __init__(self, cm, end, proc):
        self.cm, self.end, self.proc = cm, end, proc

    async def __aenter__(self):
        return await self.cm.__aenter__()

    async def __aexit__(self, et, ev, tb):
        import anyio

        if et is not None or self.end is None:
            return await self.cm.__aexit__(et, ev, tb)
        if self.end == "child-exited":
            self.proc.returncode = 0
            return await self.cm.__aexit__(None, None, None)
        if self.end == "exception":
            try:
                raise _BodyError("the body failed")
            except _BodyError as ex:
                try:
                    if not await self.cm.__aexit__(type(ex), ex, ex.__traceback__):
                        pass
                except _BodyError:
                    pass
            return True
        if self.end == "cancelled":
            with anyio.CancelScope() as scope:
                scope.cancel()
                try:
                    await anyio.sleep(0)
                except BaseException as ex:  # noqa: the cancellation, handed to the context manager as the body's exception
                    await self.cm.__aexit__(type(ex), ex, ex.__traceback__)
                    raise
            return True
        raise ValueError(self.end)


async def _reader_session(mod, holder, case, cm, get, client_hint=None):
    import anyio

    opts = case.get("opts", {})
    proc = FakeProcess(_script_of(case["events"]))
    holder["proc"] = proc
    proc.client = client_hint
    delivered, notified, legacy, info = [], [], {}, []
    eof = False
    async with _session_ending(cm, opts.get("end"), proc) as entered:
        client, read, write = await get(entered)
        proc.client = client if client is not None else _NoClient()
        if opts.get("api") == "transport":
            proc.client = _ViaTransport(cm, client)
        proc.info = info
        pend = {}
        if client is not None:
            for rid in opts.get("pending", []):
                pend[str(rid)] = client.new_request_stream(str(rid))
            for rid in opts.get("pending_closed", []):
                await client.new_request_stream(str(rid)).aclose()
            if opts.get("notif_closed"):
                await client.notifications.aclose()
        if opts.get("close_write_first"):
            await write.aclose()
        if opts.get("read_closed"):  # the consumer of the read stream went away; the child keeps talking
            await read.aclose()

        frozen = []

        def scribble(m):
            """a consumer (middleware) that changes what it received IN PLACE"""
            for attr in ("params", "result", "error"):
                v = getattr(m, attr, None)
                if isinstance(v, dict):
                    v["_meta"] = {"touched": True}
                    v.pop("text", None)
                elif isinstance(v, list):
                    v.append("touched")
            for attr, val in (("id", "scribbled"), ("method", "scribbled/method")):
                try:
                    setattr(m, attr, val)
                except Exception:  # noqa
                    pass

        async def consume():
            if opts.get("consumer") == "slow":
                async for m in read:
                    delivered.append(m)
                    await anyio.sleep(0.01)
            elif opts.get("consumer") == "mutate":
                async for m in read:
                    frozen.append(dump_msg(m))  # what arrived
                    delivered.append(m)
                    scribble(m)                  # … and what the consumer then does with ITS object
            elif opts.get("consume_max") is not None:  # a consumer that stops reading (and leaves) with lines still pending
                if int(opts["consume_max"]) > 0:
                    async for m in read:
                        delivered.append(m)
                        if len(delivered) >= int(opts["consume_max"]):
                            break
            else:
                async for m in read:
                    delivered.append(m)

        async with anyio.create_task_group() as tg:
            if opts.get("consumer") == "late":
                await anyio.sleep(float(opts.get("late_s", 1.0)))  # the reader fills the 100-slot read stream and has to wait
            if not opts.get("read_closed"):
                tg.start_soon(consume)
            idle = sum(e.get("sleep", 0) for e in case["events"]) * STEP
            await anyio.sleep(30.0 + idle)  # virtual: returns once every other task is blocked or done
            if client is not None and not opts.get("notif_closed") and not opts.get("notifs_unread"):
                try:
                    while True:
                        notified.append(client.notifications.receive_nowait())
                except (anyio.WouldBlock, anyio.EndOfStream, anyio.ClosedResourceError):
                    pass
            for rid, st in pend.items():
                got = []
                try:
                    while True:
                        got.append(dump_msg(st.receive_nowait()))
                except (anyio.WouldBlock, anyio.EndOfStream, anyio.ClosedResourceError):
                    pass
                legacy[rid] = got
            eof = proc.eof  # before the client's own shutdown (which may drain the pipe)
            tg.cancel_scope.cancel()
    return {
        "delivered": None if opts.get("read_closed") else (frozen if opts.get("consumer") == "mutate" else [dump_msg(m) for m in delivered]),
        # (the notification stream holds the SAME objects as the read stream: after a scribbling consumer its content is not compared)
        "notified": [dump_msg(m) for m in notified] if (proc.client is not None and not isinstance(proc.client, _NoClient)
                                                        and not opts.get("notif_closed") and not opts.get("notifs_unread")
                                                        and opts.get("consumer") != "mutate") else None,
        "writes": _decode_writes(proc.stdin.sends),
        "eof": eof,
        "legacy": legacy,
        "info": info,
    }


class _ViaTransport:
    """version changes go through the StdioTransport wrapper, everything else to the client behind it"""

    def __init__(self, transport, client):
        self._t, self._c = transport, client

    def set_protocol_version(self, v):
        self._t.set_protocol_version(v)

    def __getattr__(self, name):
        return getattr(self._c, name)


class _NoClient:
    def set_protocol_version(self, v):
        raise RuntimeError("no client object with this API")


async def _reader_case(mod, holder, case):
    """case: {"events": [{"c": hex} | {"s": text} | {"v": version|None} | {"sleep": steps} | {"close_stdin": 1}],
    "opts": {"api": "client"|"function"|"transport", "pending": [ids], "pending_closed": [ids], "notif_closed": bool,
             "consumer": "eager"|"late"|"slow", "close_write_first": bool, "sessions": n}}
    With "sessions": n > 1 the SAME client object is entered n times, the same script each time; the
    observation is that of the last session plus "earlier": [observations]."""
    opts = case.get("opts", {})
    entered = False
    try:
        cm, get = _open_client(mod, opts.get("api", "client"), case.get("server"))
        # "sessions": n = the same script n times; "session_events": [events, events, ...] = one script per session -
        # always on the SAME client / transport object
        scripts = case.get("session_events") or [case["events"]] * int(opts.get("sessions", 1))
        obs_all = []
        sopts = case.get("session_opts") or [{}] * len(scripts)  # per-session additions to "opts" (how this session's consumer behaves)
        for ev, so in zip(scripts, sopts):
            if opts.get("api") in ("function", "with_initialize") and obs_all:
                cm, get = _open_client(mod, opts["api"], case.get("server"))  # a generator-based context manager is single-use
            obs_all.append(await _reader_session(mod, holder, dict(case, events=ev, opts=dict(opts, **so)), cm, get))
        entered = True
    except (Exception, _Cancelled()) as ex:  # noqa (a crashed task of the client cancels the host task too)
        return {"harness_error": type(ex).__name__, "entered": entered}
    o = obs_all[-1]
    if len(obs_all) > 1:
        o["earlier"] = obs_all[:-1]
    return o


async def _send_items(client, write, items, build):
    """put the items on the write stream: each object is built once and sent `repeat` times, through the
    write stream or (via = send_json) the legacy `client.send_json`"""
    for it in items:
        obj = build(it)
        for _ in range(int(it.get("repeat", 1))):
            if it.get("via") == "send_json" and client is not None:
                await client.send_json(obj)
            else:
                await write.send(obj)


async def _writer_case(mod, holder, case, build):
    """case: {"items": [...]}; `build(item)` -> the object put on the write stream.
    Observation: the bytes the child received and whether / when its stdin was closed.
    "prior": [case, ...] = earlier connections on the SAME client / transport object (each with its own child, items and
    ending); their observations come back under "earlier"."""
    specs = list(case.get("prior", [])) + [case]
    api = case.get("api", "client")
    obs_all = []
    try:
        cm, get = _open_client(mod, api, case.get("server"))
        for k, spec in enumerate(specs):
            if k and api in ("function", "with_initialize"):
                cm, get = _open_client(mod, api, case.get("server"))  # a generator-based context manager is single-use
            obs_all.append(await _writer_session(mod, holder, spec, cm, get, build))
    except (Exception, _Cancelled()) as ex:  # noqa (a crashed task of the client cancels the host task too)
        return {"harness_error": type(ex).__name__, "connection": len(obs_all) + 1}
    o = obs_all[-1]
    if len(obs_all) > 1:
        o["earlier"] = obs_all[:-1]
    return o


async def _writer_session(mod, holder, case, cm, get, build):
    import anyio

    proc = FakeProcess([])
    # keep stdout open for the whole case: the reader just waits
    never = anyio.Event()

    async def _wait_forever():
        await never.wait()
        return None

    proc.stdout._next = _wait_forever  # type: ignore[method-assign]
    holder["proc"] = proc
    async with cm as entered:
        client, _read, write = await get(entered)
        proc.client = client
        proc.stdin.aclose_raises = bool(case.get("aclose_raises"))
        proc.stdin.fail_sends = set(case.get("fail_sends", []))
        proc.stdin.breaks_at = case.get("breaks_at")
        await _send_items(client, write, case["items"], build)
        await anyio.sleep(1.0)
        before_close = {"closed": proc.stdin.closed, "n": len(proc.stdin.sends)}
        late = None
        if case.get("late_send_json") and client is not None:
            # the writer task is gone (its end of the outgoing stream closed): the legacy send_json must not raise
            client._outgoing_recv.close()
            try:
                await client.send_json(build(case["late_send_json"]))
                late = "returned"
            except Exception as ex:  # noqa
                late = "raised:" + type(ex).__name__
        if case.get("close", True):
            await write.aclose()
            await anyio.sleep(1.0)
        after = {"closed": proc.stdin.closed, "sends_at_close": proc.stdin.sends_at_close}
        sends = list(proc.stdin.sends)
    return {"bytes": b"".join(sends).hex(), "sends": len(sends), "before_close": before_close, "after_close": after, "late": late,
            "failed_sends": list(proc.stdin.failed)}


async def _duplex_case(mod, holder, case, build):
    """Both directions at once.  case: {"set": version (optional), "items": [outbound specs],
    "drain": bytes the child takes from stdin per scheduling step (0 = at once),
    "stdout": [{"sleep": steps} | {"c": hex}], "close": bool}.
    Observation: the `send()`s the child's stdin received, in order, and the close flag."""
    import anyio

    import asyncio

    script = []
    for e in case.get("stdout", []):
        if "c" in e:
            script.append(("chunk", bytes.fromhex(e["c"])))
        elif "sleep" in e:
            script.append(("sleep", e["sleep"]))
        elif "at" in e:
            script.append(("at", int(e["at"])))
    loop = asyncio.get_running_loop()
    frac = (loop.time() * vloop.TICKS_PER_S) % 1.0
    if frac:
        await anyio.sleep((1.0 - frac) / vloop.TICKS_PER_S)  # start on a tick, so that step k of the case is a loop tick
    proc = FakeProcess(script)
    proc.t0 = round(loop.time() * vloop.TICKS_PER_S)
    proc.stdin.drain_bytes = int(case.get("drain", 0))
    if case.get("stall") is not None:
        proc.stdin.stall = float(case["stall"])
        proc.stdin.t_open = loop.time()
        proc.stdin.capacity = int(case.get("capacity", 131072))
    proc.stdin.fail_sends = set(case.get("fail_sends", []))
    proc.stdin.breaks_at = case.get("breaks_at")
    # after the script the child's stdout stays open (it is still running)
    never = anyio.Event()
    inner_next = proc.stdout._next

    async def _next_then_wait():
        c = await inner_next()
        if c is None and not case.get("stdout_eof"):  # stdout_eof: the child closes its stdout and keeps reading stdin
            await never.wait()
        return c

    proc.stdout._next = _next_then_wait  # type: ignore[method-assign]
    holder["proc"] = proc
    delivered = []
    try:
        cm, get = _open_client(mod, case.get("api", "client"), case.get("server"))
        async with cm as entered:
            client, read, write = await get(entered)
            proc.client = client
            if "set" in case:
                (cm if case.get("api") == "transport" else client).set_protocol_version(case["set"])

            async def consume():
                async for m in read:
                    delivered.append(m)
                    if case.get("echo") and getattr(m, "method", None) is not None and getattr(m, "id", None) is not None:
                        # re-entrancy through the streams: the consumer of the read stream answers on the write stream of the
                        # same connection while the reader is in the middle of a batch / a burst
                        await write.send({"jsonrpc": "2.0", "id": m.id, "result": {"echo": m.method}})

            async with anyio.create_task_group() as tg:
                tg.start_soon(consume)
                await _send_items(client, write, case["items"], build)
                await anyio.sleep(120.0 + 3 * float(case.get("stall") or 0))  # virtual: everything that can happen has happened
                before_close = {"closed": proc.stdin.closed, "n": len(proc.stdin.sends)}
                if case.get("close", True):
                    await write.aclose()
                    await anyio.sleep(60.0)
                after = {"closed": proc.stdin.closed, "sends_at_close": proc.stdin.sends_at_close}
                sends = list(proc.stdin.sends)
                tg.cancel_scope.cancel()
    except (Exception, _Cancelled()) as ex:  # noqa (a crashed task of the client cancels the host task too)
        return {"harness_error": type(ex).__name__}
    return {"sends": sends, "before_close": before_close, "after_close": after, "delivered": len(delivered),
            "failed_sends": list(proc.stdin.failed)}


def debug_logging(formatting=False):
    """a host that configured logging at DEBUG (every `logger.debug(...)` / `isEnabledFor(DEBUG)` branch live).
    Records go to a NullHandler, or (`formatting`) to a handler that FORMATS every record the way a host's
    list / memory handler does (`emit` calls `self.format(record)`: `%`-style arguments are applied, `__str__` /
    `__repr__` of the arguments run, and a failure propagates to the logging call).  Returns the restore function."""
    import logging

    class _Formatting(logging.Handler):
        def emit(self, record):
            self.format(record)

    root = logging.getLogger()
    prev_disable, prev_level, prev_handlers = root.manager.disable, root.level, list(root.handlers)
    h = _Formatting() if formatting else logging.NullHandler()
    if formatting:
        h.setFormatter(logging.Formatter("%(asctime)s %(name)s %(levelname)s %(message)s"))
    root.handlers[:] = [h]
    root.setLevel(logging.DEBUG)
    logging.disable(logging.NOTSET)

    def restore():
        logging.disable(prev_disable)
        root.setLevel(prev_level)
        root.handlers[:] = prev_handlers
    return restore


def run_prelude(names):
    """Earlier, unrelated use of the same process (HARDEN2 class B): calls that must leave nothing behind."""
    import io

    from chuk_mcp.protocol import fast_json

    v = {"b": [1, {"z": None, "a": "\u00e9"}], "a": {"k": "v"}}
    for n in names:
        try:
            if n == "dumps-indent":
                fast_json.dumps(v, indent=2)
            elif n == "dumps-sort_keys":
                fast_json.dumps(v, sort_keys=True)
            elif n == "dumps-all":
                fast_json.dumps(v, indent=4, sort_keys=True, ensure_ascii=False, separators=(",", ": "), default=str)
            elif n == "dumps-default":
                fast_json.dumps({"o": object()}, default=str)
            elif n == "dumps-fails":
                fast_json.dumps({"o": object()})
            elif n == "dump-indent":
                fast_json.dump(v, io.BytesIO(), indent=2)
            elif n == "dump-sort_keys":
                fast_json.dump(v, io.BytesIO(), sort_keys=True)
            elif n == "loads":
                fast_json.loads('{"a": [1, 2, {"b": null}]}')
                fast_json.loads("not json")
            elif n == "server-format":  # the server side of the same process pretty-prints dict tool results
                from chuk_mcp.server.server import MCPServer

                srv = MCPServer("verif")
                srv._format_content({"a": 1, "b": [1, 2]})
            elif n == "batch-selftest":
                import contextlib

                from chuk_mcp.protocol.features import batching
                with contextlib.redirect_stdout(io.StringIO()):
                    batching.test_version_batching_scenarios()
        except Exception:  # noqa: a failing earlier call is part of the scenario
            pass


async def _wrapped(fn, case):
    """one case with its process-level conditions: DEBUG logging, an earlier use of the process"""
    restore = debug_logging(case.get("debug") == "format") if case.get("debug") else None
    try:
        if case.get("prelude"):
            run_prelude(case["prelude"])
        return await fn(case)
    finally:
        if restore is not None:
            restore()


async def _run_all(cases, fn):
    """cases in order; consecutive cases carrying the same truthy "conc" tag run CONCURRENTLY in one event loop
    (several live client objects, equal ids / keys on different connections)"""
    import anyio

    out = [None] * len(cases)
    i = 0
    while i < len(cases):
        tag = cases[i].get("conc")
        j = i + 1
        if tag:
            while j < len(cases) and cases[j].get("conc") == tag:
                j += 1
        if j - i == 1 and cases[i].get("with"):
            # self-contained concurrency: the case runs together with the sibling cases it carries; only its own
            # observation is kept (so a replay of this one case reproduces the situation)
            sib = list(cases[i]["with"])
            res = [None] * (1 + len(sib))
            restore = debug_logging(cases[i].get("debug") == "format") if cases[i].get("debug") else None
            try:
                async def one_w(k, c):
                    res[k] = await fn(c)
                async with anyio.create_task_group() as tg:
                    tg.start_soon(one_w, 0, {k: v for k, v in cases[i].items() if k != "with"})
                    for k, c in enumerate(sib):
                        tg.start_soon(one_w, k + 1, c)
            finally:
                if restore is not None:
                    restore()
            out[i] = res[0]
        elif j - i == 1:
            out[i] = await _wrapped(fn, cases[i])
        else:
            restore = debug_logging() if any(c.get("debug") for c in cases[i:j]) else None
            try:
                async def one(k):
                    out[k] = await fn(cases[k])
                async with anyio.create_task_group() as tg:
                    for k in range(i, j):
                        tg.start_soon(one, k)
            finally:
                if restore is not None:
                    restore()
        i = j
    return out


def _patched(mod, holder):
    import anyio

    async def fake_open_process(*a, **k):
        return holder["proc"]

    saved = [(anyio, "open_process", anyio.open_process)]
    anyio.open_process = fake_open_process
    if hasattr(mod, "open_process"):
        saved.append((mod, "open_process", mod.open_process))
        mod.open_process = fake_open_process
    return saved


def _restore(saved):
    for obj, name, val in saved:
        setattr(obj, name, val)


def run_reader_cases(cases):
    from . import stdio_cov

    stdio_cov.start()
    mod = stdio_module()
    holder = {}

    async def main():
        return await _run_all(cases, lambda c: _reader_case(mod, holder, c))

    saved = _patched(mod, holder)
    try:
        return vloop.run(main)
    finally:
        _restore(saved)


def run_guard_cases(cases):
    """entry guards of StdioClient / StdioTransport: what raises before / after the object was entered"""
    import types

    mod = stdio_module()
    holder = {}
    from chuk_mcp.transports.stdio.parameters import StdioParameters

    def outcome(f):
        try:
            f()
            return "ok"
        except (ValueError, RuntimeError) as ex:
            return type(ex).__name__
        except Exception as ex:  # noqa
            return "other:" + type(ex).__name__

    async def one(case):
        import anyio

        if case["guard"] == "ctor":
            server = types.SimpleNamespace(command="verif-fake-child" if case["command"] else case.get("falsy", ""),
                                           args=(case.get("seq", ["a"]) if case["args"] else case.get("nonseq", "notalist")), env=None)
            return {"guard": outcome(lambda: mod.StdioClient(server))}
        proc = FakeProcess([])
        never = anyio.Event()

        async def _w():
            await never.wait()
        proc.stdout._next = _w  # type: ignore[method-assign]
        holder["proc"] = proc
        params = StdioParameters(command="verif-fake-child", args=[])
        if case["guard"] == "streams":
            obj = mod.StdioClient(params)
            for op in case["history"]:
                if op == "enter":
                    await obj.__aenter__()
                else:
                    await obj.__aexit__(None, None, None)
            res = {"guard": outcome(obj.get_streams)}
            try:
                await obj.send_json({"jsonrpc": "2.0", "method": "x"})
                res["send_json"] = "ok"
            except RuntimeError:
                res["send_json"] = "RuntimeError"
            except Exception as ex:  # noqa
                res["send_json"] = "other:" + type(ex).__name__
            if case["history"] and case["history"][-1] == "enter":
                await obj.__aexit__(None, None, None)
            return res
        tmod = __import__("chuk_mcp.transports.stdio.transport", fromlist=["StdioTransport"])
        t = tmod.StdioTransport(params)
        exits = []
        for op in case["history"]:
            if op == "enter":
                await t.__aenter__()
            else:
                exits.append(await t.__aexit__(None, None, None))
        try:
            await t.get_streams()
            g = "ok"
        except RuntimeError:
            g = "RuntimeError"
        except Exception as ex:  # noqa
            g = "other:" + type(ex).__name__
        sp = outcome(lambda: t.set_protocol_version("2025-06-18"))
        if case["history"] and case["history"][-1] == "enter":
            await t.__aexit__(None, None, None)
        return {"guard": g, "exit_returns": exits, "set_version": sp}

    async def main():
        return [await one(c) for c in cases]

    saved = _patched(mod, holder)
    try:
        return vloop.run(main)
    finally:
        _restore(saved)


class HostRuntimeError(RuntimeError):
    """a host application's own subclass of RuntimeError"""


class ServerError(Exception):
    """a caller's exception carrying a server's error reply (any text the server chose)"""


def exit_class(name):
    return {"Exception": Exception, "RuntimeError": RuntimeError, "ValueError": ValueError, "TypeError": TypeError, "OSError": OSError,
            "RecursionError": RecursionError, "NotImplementedError": NotImplementedError, "LookupError": LookupError,
            "AssertionError": AssertionError, "HostRuntimeError": HostRuntimeError, "ServerError": ServerError}[name]


def build_exc(spec):
    import asyncio

    k = spec["kind"]
    if k == "cancelled":
        return asyncio.CancelledError()
    if k == "group":
        members = [asyncio.CancelledError() if m.get("cancelled") else exit_class(m.get("cls", "Exception"))(m.get("msg", ""))
                   for m in spec["members"]]
        return BaseExceptionGroup(spec.get("msg", "group"), members)  # noqa: F821 (builtin since 3.11)
    return exit_class(spec.get("cls", "Exception"))(spec.get("msg", ""))


async def _exit_case(mod, holder, case):
    """the body of `async with stdio_client(...)` / `stdio_client_with_initialize(...)` raises; does it get out?"""
    import anyio

    proc = FakeProcess([("reply_init", case.get("version", "2025-03-26"))] if case["entry"] == "init" else [])
    never = anyio.Event()
    inner_next = proc.stdout._next

    async def _next_then_wait():
        c = await inner_next()
        if c is None:
            await never.wait()
        return c

    proc.stdout._next = _next_then_wait  # type: ignore[method-assign]
    holder["proc"] = proc
    entered = False
    try:
        cm, _ = _open_client(mod, "with_initialize" if case["entry"] == "init" else "function", case.get("server"))
        async with cm:
            entered = True
            raise build_exc(case["exc"])
    except BaseException as ex:  # noqa
        if not entered:
            return {"harness_error": type(ex).__name__}
        return {"propagated": True, "type": type(ex).__name__, "terminated": proc.terminated}
    return {"propagated": False, "type": None, "terminated": proc.terminated}


def run_exit_cases(cases):
    from . import stdio_cov

    stdio_cov.start()
    mod = stdio_module()
    holder = {}

    async def main():
        return [await _wrapped(lambda c: _exit_case(mod, holder, c), c) for c in cases]

    saved = _patched(mod, holder)
    try:
        return vloop.run(main)
    finally:
        _restore(saved)


def run_duplex_cases(cases, build):
    """cases may name the tie order of the virtual loop ("tie": "events" | "timers" | "io"): what happens
    first when a scripted arrival and a timer of the code fall on the same instant"""
    from . import stdio_cov

    stdio_cov.start()
    mod = stdio_module()
    holder = {}
    out = [None] * len(cases)
    saved = _patched(mod, holder)
    try:
        for tie in ("events", "timers", "io"):
            idx = [i for i, c in enumerate(cases) if c.get("tie", "events") == tie]
            if not idx:
                continue

            async def main(idx=idx):
                res = []
                for i in idx:
                    res.append(await _wrapped(lambda c: _duplex_case(mod, holder, c, build), cases[i]))
                return res

            for i, r in zip(idx, vloop.run(main, tie=tie)):
                out[i] = r
        return out
    finally:
        _restore(saved)


def run_writer_cases(cases, build):
    from . import stdio_cov

    stdio_cov.start()
    mod = stdio_module()
    holder = {}

    async def main():
        return await _run_all(cases, lambda c: _writer_case(mod, holder, c, build))

    saved = _patched(mod, holder)
    try:
        return vloop.run(main)
    finally:
        _restore(saved)
