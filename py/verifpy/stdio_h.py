"""Harness for the stdio transport (C05, C06, C13): drives the REAL `StdioClient` through the
`anyio.open_process` seam with a scripted fake child.

* the fake child's stdout yields the scripted chunks one by one (a scripted `set` entry calls
  `client.set_protocol_version` while the reader is between two reads);
* its stdin records every `send()` and the `aclose()`;
* everything runs under the virtual-time loop, so "wait until the reader/writer has nothing left
  to do" is a virtual `sleep` that costs no wall-clock time and also terminates when the reader
  task has died.

Observations are canonical JSON-able values; no log text, no exception wording.
"""
from __future__ import annotations

import sys

from . import vloop

MODNAME = "chuk_mcp.transports.stdio.stdio_client"


def stdio_module():
    import importlib

    importlib.import_module(MODNAME)
    return sys.modules[MODNAME]


STEP = 1.0 / 1024  # one scheduling step of the slow pipe, in virtual seconds


class FakeStdin:
    """The child's stdin as the client sees it (anyio's process stdin: `write()` appends the bytes
    to the pipe/transport buffer as a unit, then `drain()` may suspend the caller).

    `drain_bytes` = 0: the child reads at once (`send` only yields to the loop).
    `drain_bytes` = N: the child is slow: it takes N bytes per scheduling step, so a `send()` of S
    bytes suspends its caller for ceil(S/N) steps of virtual time AFTER its bytes were appended -
    other tasks (the stdout reader) run and may write to the same pipe meanwhile."""

    def __init__(self, drain_bytes: int = 0):
        self.sends: list[bytes] = []
        self.closed = False
        self.sends_at_close = None
        self.drain_bytes = drain_bytes

    async def send(self, data):
        import anyio

        if self.closed:
            raise anyio.ClosedResourceError
        data = bytes(data)
        self.sends.append(data)
        if self.drain_bytes:
            await anyio.sleep(-(-len(data) // self.drain_bytes) * STEP)
        else:
            await anyio.lowlevel.checkpoint()

    async def aclose(self):
        if not self.closed:
            self.closed = True
            self.sends_at_close = len(self.sends)


class FakeStdout:
    """async-iterable byte stream yielding the scripted reads"""

    def __init__(self, proc, script):
        self.proc = proc
        self.script = list(script)
        self.i = 0

    def __aiter__(self):
        return self

    async def _next(self):
        import anyio

        await anyio.lowlevel.checkpoint()
        while self.i < len(self.script):
            kind, val = self.script[self.i]
            self.i += 1
            if kind == "chunk":
                return val
            if kind == "set":
                self.proc.client.set_protocol_version(val)
            if kind == "sleep":  # the child is busy for `val` scheduling steps before its next output
                await anyio.sleep(val * STEP)
        self.proc.eof = True
        return None

    async def __anext__(self):
        c = await self._next()
        if c is None:
            raise StopAsyncIteration
        return c

    async def receive(self, max_bytes: int = 65536):
        import anyio

        c = await self._next()
        if c is None:
            raise anyio.EndOfStream
        return c

    async def aclose(self):
        return None


class FakeProcess:
    def __init__(self, script):
        self.pid = 424242
        self.returncode = None
        self.stdin = FakeStdin()
        self.stdout = FakeStdout(self, script)
        self.stderr = None
        self.client = None
        self.eof = False
        self.terminated = False

    def terminate(self):
        self.terminated = True
        if self.returncode is None:
            self.returncode = -15

    def kill(self):
        if self.returncode is None:
            self.returncode = -9

    def send_signal(self, sig):
        self.terminate()

    async def wait(self):
        if self.returncode is None:
            self.returncode = 0
        return self.returncode

    async def aclose(self):
        return None


def dump_msg(m):
    """canonical value of something found on the read / notification stream"""
    if isinstance(m, list):
        return [dump_msg(x) for x in m]
    if hasattr(m, "model_dump"):
        try:
            return m.model_dump(exclude_none=True)
        except Exception:  # noqa
            return {"$undumpable": type(m).__name__}
    if isinstance(m, (dict, str, int, float, bool)) or m is None:
        return m
    return {"$object": type(m).__name__}


_PARSE_CACHE: dict = {}


def parse_line(text: str):
    """cached `parse_line_uncached` (the verdict is a pure function of the text within one run)"""
    r = _PARSE_CACHE.get(text)
    if r is None:
        r = _PARSE_CACHE[text] = parse_line_uncached(text)
        if len(_PARSE_CACHE) > 200000:
            _PARSE_CACHE.clear()
    return r


def parse_line_uncached(text: str):
    """The library's own verdict on one whole line: ("junk",) | ("single", dump, is_notification)
    | ("batch", [None | (dump, is_notification)])."""
    from chuk_mcp.protocol import fast_json
    from chuk_mcp.protocol.messages.json_rpc_message import parse_message

    try:
        data = fast_json.loads(text)
    except Exception:  # noqa
        return ("junk",)
    if isinstance(data, list):
        items = []
        for it in data:
            try:
                m = parse_message(it)
                items.append((dump_msg(m), getattr(m, "id", None) is None))
            except Exception:  # noqa
                items.append(None)
        return ("batch", items)
    try:
        m = parse_message(data)
    except Exception:  # noqa
        return ("junk",)
    return ("single", dump_msg(m), getattr(m, "id", None) is None)


def _decode_writes(sends):
    """bytes written to the child's stdin -> list of {"json": value} | {"raw": hex}"""
    import json

    out = []
    for b in sends:
        try:
            t = b.decode("utf-8")
            if not t.endswith("\n") or "\n" in t[:-1]:
                raise ValueError
            out.append({"json": json.loads(t)})
        except Exception:  # noqa
            out.append({"raw": b.hex()})
    return out


async def _reader_case(mod, holder, case):
    """case: {"events": [{"c": hex} | {"v": version|None}], ...}"""
    import anyio

    script = []
    for e in case["events"]:
        if "c" in e:
            script.append(("chunk", bytes.fromhex(e["c"])))
        else:
            script.append(("set", e["v"]))
    proc = FakeProcess(script)
    holder["proc"] = proc
    from chuk_mcp.transports.stdio.parameters import StdioParameters

    client = mod.StdioClient(StdioParameters(command="verif-fake-child", args=[]))
    proc.client = client
    delivered, notified = [], []
    entered = False
    eof = False
    try:
        async with client:
            entered = True
            read, _write = client.get_streams()

            async def consume():
                async for m in read:
                    delivered.append(m)

            async with anyio.create_task_group() as tg:
                tg.start_soon(consume)
                await anyio.sleep(1.0)  # virtual: returns once every other task is blocked or done
                try:
                    while True:
                        notified.append(client.notifications.receive_nowait())
                except (anyio.WouldBlock, anyio.EndOfStream, anyio.ClosedResourceError):
                    pass
                eof = proc.eof  # before the client's own shutdown (which may drain the pipe)
                tg.cancel_scope.cancel()
    except Exception as ex:  # noqa
        return {"harness_error": type(ex).__name__, "entered": entered}
    return {
        "delivered": [dump_msg(m) for m in delivered],
        "notified": [dump_msg(m) for m in notified],
        "writes": _decode_writes(proc.stdin.sends),
        "eof": eof,
    }


async def _writer_case(mod, holder, case, build):
    """case: {"items": [...]}; `build(item)` -> the object put on the write stream.
    Observation: the bytes the child received and whether / when its stdin was closed."""
    import anyio

    proc = FakeProcess([])
    # keep stdout open for the whole case: the reader just waits
    never = anyio.Event()

    async def _wait_forever():
        await never.wait()
        return None

    proc.stdout._next = _wait_forever  # type: ignore[method-assign]
    holder["proc"] = proc
    from chuk_mcp.transports.stdio.parameters import StdioParameters

    client = mod.StdioClient(StdioParameters(command="verif-fake-child", args=[]))
    proc.client = client
    try:
        async with client:
            _read, write = client.get_streams()
            for it in case["items"]:
                await write.send(build(it))
            await anyio.sleep(1.0)
            before_close = {"closed": proc.stdin.closed, "n": len(proc.stdin.sends)}
            if case.get("close", True):
                await write.aclose()
                await anyio.sleep(1.0)
            after = {"closed": proc.stdin.closed, "sends_at_close": proc.stdin.sends_at_close}
            sends = list(proc.stdin.sends)
    except Exception as ex:  # noqa
        return {"harness_error": type(ex).__name__}
    return {"bytes": b"".join(sends).hex(), "sends": len(sends), "before_close": before_close, "after_close": after}


async def _duplex_case(mod, holder, case, build):
    """Both directions at once.  case: {"set": version (optional), "items": [outbound specs],
    "drain": bytes the child takes from stdin per scheduling step (0 = at once),
    "stdout": [{"sleep": steps} | {"c": hex}], "close": bool}.
    Observation: the `send()`s the child's stdin received, in order, and the close flag."""
    import anyio

    script = []
    for e in case.get("stdout", []):
        if "c" in e:
            script.append(("chunk", bytes.fromhex(e["c"])))
        elif "sleep" in e:
            script.append(("sleep", e["sleep"]))
    proc = FakeProcess(script)
    proc.stdin.drain_bytes = int(case.get("drain", 0))
    # after the script the child's stdout stays open (it is still running)
    never = anyio.Event()
    inner_next = proc.stdout._next

    async def _next_then_wait():
        c = await inner_next()
        if c is None:
            await never.wait()
        return c

    proc.stdout._next = _next_then_wait  # type: ignore[method-assign]
    holder["proc"] = proc
    from chuk_mcp.transports.stdio.parameters import StdioParameters

    client = mod.StdioClient(StdioParameters(command="verif-fake-child", args=[]))
    proc.client = client
    delivered = []
    try:
        async with client:
            if "set" in case:
                client.set_protocol_version(case["set"])
            read, write = client.get_streams()

            async def consume():
                async for m in read:
                    delivered.append(m)

            async with anyio.create_task_group() as tg:
                tg.start_soon(consume)
                for it in case["items"]:
                    await write.send(build(it))
                await anyio.sleep(120.0)  # virtual: everything that can happen has happened
                before_close = {"closed": proc.stdin.closed, "n": len(proc.stdin.sends)}
                if case.get("close", True):
                    await write.aclose()
                    await anyio.sleep(60.0)
                after = {"closed": proc.stdin.closed, "sends_at_close": proc.stdin.sends_at_close}
                sends = list(proc.stdin.sends)
                tg.cancel_scope.cancel()
    except Exception as ex:  # noqa
        return {"harness_error": type(ex).__name__}
    return {"sends": sends, "before_close": before_close, "after_close": after, "delivered": len(delivered)}


def _patched(mod, holder):
    import anyio

    async def fake_open_process(*a, **k):
        return holder["proc"]

    saved = [(anyio, "open_process", anyio.open_process)]
    anyio.open_process = fake_open_process
    if hasattr(mod, "open_process"):
        saved.append((mod, "open_process", mod.open_process))
        mod.open_process = fake_open_process
    return saved


def _restore(saved):
    for obj, name, val in saved:
        setattr(obj, name, val)


def run_reader_cases(cases):
    mod = stdio_module()
    holder = {}

    async def main():
        out = []
        for c in cases:
            out.append(await _reader_case(mod, holder, c))
        return out

    saved = _patched(mod, holder)
    try:
        return vloop.run(main)
    finally:
        _restore(saved)


def run_duplex_cases(cases, build):
    mod = stdio_module()
    holder = {}

    async def main():
        out = []
        for c in cases:
            out.append(await _duplex_case(mod, holder, c, build))
        return out

    saved = _patched(mod, holder)
    try:
        return vloop.run(main)
    finally:
        _restore(saved)


def run_writer_cases(cases, build):
    mod = stdio_module()
    holder = {}

    async def main():
        out = []
        for c in cases:
            out.append(await _writer_case(mod, holder, c, build))
        return out

    saved = _patched(mod, holder)
    try:
        return vloop.run(main)
    finally:
        _restore(saved)
