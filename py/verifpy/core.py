"""Shared machinery of every check: paths, build, audit, driver, bookkeeping, decision."""
from __future__ import annotations

import contextlib
import fcntl
import hashlib
import json
import os
import random
import re
import subprocess
import sys
import time
from collections import Counter
from pathlib import Path

ROOT = Path(__file__).resolve().parents[2]
REPO = Path(os.environ.get("VERIF_REPO", "/repo"))
LEAN = ROOT / "lean"
DRIVER = LEAN / ".lake" / "build" / "bin" / "verif-driver"
ALLOWED_AXIOMS = {"propext", "Classical.choice", "Quot.sound"}
GUARD = "CHUK_MCP_VERIF"

FORBIDDEN = re.compile(
    r"\bsorry\b|\badmit\b|^axiom\s|native_decide|bv_decide|implemented_by|\bunsafe\s|maxHeartbeats\s+0\b",
    re.M,
)


def canon(obj) -> str:
    return json.dumps(obj, sort_keys=True, ensure_ascii=True, separators=(",", ":"), default=str)


def sha(obj) -> str:
    return hashlib.sha1(canon(obj).encode()).hexdigest()[:16]


def use_repo_source():
    """Make `import chuk_mcp` resolve to the working tree under REPO."""
    p = str(REPO / "src")
    if p in sys.path:
        sys.path.remove(p)
    sys.path.insert(0, p)
    os.environ.setdefault(GUARD, "1")


@contextlib.contextmanager
def lean_lock():
    lock = LEAN / ".lake" / "verif.lock"
    lock.parent.mkdir(parents=True, exist_ok=True)
    with open(lock, "w") as fh:
        fcntl.flock(fh, fcntl.LOCK_EX)
        try:
            yield
        finally:
            fcntl.flock(fh, fcntl.LOCK_UN)


def strip_comments(src: str) -> str:
    """Remove Lean block and line comments (nesting-aware for /- -/)."""
    out = []
    i, n, depth = 0, len(src), 0
    in_str = False
    while i < n:
        c = src[i]
        if depth == 0 and not in_str and c == '"':
            in_str = True
            out.append(c)
            i += 1
            continue
        if in_str:
            out.append(c)
            if c == "\\" and i + 1 < n:
                out.append(src[i + 1])
                i += 2
                continue
            if c == '"':
                in_str = False
            i += 1
            continue
        if src.startswith("/-", i):
            depth += 1
            i += 2
            continue
        if depth > 0 and src.startswith("-/", i):
            depth -= 1
            i += 2
            continue
        if depth > 0:
            if c == "\n":
                out.append(c)
            i += 1
            continue
        if src.startswith("--", i):
            while i < n and src[i] != "\n":
                i += 1
            continue
        out.append(c)
        i += 1
    return "".join(out)


def lean_imports_closure(module: str) -> list[Path]:
    """Files of the Verif library reachable from `module` (textual import scan)."""
    seen, todo, files = set(), [module], []
    while todo:
        m = todo.pop()
        if m in seen or not m.startswith("Verif"):
            continue
        seen.add(m)
        p = LEAN / (m.replace(".", "/") + ".lean")
        if not p.exists():
            continue
        files.append(p)
        for line in p.read_text().splitlines():
            mm = re.match(r"\s*(?:public\s+)?import\s+([\w.]+)", line)
            if mm:
                todo.append(mm.group(1))
    return files


class Build:
    def __init__(self):
        self.ok = True
        self.driver_ok = True
        self.errors: list[dict] = []  # {"file","line","msg","theorem"}
        self.log = ""
        self.pre = None
        self.audit = {}


def lake_build(targets: list[str], timeout=1500) -> tuple[int, str]:
    p = subprocess.run(
        ["lake", "build", *targets], cwd=LEAN, capture_output=True, text=True, timeout=timeout
    )
    return p.returncode, p.stdout + p.stderr


def enclosing_decl(path: Path, line: int) -> str | None:
    try:
        lines = path.read_text().splitlines()
    except OSError:
        return None
    for i in range(min(line, len(lines)) - 1, -1, -1):
        m = re.match(r"\s*(?:@\[[^\]]*\]\s*)?(?:private\s+|protected\s+)?(theorem|lemma|def|example|instance|abbrev)\s+([\w.']+)?", lines[i])
        if m:
            return m.group(2) or m.group(1)
    return None


def build(prop_module: str, pre=None, audit_of=None, supp=None) -> Build:
    """`lake build` the property module and the driver; collect broken declarations.
    `pre()` (the translator) runs under the same lock, and the driver binary is copied to a
    private path before the lock is released, so concurrent checks against different
    repositories (VERIF_REPO) cannot see each other's generated files."""
    global DRIVER
    b = Build()
    with lean_lock():
        if pre is not None:
            b.pre = pre()
        subprocess.run([sys.executable, str(ROOT / "tools" / "gen_driver.py")], check=False)
        rc, log = lake_build([prop_module])
        rc2, log2 = lake_build(["verif-driver"])
        if rc2 == 0:
            import atexit, shutil
            priv = LEAN / ".lake" / "build" / "bin" / f"verif-driver.{os.getpid()}"
            try:
                shutil.copy2(LEAN / ".lake" / "build" / "bin" / "verif-driver", priv)
                DRIVER = priv
                atexit.register(lambda: priv.exists() and priv.unlink())
            except OSError:
                pass
        if rc == 0 and audit_of is not None:
            try:
                b.audit = audit(*audit_of)
            except Exception as ex:  # noqa
                b.audit = {t: {"ok": False, "axioms": None, "why": f"audit failed: {ex!r}"} for t in audit_of[1]}
        # supplementary module (theorems next to the property that its text does not state): built and
        # audited like the property module, but its failure is information, never a broken obligation
        b.supp = None
        if supp is not None:
            smod, sthms = supp
            rc3, log3 = lake_build([smod])
            b.supp = {"module": smod, "ok": rc3 == 0, "errors": [], "audit": {}}
            if rc3 == 0:
                try:
                    b.supp["audit"] = audit(audit_of[0] if audit_of else smod.rsplit(".", 1)[-1], sthms, module=smod, tag="Supp")
                except Exception as ex:  # noqa
                    b.supp["audit"] = {t: {"ok": False, "axioms": None, "why": f"audit failed: {ex!r}"} for t in sthms}
            else:
                for m in re.finditer(r"error: ([^\s:]+\.lean):(\d+):(\d+): (.*)", log3):
                    f = LEAN / m.group(1) if not m.group(1).startswith("/") else Path(m.group(1))
                    b.supp["errors"].append({"file": m.group(1), "line": int(m.group(2)), "msg": m.group(4)[:300],
                                             "decl": enclosing_decl(f, int(m.group(2)))})
                if not b.supp["errors"]:
                    b.supp["errors"].append({"file": "?", "line": 0, "msg": log3[-400:], "decl": None})
    b.log = log + log2
    if rc2 != 0:
        b.driver_ok = False
    if rc != 0:
        b.ok = False
        for m in re.finditer(r"error: ([^\s:]+\.lean):(\d+):(\d+): (.*)", log):
            f = LEAN / m.group(1) if not m.group(1).startswith("/") else Path(m.group(1))
            b.errors.append(
                {
                    "file": str(f.relative_to(LEAN)) if str(f).startswith(str(LEAN)) else str(f),
                    "line": int(m.group(2)),
                    "msg": m.group(4)[:300],
                    "decl": enclosing_decl(f, int(m.group(2))),
                }
            )
        if not b.errors:
            b.errors.append({"file": "?", "line": 0, "msg": log[-600:], "decl": None})
    return b


def audit(prop_id: str, theorems: list[str], module: str | None = None, tag: str = "") -> dict:
    """Axiom audit (`#print axioms`) of every property theorem + textual audit of the
    files the property module depends on.  Returns {theorem: {"ok":bool,"axioms":[...]}}"""
    mod = module or f"Verif.Props.{prop_id}"
    res = {t: {"ok": False, "axioms": None, "why": "not checked"} for t in theorems}
    adir = LEAN / ".lake" / "audit"
    adir.mkdir(parents=True, exist_ok=True)
    afile = adir / f"Audit{prop_id}{tag}.lean"
    body = [f"import {mod}", f"open Verif.Props.{prop_id}"]
    for t in theorems:
        body.append(f'#print axioms {t}')
    afile.write_text("\n".join(body) + "\n")
    p = subprocess.run(["lake", "env", "lean", str(afile)], cwd=LEAN, capture_output=True, text=True, timeout=900)
    out = p.stdout + p.stderr
    # parse: "'name' depends on axioms: [a, b]" | "'name' does not depend on any axioms"
    flat = re.sub(r"\s+", " ", out)
    for t in theorems:
        m = re.search(r"'(?:[\w.]*\.)?%s' depends on axioms: \[([^\]]*)\]" % re.escape(t), flat)
        if m:
            ax = [a.strip() for a in m.group(1).split(",") if a.strip()]
            bad = [a for a in ax if a not in ALLOWED_AXIOMS]
            res[t] = {"ok": not bad, "axioms": ax, "why": ("axioms outside the allowed set: %s" % bad) if bad else ""}
            continue
        m = re.search(r"'(?:[\w.]*\.)?%s' does not depend on any axioms" % re.escape(t), flat)
        if m:
            res[t] = {"ok": True, "axioms": [], "why": ""}
            continue
        res[t] = {"ok": False, "axioms": None, "why": "theorem not found in compiled module: " + out[-300:]}
    # textual audit
    hits = []
    for f in lean_imports_closure(mod):
        txt = strip_comments(f.read_text())
        for m in FORBIDDEN.finditer(txt):
            hits.append(f"{f.relative_to(LEAN)}: {m.group(0).strip()}")
    if hits:
        for t in theorems:
            res[t]["ok"] = False
            res[t]["why"] = "forbidden construct in dependency: " + "; ".join(hits[:5])
    return res


def run_driver(lines: list[dict], timeout=1200) -> list[dict]:
    """Pipe JSON cases through the compiled Lean model driver; one JSON object back per line."""
    if not lines:
        return []
    data = "\n".join(json.dumps(l, ensure_ascii=True, separators=(",", ":")) for l in lines) + "\n"
    p = subprocess.run([str(DRIVER)], input=data, capture_output=True, text=True, timeout=timeout)
    outs = p.stdout.split("\n")
    if outs and outs[-1] == "":
        outs.pop()
    if p.returncode != 0 or len(outs) != len(lines):
        raise RuntimeError(
            f"verif-driver failed rc={p.returncode} lines_in={len(lines)} lines_out={len(outs)} stderr={p.stderr[-400:]}"
        )
    return [json.loads(o) for o in outs]


class Ctx:
    """Bookkeeping handed to a property module's `run(ctx)`."""

    def __init__(self, prop_id: str, tier: str, seed: int):
        self.prop_id = prop_id
        self.tier = tier
        self.seed = seed
        self.rng = random.Random(f"{prop_id}:{seed}")
        self.evaluations = 0
        self.impl_runs = 0
        self._nontrivial: set[str] = set()
        self.dist: Counter = Counter()
        self.samples: list = []
        self._sample_kinds: set[str] = set()
        self.violations: list[dict] = []
        self.divergences: list[dict] = []
        self.notes: list[str] = []
        self.exhaustive_parts: list[str] = []
        self.model_available = True
        self.t0 = time.time()

    # -- accounting ------------------------------------------------------------------
    def count(self, case, kind: str, nontrivial: bool = True, impl: bool = True):
        """Record one evaluated case.  `kind` feeds the distribution table; the first case of
        each kind is kept as a sample."""
        self.evaluations += 1
        if impl:
            self.impl_runs += 1
        self.dist[kind] += 1
        if nontrivial:
            self._nontrivial.add(sha(case))
        if kind not in self._sample_kinds and len(self.samples) < 12:
            self._sample_kinds.add(kind)
            self.samples.append({"kind": kind, "case": case})

    @property
    def distinct_nontrivial(self):
        return len(self._nontrivial)

    def violation(self, key: str, what: str, input, observed=None, expected=None, suite: str = ""):
        self.violations.append(
            {"key": key, "what": what, "input": input, "observed": observed, "expected": expected, "suite": suite}
        )

    def divergence(self, suite: str, input, impl, model):
        self.divergences.append({"suite": suite, "input": input, "impl": impl, "model": model})

    def model(self, lines: list[dict]) -> list[dict] | None:
        if not self.model_available:
            return None
        return run_driver(lines)

    def sub_rng(self, *tag) -> random.Random:
        return random.Random(f"{self.prop_id}:{self.seed}:" + ":".join(map(str, tag)))

    def elapsed(self):
        return time.time() - self.t0


def load_known_findings() -> list[dict]:
    p = ROOT / "known_findings.json"
    if not p.exists():
        return []
    return json.loads(p.read_text())


def write_replay(prop_id: str, payload: dict) -> Path:
    d = ROOT / "replays"
    d.mkdir(exist_ok=True)
    path = d / f"{prop_id}-{sha(payload.get('input', payload))}.json"
    path.write_text(json.dumps(payload, indent=1, sort_keys=True, default=str, ensure_ascii=True) + "\n")
    return path


def write_evidence(prop_id: str, doc: dict):
    # evidence/ describes runs against /repo itself; runs against another copy of the
    # repository (VERIF_REPO, used for seeded changes) write to an ignored directory
    d = ROOT / "evidence" if str(REPO) == "/repo" else ROOT / "replays" / "evidence-other-repo"
    d.mkdir(parents=True, exist_ok=True)
    d.mkdir(exist_ok=True)
    (d / f"{prop_id}.json").write_text(json.dumps(doc, indent=1, sort_keys=True, default=str, ensure_ascii=True) + "\n")
