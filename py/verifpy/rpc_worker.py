"""Worker process for C02's thorough tier: runs `rpc_h.run_case` under another backend
configuration (MCP_FORCE_FALLBACK=1 and/or orjson blocked).  One JSON request per line:
  {"op":"info"} -> backend flags;  {"op":"run","cases":[…]} -> {"out":[observation…]}
  {"op":"discover"} -> {"names":[…], "undriven":[…]}"""
from __future__ import annotations

import json
import os
import sys


def main():
    if os.environ.get("VERIF_BLOCK_ORJSON") == "1":
        sys.modules["orjson"] = None
    import logging

    logging.disable(logging.CRITICAL)
    from verifpy import core, rpc_h

    core.use_repo_source()
    out = sys.stdout
    for line in sys.stdin:
        line = line.strip()
        if not line:
            continue
        req = json.loads(line)
        op = req.get("op")
        try:
            if op == "info":
                ans = rpc_h.backend_info()
            elif op == "run":
                ans = {"out": [rpc_h.run_case(c) for c in req["cases"]]}
            elif op == "discover":
                names = rpc_h.discover()
                D = rpc_h.drivers()
                ans = {"names": names, "undriven": [n for n in names if n not in D]}
            else:
                ans = {"error": f"unknown op {op}"}
        except Exception as ex:  # noqa: BLE001
            ans = {"error": repr(ex)[:500]}
        out.write(json.dumps(ans, ensure_ascii=True) + "\n")
        out.flush()


if __name__ == "__main__":
    main()
