"""C16 harness: the real stdio client context against REAL misbehaving child processes.

One scenario = (child behaviour, exit path, moment of exit, API).  The child is a small Python
script written into a fresh temp directory and launched through the real `stdio_client` /
`StdioTransport` / `StdioClient`.  Observed after the context has been left (nothing is patched):

* processes: any process whose command line names the scenario's temp directory (running), any
  new zombie whose parent is this process (unreaped)                       -- /proc scan
* wall-clock duration from the moment the exit begins until the context has been left
* `len(os.listdir('/proc/self/fd'))` before entering vs. after leaving
* the outcome of every awaited request (returned payload / timeout / error / cancelled)

Wall-clock only enters the verdict through one generous bound (two one-second grace periods +
3 s slack); process state and descriptors are given a short settling window (the event loop
needs a few iterations to collect pipe transports after the child's death).
"""
from __future__ import annotations

import contextlib
import json
import os
import shutil
import signal
import sys
import tempfile
import time

GRACE_MS = 2000          # the two one-second grace periods of the property text
SLACK_MS = 3000          # scheduling slack: generous, a loaded machine must never cause a false alarm
SETTLE_S = 1.5           # how long process state / descriptors may take to settle after the exit
READY_TIMEOUT_S = 8.0
ANSWER_TIMEOUT_S = 8.0   # requests the child is expected to answer
SILENT_TIMEOUT_S = 0.4   # requests nobody will answer
SCENARIO_TIMEOUT_S = 40.0
FLOOD_SOAK_S = 0.4
EOF_SOAK_S = 0.25

BEHAVIOURS = ["well", "exit_at", "ignore_term", "never_reads", "stops_reading", "flood", "close_stdout", "close_stdin",
              "slow_start"]
PATHS = ["normal", "exception", "cancel", "timeout"]
MOMENTS = ["before", "inflight", "after"]   # plus "entry": cancellation while the context is being entered
BACKLOG_BYTES = 16000    # size of one queued outgoing notification (`backlog` of them are queued just before the exit)
HANG_AFTER_MS = GRACE_MS + SLACK_MS + 500   # an exit still running then is released by killing the child and reported
APIS = ["stdio_client", "StdioTransport", "StdioClient"]
# further ways into and out of the context: the wrapper that performs the handshake on entry; entering and leaving by
# hand, the exit in ANOTHER task under a timeout (what server_manager.run_command does)
MORE_APIS = ["with_initialize", "manual"]
FALSY_RESULTS = [{}, 0, "", [], False]
EXC_TEXTS = {"plain": "exception in body", "empty": "", "cancel-scope": "Attempted to exit a cancel scope that isn't current",
             "json": "the JSON object must be str, bytes or bytearray, not dict", "hostile": "%s %d {0} {} \r\n\u2028 '\"\\",
             "long": "x" * 100_000}
HANDSHAKE_SILENT_S = 0.6

CHILD = r'''
import sys, os, json, time, signal
spec = json.loads(sys.argv[1])
kind = spec["kind"]
k = spec.get("k", -1)
step = 0
def maybe_exit():
    if kind == "exit_at" and step >= k:
        os._exit(spec.get("code", 0))
def out(obj):
    sys.stdout.buffer.write(json.dumps(obj).encode() + b"\n")
    sys.stdout.buffer.flush()
FALSY = [{}, 0, "", [], False]
def raw(b):
    sys.stdout.buffer.write(b)
    sys.stdout.buffer.flush()
maybe_exit()                                   # step 0: before anything else
if kind == "slow_start":
    time.sleep(spec.get("delay", 0.7))
if kind == "ignore_term":
    signal.signal(signal.SIGTERM, signal.SIG_IGN)
if spec.get("on_term") is not None:            # a clean SIGTERM handler: ends with THIS exit status (0 is "success")
    signal.signal(signal.SIGTERM, lambda *a: os._exit(spec["on_term"]))
if spec.get("self_exit") is not None and kind in ("flood", "never_reads", "close_stdin"):
    # ends by itself, with this exit status, when it is TOLD to (a "die" line on stdin) - children that do not read
    # their stdin in the main loop watch it from a thread
    import threading
    def watch():
        for line in iter(sys.stdin.buffer.readline, b""):
            if b'"die"' in line:
                os._exit(spec["self_exit"])
    threading.Thread(target=watch, daemon=True).start()
if "term_delay" in spec:                       # reacts to SIGTERM, but only after a while
    def on_term(*a):
        time.sleep(spec["term_delay"])
        os._exit(0)
    signal.signal(signal.SIGTERM, on_term)
if spec.get("stderr"):
    sys.stderr.write("child says %s {0} on stderr\n" * 50)
    sys.stderr.flush()
if spec.get("stderr_flood") == "always":       # a diagnostic stream nobody may be reading, all the time
    import threading
    def spew():
        while True:
            os.write(2, b"stderr noise %s {0}\n" * 3000)
    threading.Thread(target=spew, daemon=True).start()
if spec.get("stderr_flood") == "on_term":      # a long shutdown report on stderr, then a clean exit
    def report(*a):
        for _ in range(8):
            os.write(2, b"shutdown report line\n" * 3200)      # 8 x ~64 KiB
        os._exit(spec.get("on_term") or 0)
    signal.signal(signal.SIGTERM, report)
if spec.get("chatty"):                         # lines that carry nothing, and an answer nobody asked for
    raw(b"\n\n   \n# not json\n[]\n{}\nnull\n\xe2\x80\xa8\n%s %d {0}\r\n")
    out({"jsonrpc": "2.0", "id": "nobody", "result": {"echo": "unsolicited"}})
    out({"jsonrpc": "2.0", "id": 0, "error": {"code": -32000, "message": "unsolicited"}})
out({"jsonrpc": "2.0", "method": "notifications/ready"})
pre = spec.get("preamble")                     # what it writes right after that, before behaving as its kind says
if pre:
    time.sleep(0.3)                            # so that the readiness line is delivered on its own
if pre == "bad_utf8":
    raw(b'{"jsonrpc": "2.0", "method": "notifications/\xff\xfe\x80 latin-1 caf\xe9"}\n')
elif pre == "binary":
    raw(bytes(range(256)) * 64 + b"\n")
elif pre == "long_line":
    raw(b'{"jsonrpc": "2.0", "method": "notifications/big", "params": {"blob": "' + b"x" * 1_500_000 + b'"}}\n')
elif pre == "truncated_utf8":
    raw("caf\u00e9 \u65e5".encode()[:-1])     # ends inside a multi-byte character, no newline, then whatever follows
if kind == "never_reads":
    while True:
        time.sleep(3600)
if kind == "flood":
    one = {"jsonrpc": "2.0", "method": "notifications/message", "params": {"level": "info", "data": "x" * 200}}
    # `batch`: every line is a JSON-RPC batch (an array) - a client whose negotiated version has no batching answers
    # each of them with an error ON OUR STDIN, which we never read
    line = (json.dumps([one, one] if spec.get("batch") else one) + "\n").encode()
    junk = b"this is not json %s {0}\r\n\xe2\x80\xa8\n\n{\"jsonrpc\": \"2.0\"\n"
    n = 0
    while True:
        sys.stdout.buffer.write(line * 50 + (junk if spec.get("junk") else b""))
        sys.stdout.buffer.flush()
        n += 1
if kind == "close_stdin":
    os.close(0)
    while True:
        time.sleep(3600)
linger = spec.get("linger", "eof")              # close_stdout: what it does after hanging up its stdout
close_after = spec.get("close_after", 0)       # ... and after how many answers it does so
answered = 0
def hang_up():
    sys.stdout.buffer.flush()
    os.close(1)                                # the client sees EOF on our stdout; we stay alive
    if linger == "stubborn":
        signal.signal(signal.SIGTERM, signal.SIG_IGN)
    if linger in ("sleep", "stubborn"):        # does not look at its stdin any more
        while True:
            time.sleep(3600)
if kind == "close_stdout" and close_after == 0:
    hang_up()
closed = kind == "close_stdout" and close_after == 0
while True:
    line = sys.stdin.buffer.readline()
    if not line:
        break
    try:
        m = json.loads(line)
    except Exception:
        continue
    if isinstance(m, dict) and m.get("method") == "die" and spec.get("self_exit") is not None:
        os._exit(spec["self_exit"])            # told to end by itself, with this exit status
    if not isinstance(m, dict) or "id" not in m or "method" not in m:
        continue
    if m["method"] != "initialize":
        step += 1                              # odd step: a request has been read
        maybe_exit()
    if m["method"] == "hold" or closed:
        continue                               # never answered
    if m["method"] == "initialize" and spec.get("init_reply"):
        # it ANSWERS the handshake, but not with what a client can accept; then it goes on as its kind says
        r_ = spec["init_reply"]
        if r_ == "error":
            out({"jsonrpc": "2.0", "id": m["id"], "error": {"code": -32603, "message": "initialization failed %s {0}"}})
        elif r_ == "bad_version":
            out({"jsonrpc": "2.0", "id": m["id"], "result": {"protocolVersion": "1999-01-01", "capabilities": {},
                                                            "serverInfo": {"name": "child", "version": "1"}}})
        else:
            out({"jsonrpc": "2.0", "id": m["id"], "result": {"capabilities": 7}})
        continue
    if m["method"] == "initialize" and spec.get("die_on_initialize"):
        os._exit(spec.get("code", 0))          # dies with the handshake in flight
    if m["method"] == "initialize" and spec.get("mute_on_initialize"):
        while True:                            # goes mute with the handshake in flight
            time.sleep(3600)
    if m["method"] == "initialize":
        res = {"protocolVersion": (m.get("params") or {}).get("protocolVersion", "2025-06-18"), "capabilities": {},
               "serverInfo": {"name": "child", "version": "1"}}
    elif "falsy_result" in spec:
        res = FALSY[spec["falsy_result"]]
    else:
        res = {"echo": (m.get("params") or {}).get("x")}
    out({"jsonrpc": "2.0", "id": m["id"], "result": res})
    if spec.get("chatty"):                     # says everything twice
        out({"jsonrpc": "2.0", "id": m["id"], "result": res})
        raw(b"\n")
    if m["method"] == "initialize":
        continue                               # the handshake is not a step of the conversation
    step += 1                                  # even step: it has been answered
    maybe_exit()
    answered += 1
    if kind == "close_stdout" and answered == close_after:
        closed = True
        hang_up()
    if kind == "stops_reading":                # one answer, then it never touches its stdin again
        while True:
            time.sleep(3600)
if kind == "ignore_term" or (kind == "close_stdout" and linger == "reads"):   # stdin EOF does not end it either
    while True:
        time.sleep(3600)
'''


def answers(case, j):
    """does the child answer the j-th (1-based) `echo` request of the conversation?"""
    b = case["behaviour"]
    if b in ("well", "ignore_term", "slow_start"):
        return True
    if b == "exit_at":
        return case.get("k", 0) >= 2 * j
    if b == "stops_reading":
        return j == 1
    if b == "close_stdout":
        return j <= case.get("close_after", 0)
    return False


def waits_ready(case):
    b = case["behaviour"]
    if case.get("api") == "with_initialize":
        return False                           # the handshake has consumed the child's first lines
    if b == "slow_start":
        return case["moment"] != "before"      # "before": leave while the child is still starting
    if b == "exit_at":
        return case.get("k", 0) >= 1
    return True


# ------------------------------------------------------------------------------- /proc
def _stat(pid):
    try:
        with open(f"/proc/{pid}/stat", "rb") as f:
            s = f.read().decode("latin-1")
    except OSError:
        return None
    rp = s.rfind(")")
    rest = s[rp + 2:].split()
    return {"state": rest[0], "ppid": int(rest[1])}


def scan(tag, me):
    """-> (pids whose cmdline mentions `tag` and are not zombies, zombie pids whose parent is me)"""
    running, zombies = [], []
    tagb = tag.encode()
    for name in os.listdir("/proc"):
        if not name.isdigit():
            continue
        pid = int(name)
        if pid == me:
            continue
        st = _stat(pid)
        if st is None:
            continue
        if st["state"] == "Z":
            if st["ppid"] == me:
                zombies.append(pid)
            continue
        try:
            with open(f"/proc/{pid}/cmdline", "rb") as f:
                cl = f.read()
        except OSError:
            continue
        if tagb in cl:
            running.append(pid)
    return running, zombies


def nfds():
    return len(os.listdir("/proc/self/fd"))


def kill_tagged(tag):
    me = os.getpid()
    for _ in range(3):
        running, _z = scan(tag, me)
        if not running:
            return
        for pid in running:
            with contextlib.suppress(Exception):
                os.kill(pid, signal.SIGKILL)
        time.sleep(0.05)


# ------------------------------------------------------------------------------- scenario
class Boom(Exception):
    pass


class Unprintable(Exception):
    """an exception whose text cannot be produced (a remote error wrapper with a broken __str__)"""

    def __str__(self):
        raise RuntimeError("this exception has no text")


class Unreprable(Unprintable):
    def __repr__(self):
        raise RuntimeError("nor a repr")


EXC_CLASSES = ["unprintable", "unreprable", "ValueError", "KeyError", "OSError", "TimeoutError", "ConnectionResetError",
               "StopAsyncIteration", "ExceptionGroup", "ExceptionGroup-cancel-scope", "ExceptionGroup-unprintable",
               "BaseExceptionGroup", "str-subclass-args", "bytes-args"]


def make_exception(kind):
    """what the body of the context may raise: every class the wrappers look at, format or filter"""
    if kind == "unprintable":
        return Unprintable("x")
    if kind == "unreprable":
        return Unreprable("x")
    if kind == "OSError":
        return OSError(5, "I/O error %s {0}")
    if kind == "ExceptionGroup":
        return ExceptionGroup("several things", [ValueError("one"), KeyError("two")])
    if kind == "ExceptionGroup-cancel-scope":
        return ExceptionGroup("g", [RuntimeError("Attempted to exit a cancel scope that isn't the current one")])
    if kind == "ExceptionGroup-unprintable":
        return ExceptionGroup("g", [Unprintable("x")])
    if kind == "BaseExceptionGroup":
        return BaseExceptionGroup("g", [Unprintable("x"), ValueError("y")])
    if kind == "str-subclass-args":
        class S(str):
            def __str__(self):
                raise RuntimeError("no text")
        return ValueError(S("x"))
    if kind == "bytes-args":
        return ValueError(b"\xff\xfe", 0, None)
    return {"ValueError": ValueError, "KeyError": KeyError, "TimeoutError": TimeoutError,
            "ConnectionResetError": ConnectionResetError, "StopAsyncIteration": StopAsyncIteration}[kind]("body failed: %s %d {0}")


@contextlib.contextmanager
def host_logging(case):
    """`logging: "debug"`: the host has logging at DEBUG with a handler that FORMATS each record (see config_h)"""
    import logging

    if case.get("logging") != "debug":
        yield
        return
    from .config_h import FormattingHandler
    root = logging.getLogger()
    saved = (root.level, logging.root.manager.disable)
    h = FormattingHandler()
    h.setFormatter(logging.Formatter("%(asctime)s %(name)s %(levelname)s %(message)s"))
    logging.disable(logging.NOTSET)
    root.addHandler(h)
    root.setLevel(logging.DEBUG)
    try:
        yield
    finally:
        root.removeHandler(h)
        root.setLevel(saved[0])
        logging.disable(saved[1])


CHILD_KEYS = ("k", "code", "junk", "delay", "linger", "close_after", "term_delay", "stderr", "chatty", "falsy_result",
              "on_term", "self_exit", "stderr_flood", "batch", "die_on_initialize", "mute_on_initialize", "preamble", "init_reply")


async def _scenario(case, tmp, obs):
    import anyio
    from chuk_mcp.protocol.messages.json_rpc_message import JSONRPCMessage
    from chuk_mcp.protocol.messages.send_message import send_message
    from chuk_mcp.transports.stdio.parameters import StdioParameters

    me = os.getpid()
    script = os.path.join(tmp, "child.py")
    spec = {"kind": case["behaviour"]}
    for key in CHILD_KEYS:
        if key in case:
            spec[key] = case[key]
    args = ["-S", "-E", script, json.dumps(spec)]
    if case.get("hostile_args"):
        args += ["", "%s %d {0} {}", "\r\n\u2028", "x" * 100_000]
    envs = {None: None, "empty": {}, "quiet": {"LOG_LEVEL": "ERROR", "PATH": os.environ.get("PATH", "/usr/bin:/bin")},
            "quiet2": {"LOGGING_LEVEL": "critical", "LOG_LEVEL": "", "HOME": ""}}
    params = StdioParameters(command=sys.executable, args=args, env=envs[case.get("env")])

    # warm-up: whatever the event loop allocates on its first subprocess is allocated now
    p = await anyio.open_process([sys.executable, "-S", "-E", "-c", "pass"])
    await p.wait()
    await p.aclose()
    await anyio.sleep(0.02)
    _r0, z0 = scan(tmp, me)
    fd0 = nfds()
    clock = {"exit": None}
    api = case.get("api", "stdio_client")
    path, moment = case["path"], case["moment"]
    reqs = obs["requests"]

    nsess = case.get("sessions", 1)
    shared = {}     # sessions > 1: the SAME StdioClient / StdioTransport object is entered again and again

    @contextlib.asynccontextmanager
    async def client():
        if api == "stdio_client":
            from chuk_mcp.transports.stdio.stdio_client import stdio_client
            async with stdio_client(params) as (r, w):
                yield r, w
        elif api == "StdioTransport":
            from chuk_mcp.transports.stdio.transport import StdioTransport
            t = shared.get("obj") or StdioTransport(params)
            if nsess > 1:
                shared["obj"] = t
            async with t:
                t.set_protocol_version(case.get("version") or "2025-06-18")      # what a host does after the handshake
                yield await t.get_streams()
        elif api == "with_initialize":
            from chuk_mcp.transports.stdio.stdio_client import stdio_client_with_initialize
            t = ANSWER_TIMEOUT_S if answers(case, 1) else HANDSHAKE_SILENT_S
            if not answers(case, 1):
                clock["exit"] = time.monotonic() + t      # the handshake fails then; the wrapper has to clean up
            async with stdio_client_with_initialize(params, timeout=t) as (r, w, _init):
                clock["exit"] = None
                yield r, w
        elif api == "manual":
            # entered and left by hand, the exit in a task of its own under a timeout (server_manager.run_command)
            import asyncio
            from chuk_mcp.transports.stdio.stdio_client import stdio_client
            cm = stdio_client(params)
            streams = await cm.__aenter__()
            try:
                yield streams
            finally:
                close_task = asyncio.create_task(cm.__aexit__(None, None, None))
                try:
                    await asyncio.wait_for(close_task, timeout=(GRACE_MS + SLACK_MS) / 1000)
                except asyncio.TimeoutError:
                    obs["hang"] = True
                except (asyncio.CancelledError, RuntimeError):
                    pass
        else:
            from chuk_mcp.transports.stdio.stdio_client import StdioClient
            c = shared.get("obj") or StdioClient(params)
            if nsess > 1:
                shared["obj"] = c
            async with c:
                if case.get("version"):
                    c.set_protocol_version(case["version"])    # the version the handshake settled on (batching or not)
                if case.get("legacy") and moment == "inflight":
                    # the per-request stream API: `legacy_n` registered requests are still waiting when the context is
                    # left; their receive ends are left unread, are being read by a task, or have been closed
                    shared["legacy_rx"] = []
                    for i in range(case.get("legacy_n", 1)):
                        rid = f"held-legacy-{i}"
                        rx_ = c.new_request_stream(rid)
                        shared["legacy_rx"].append(rx_)
                        await c.send_json(JSONRPCMessage(jsonrpc="2.0", id=rid, method="hold", params={}))
                    ends = case.get("legacy_ends", "unread")
                    if ends == "closed":
                        for rx_ in shared["legacy_rx"]:
                            await rx_.aclose()
                    if ends == "read":
                        async with anyio.create_task_group() as ltg:
                            async def reader_(rx_):
                                with contextlib.suppress(Exception):
                                    await rx_.receive()
                            for rx_ in shared["legacy_rx"]:
                                ltg.start_soon(reader_, rx_)
                            try:
                                yield c.get_streams()
                            finally:
                                ltg.cancel_scope.cancel()
                        return
                yield c.get_streams()

    @contextlib.asynccontextmanager
    async def clients():
        """`nested` contexts inside one another (each with its own child), the conversation runs on the innermost"""
        async with contextlib.AsyncExitStack() as stack:
            rw = None
            for _ in range(case.get("nested", 1)):
                rw = await stack.enter_async_context(client())
            yield rw

    async def echo(r, w, j):
        x = "" if case.get("empty_x") else f"{case.get('nonce', 'n')}-{j}"
        rec = {"x": x, "outcome": None}
        if "falsy_result" in case:
            rec["expect"] = FALSY_RESULTS[case["falsy_result"]]
        reqs.append(rec)
        t = ANSWER_TIMEOUT_S if answers(case, j) else SILENT_TIMEOUT_S
        kw = {"message_id": case["req_id"]} if case.get("req_id") is not None else {}
        try:
            res = await send_message(r, w, "echo", {"x": x}, timeout=t, **kw)
            rec["outcome"] = "returned"
            rec["payload"] = res
        except TimeoutError:
            rec["outcome"] = "timeout"
        except Exception as ex:  # noqa: BLE001
            rec["outcome"] = "error"
            rec["exc"] = type(ex).__name__

    async def queue_backlog(w):
        """outgoing traffic queued right before the exit begins (more than pipe + write buffer hold)"""
        n = case.get("backlog", 0)
        size = case.get("backlog_bytes", BACKLOG_BYTES)
        for i in range(n):
            await w.send(JSONRPCMessage(jsonrpc="2.0", method="notifications/progress",
                                        params={"progressToken": "backlog", "progress": i, "message": "x" * size}))
        if n:
            await anyio.sleep(0.05)

    async def conversation(r, w, scope):
        """runs inside the client context; returns when the exit is to begin (normal / exception)
        or never (cancel / timeout: the exit is triggered from outside)"""
        obs["entered"] = True
        if waits_ready(case):
            try:
                with anyio.fail_after(READY_TIMEOUT_S):
                    while True:
                        m = await r.receive()
                        if getattr(m, "method", None) == "notifications/ready":
                            break
            except TimeoutError:
                obs["ready"] = False
        elif case["behaviour"] == "exit_at":
            await anyio.sleep(0.3)             # let the child be gone before the conversation starts
        if case["behaviour"] == "flood":
            await anyio.sleep(FLOOD_SOAK_S)    # let the flood fill every buffer between the child and us
        if case["behaviour"] == "close_stdout" and case.get("close_after", 0) == 0:
            await anyio.sleep(EOF_SOAK_S)      # let the client see the EOF on the child's stdout
        if moment == "after":
            for j in range(1, case.get("nreq", 1) + 1):
                await echo(r, w, j)
            if case["behaviour"] == "close_stdout" and case.get("close_after", 0) > 0:
                await anyio.sleep(EOF_SOAK_S)
        if moment == "inflight":
            if path in ("normal", "exception"):
                await w.send(JSONRPCMessage(jsonrpc="2.0", id="held", method="hold", params={}))
                await anyio.sleep(0.15)
            else:
                rec = {"x": None, "outcome": "cancelled", "held": True}
                reqs.append(rec)
                await queue_backlog(w)
                arm(scope, 0.3)
                try:
                    res = await send_message(r, w, "hold", {}, timeout=30.0)
                    rec["outcome"] = "returned"
                    rec["payload"] = res
                except TimeoutError:
                    rec["outcome"] = "timeout"
                except Exception as ex:  # noqa: BLE001
                    rec["outcome"] = "error"
                    rec["exc"] = type(ex).__name__
                await anyio.sleep_forever()
        if path in ("cancel", "timeout") and case.get("backlog", 0) > 95:
            arm(scope, 0.4)                    # more than the 100-slot queue takes: the body blocks in send()
            await queue_backlog(w)
            await anyio.sleep_forever()
        await queue_backlog(w)
        if case.get("self_exit") is not None:
            # the child ends BY ITSELF before the exit begins: it is told to now, and we wait until it is gone
            await w.send(JSONRPCMessage(jsonrpc="2.0", method="die", params={}))
            t_die = time.monotonic()
            while scan(tmp, me)[0] and time.monotonic() - t_die < READY_TIMEOUT_S:
                await anyio.sleep(0.02)
            await anyio.sleep(0.05)
        if path in ("cancel", "timeout"):
            arm(scope, 0.05)
            await anyio.sleep_forever()
        clock["exit"] = time.monotonic()
        if path == "exception":
            if case.get("exc_class"):
                raise make_exception(case["exc_class"])
            if case.get("exc_text") == "noargs":
                raise Boom()
            raise Boom(EXC_TEXTS[case.get("exc_text", "plain")])

    def arm(scope, delay):
        """the outer scope is cancelled `delay` seconds from now; that is when the exit begins"""
        clock["exit"] = time.monotonic() + delay
        if path == "timeout":
            scope.deadline = anyio.current_time() + delay      # the timeout around the context expires
        else:
            scope[0].start_soon(cancel_later, scope[1], delay)  # somebody else cancels the enclosing scope

    async def cancel_later(cs, delay):
        await anyio.sleep(delay)
        clock["exit"] = time.monotonic()
        cs.cancel()

    async def entry_moment():
        """the enclosing scope is cancelled `deadline_ms` after the `async with` statement is reached:
        while the context is being entered (before, during, right after the spawn) or early in the body"""
        d = case["deadline_ms"] / 1000.0
        clock["exit"] = time.monotonic() + d
        if path == "timeout":
            with anyio.move_on_after(d):
                async with clients():
                    obs["entered"] = True
                    await anyio.sleep_forever()
        else:
            async with anyio.create_task_group() as tg:
                with anyio.CancelScope() as inner:
                    tg.start_soon(cancel_later, inner, d)
                    async with clients():
                        obs["entered"] = True
                        await anyio.sleep_forever()

    async def concurrent_body(scope):
        """SEVERAL StdioClient objects alive at once in this process, each with its own child; the same request id is
        used on every connection (per-connection counters all start at 1).  `order` is the order in which the
        requests are registered and sent.  A request whose child died must not end with somebody else's answer."""
        from chuk_mcp.transports.stdio.stdio_client import StdioClient

        specs = case["concurrent"]
        rid = case.get("rid", "1")
        async with contextlib.AsyncExitStack() as stack:
            cs = []
            for sp in specs:
                d = {"kind": sp["behaviour"]}
                d.update({k: sp[k] for k in CHILD_KEYS if k in sp})
                c = StdioClient(StdioParameters(command=sys.executable, args=["-S", "-E", script, json.dumps(d)]))
                await stack.enter_async_context(c)
                cs.append(c)
            obs["entered"] = True
            for c, sp in zip(cs, specs):
                if waits_ready(dict(sp, moment="after")):
                    with anyio.move_on_after(READY_TIMEOUT_S):
                        while getattr(await c.get_streams()[0].receive(), "method", None) != "notifications/ready":
                            pass
            recs = [{"client": i, "x": f"{case.get('nonce', 'n')}-client{i}", "outcome": None, "behaviour": sp["behaviour"]}
                    for i, sp in enumerate(specs)]
            reqs.extend(recs)

            async def ask(i):
                c, sp, rec = cs[i], specs[i], recs[i]
                t = ANSWER_TIMEOUT_S if answers(dict(sp), 1) else 0.7     # never a wait that load could turn into a timeout
                try:
                    if case.get("req_api", "legacy") == "legacy":
                        with anyio.fail_after(t):
                            m = await rx[i].receive()
                        if getattr(m, "error", None) is not None:
                            rec["outcome"] = "error"
                        else:
                            rec["outcome"], rec["payload"] = "returned", getattr(m, "result", None)
                    else:
                        r, w = c.get_streams()
                        rec["payload"] = await send_message(r, w, "echo", {"x": rec["x"]}, timeout=t, message_id=rid)
                        rec["outcome"] = "returned"
                except TimeoutError:
                    rec["outcome"] = "timeout"
                except Exception as ex:  # noqa: BLE001
                    rec["outcome"], rec["exc"] = "error", type(ex).__name__

            rx = {}
            if case.get("req_api", "legacy") == "legacy":
                order = case.get("order", list(range(len(specs))))
                for i in order:                                   # every connection registers its waiter ...
                    rx[i] = cs[i].new_request_stream(rid)
                for i in case.get("send_order", order):           # ... then the requests go out, one after the other
                    await cs[i].send_json(JSONRPCMessage(jsonrpc="2.0", id=rid, method="echo", params={"x": recs[i]["x"]}))
                    await anyio.sleep(0.1)
            async with anyio.create_task_group() as atg:
                for i in range(len(specs)):
                    atg.start_soon(ask, i)
            if path in ("cancel", "timeout"):
                arm(scope, 0.05)
                await anyio.sleep_forever()
            clock["exit"] = time.monotonic()
            if path == "exception":
                raise make_exception(case["exc_class"]) if case.get("exc_class") else Boom("exception in body")

    @contextlib.asynccontextmanager
    async def _noctx():
        yield None, None

    async def session_body(scope):
        if case.get("concurrent"):
            await concurrent_body(scope)
        else:
            async with clients() as (r, w):
                await conversation(r, w, scope)

    async def run_path():
        try:
            with anyio.move_on_after(SCENARIO_TIMEOUT_S) as guard:
                if moment == "entry":
                    await entry_moment()
                elif path in ("normal", "exception"):
                    try:
                        await session_body(None)
                    except Boom:
                        obs["exit_exc"] = "Boom"
                elif path == "timeout":
                    # a timeout around the whole context
                    with anyio.move_on_after(3600) as scope:
                        await session_body(scope)
                else:
                    # outer cancellation: the context lives in a scope that another task cancels
                    async with anyio.create_task_group() as tg:
                        with anyio.CancelScope() as inner:
                            await session_body((tg, inner))
            if guard.cancelled_caught:
                obs["hang"] = True
        except BaseException as ex:  # noqa: BLE001
            if not obs["entered"]:
                obs["enter_exc"] = type(ex).__name__
            else:
                obs["exit_exc"] = type(ex).__name__

    holder_task = {}

    async def watchdog(scope):
        """an exit that is still running HANG_AFTER_MS after it began is unbounded for our purposes: note it,
        then release it by killing the child (what a user would have to do), as a last resort cancel it"""
        while True:
            await anyio.sleep(0.05)
            t = clock["exit"]
            if t is not None and (time.monotonic() - t) * 1000 > HANG_AFTER_MS:
                obs["hang"] = True
                kill_tagged(tmp)
                await anyio.sleep(2.0)
                scope.cancel()
                # an exit stuck INSIDE its cancellation shield does not see that either: cancel the task natively
                for _ in range(20):
                    await anyio.sleep(0.5)
                    t_ = holder_task.get("task")
                    if t_ is not None and not t_.done():
                        t_.cancel()
                return

    worst = None
    for si in range(nsess):
        clock["exit"] = None
        obs["entered"] = False
        ses = {"hang": False}
        hang0 = obs["hang"]
        obs["hang"] = False
        async def session_task():
            import asyncio
            holder_task["task"] = asyncio.current_task()
            async with anyio.create_task_group() as outer:
                with anyio.CancelScope() as run_scope:
                    outer.start_soon(watchdog, run_scope)
                    await run_path()
                outer.cancel_scope.cancel()

        # the session runs in a task of its own: a client that leaves one of ITS cancel scopes open (an exit
        # that was skipped) corrupts the scope stack of that task only, and we can still look at the result
        try:
            async with anyio.create_task_group() as iso:
                iso.start_soon(session_task)
        except BaseException as ex:  # noqa: BLE001
            ses["session_exc"] = type(ex).__name__
        t_end = time.monotonic()
        ses["hang"] = obs["hang"]
        obs["hang"] = obs["hang"] or hang0
        ses["entered"] = obs["entered"]
        ses["duration_ms"] = None if clock["exit"] is None else max(0, int((t_end - clock["exit"]) * 1000))

        # settling window: the loop keeps running so that it can collect what it is going to collect
        t0 = time.monotonic()
        first = True
        while True:
            running, z = scan(tmp, me)
            newz = [p_ for p_ in z if p_ not in z0]
            fds = nfds()
            state = "running" if running else ("zombie" if newz else "gone")
            if first:
                ses["state_at_return"] = state
                ses["fd_delta_at_return"] = fds - fd0
                first = False
            if (state == "gone" and fds <= fd0) or time.monotonic() - t0 > SETTLE_S:
                break
            await anyio.sleep(0.02)
        ses["state"] = state
        ses["fd_delta"] = fds - fd0
        if nsess > 1:
            obs.setdefault("sessions", []).append(ses)
        bad = ses["hang"] or state != "gone" or fds > fd0 or (ses["duration_ms"] or 0) > GRACE_MS + SLACK_MS
        if worst is None or (bad and not worst[1]):
            worst = (dict(ses, session=si + 1), bad)
        if bad:
            break                              # what follows would only inherit the mess
        if not ses["entered"]:
            break
    ses = worst[0]
    obs["entered"] = ses["entered"]
    for key in ("duration_ms", "state", "fd_delta", "state_at_return", "fd_delta_at_return"):
        obs[key] = ses[key]
    if nsess > 1:
        obs["session"] = ses["session"]        # the session the top-level observation belongs to


def run_case(case):
    """One scenario against the real code, in a fresh event loop.  JSON-able, no pids / paths."""
    import anyio

    obs = {"entered": False, "enter_exc": None, "exit_exc": None, "hang": False, "ready": True,
           "requests": [], "duration_ms": None, "state": None, "fd_delta": None}
    tmp = tempfile.mkdtemp(prefix="verif-c16-")
    try:
        with open(os.path.join(tmp, "child.py"), "w") as f:
            f.write(CHILD)
        if case.get("servers") is not None:
            try:
                with host_logging(case):
                    _run_host_runner(case, tmp, obs)
            except BaseException as ex:  # noqa: BLE001
                obs["harness_error"] = f"{type(ex).__name__}: {ex}"[:300]
        elif case.get("bad") is not None:
            with host_logging(case):
                _run_bad(case, tmp, obs)
        else:
            try:
                with host_logging(case):
                    anyio.run(_scenario, case, tmp, obs)
            except BaseException as ex:  # noqa: BLE001
                obs["harness_error"] = f"{type(ex).__name__}: {ex}"[:300]
    finally:
        kill_tagged(tmp)
        shutil.rmtree(tmp, ignore_errors=True)
    return obs


INIT_SCALED_S = 2.0


def answers_initialize(sp):
    if sp.get("init_reply"):
        return True          # it answers at once (the handshake fails with an exception, no timeout is involved)
    return sp["behaviour"] in ("well", "ignore_term", "slow_start", "stops_reading", "close_stdout", "exit_at") \
        and not sp.get("die_on_initialize") and not sp.get("mute_on_initialize")


def _run_host_runner(case, tmp, obs):
    """The stdio client contexts as the library's own multi-server host enters and leaves them:
    `mcp_client.host.server_manager.run_command` (enter every server, initialize, run the command function, leave every
    context).  `servers` are child specs; after run_command has returned no child may be left and no descriptor added."""
    from chuk_mcp.mcp_client.host import server_manager as SM
    from chuk_mcp.protocol.messages.send_message import send_message

    script = os.path.join(tmp, "child.py")
    servers = {}
    for i, sp in enumerate(case["servers"]):
        d = {"kind": sp["behaviour"]}
        d.update({k: sp[k] for k in CHILD_KEYS if k in sp})
        servers[f"s{i}"] = {"command": sys.executable, "args": ["-S", "-E", script, json.dumps(d)]}
        if "cfg_timeout" in sp:
            servers[f"s{i}"]["timeout"] = sp["cfg_timeout"]
    cfg = os.path.join(tmp, "config.json")
    with open(cfg, "w") as f:
        json.dump({"mcpServers": servers}, f)
    clock = {}
    reqs = obs["requests"]

    async def command(server_streams):
        obs["entered"] = True
        for i, (r, w) in enumerate(server_streams):
            rec = {"client": i, "x": f"{case.get('nonce', 'n')}-s{i}", "outcome": None}
            reqs.append(rec)
            try:
                rec["payload"] = await send_message(r, w, "echo", {"x": rec["x"]}, timeout=ANSWER_TIMEOUT_S)
                rec["outcome"] = "returned"
            except TimeoutError:
                rec["outcome"] = "timeout"
            except Exception as ex:  # noqa: BLE001
                rec["outcome"], rec["exc"] = "error", type(ex).__name__
        clock["exit"] = time.monotonic()
        if case["path"] == "exception":
            raise Boom("command failed")

    me = os.getpid()
    fd0 = nfds()
    _r, z0 = scan(tmp, me)
    import io
    import threading
    # the documented default of send_initialize (60 s) bounds a handshake nobody answers; scaled down so that such a
    # server costs INIT_SCALED_S here (a call that passes its own timeout, or none at all, is not affected)
    si = SM.send_initialize
    saved_defaults = si.__defaults__
    if saved_defaults and saved_defaults[0] == 60.0:
        si.__defaults__ = (INIT_SCALED_S,) + tuple(saved_defaults[1:])
    t0 = time.monotonic()
    done = threading.Event()

    def work():
        try:
            SM.run_command(command, cfg, list(servers))
        finally:
            done.set()

    th = threading.Thread(target=work, daemon=True)
    real_stdout = sys.stdout
    sys.stdout = io.StringIO()            # restored below even when run_command never returns
    try:
        th.start()
        mute = sum(1 for sp in case["servers"] if not answers_initialize(sp))
        budget = mute * INIT_SCALED_S + len(servers) * GRACE_MS / 1000 + SLACK_MS / 1000
        if not done.wait(budget + 1.0):
            obs["hang"] = True
            kill_tagged(tmp)
            done.wait(3.0)
    finally:
        sys.stdout = real_stdout
        si.__defaults__ = saved_defaults
    t_end = time.monotonic()
    obs["total_ms"] = int((t_end - t0) * 1000)
    obs["budget_ms"] = int(budget * 1000)
    if "exit" in clock:
        obs["duration_ms"] = int((t_end - clock["exit"]) * 1000)
    running, z = scan(tmp, me)
    obs["state"] = "running" if running else ("zombie" if [p for p in z if p not in z0] else "gone")
    obs["fd_delta"] = nfds() - fd0
    obs["state_at_return"], obs["fd_delta_at_return"] = obs["state"], obs["fd_delta"]


def _run_bad(case, tmp, obs):
    """entering the context with a command that cannot be started"""
    import anyio
    from chuk_mcp.transports.stdio.parameters import StdioParameters

    bad = case["bad"]
    if bad == "missing":
        cmd = os.path.join(tmp, "no-such-program")
    elif bad == "not-executable":
        cmd = os.path.join(tmp, "plain.txt")
        with open(cmd, "w") as f:
            f.write("not a program\n")
        os.chmod(cmd, 0o644)
    elif bad == "directory":
        cmd = tmp
    elif bad == "bare-name":
        cmd = "verif-c16-no-such-command-on-path"
    else:
        raise ValueError(bad)
    api = case.get("api", "stdio_client")

    async def main():
        params = StdioParameters(command=cmd, args=["x"])
        fd0 = nfds()
        obj = None
        obs["attempts"] = []
        # `attempts` > 1: the SAME object is entered again after the failed start (a host that retries)
        for _ in range(case.get("attempts", 1)):
            entered_now = False
            try:
                with anyio.fail_after(SCENARIO_TIMEOUT_S):
                    if api == "StdioTransport":
                        from chuk_mcp.transports.stdio.transport import StdioTransport
                        obj = obj or StdioTransport(params)
                        async with obj:
                            entered_now = obs["entered"] = True
                    elif api == "StdioClient":
                        from chuk_mcp.transports.stdio.stdio_client import StdioClient
                        obj = obj or StdioClient(params)
                        async with obj:
                            entered_now = obs["entered"] = True
                    else:
                        from chuk_mcp.transports.stdio.stdio_client import stdio_client
                        async with stdio_client(params):
                            entered_now = obs["entered"] = True
                obs["attempts"].append("entered")
            except TimeoutError:
                obs["hang"] = True
                obs["attempts"].append("hang")
            except BaseException as ex:  # noqa: BLE001
                obs["attempts"].append("entered-then-" + type(ex).__name__ if entered_now else "raised")
                if not entered_now:
                    obs["enter_exc"] = type(ex).__name__
                else:
                    obs["exit_exc"] = type(ex).__name__
        await anyio.sleep(0.05)
        running, _z = scan(tmp, os.getpid())
        obs["state"] = "running" if running else "gone"
        obs["fd_delta"] = nfds() - fd0

    anyio.run(main)


# ------------------------------------------------------------------------------- batches
def _worker_init(repo):
    import logging

    logging.disable(logging.CRITICAL)
    os.environ["VERIF_REPO"] = repo
    p = os.path.join(repo, "src")
    if p in sys.path:
        sys.path.remove(p)
    sys.path.insert(0, p)
    with contextlib.suppress(Exception):
        dn = os.open(os.devnull, os.O_WRONLY)
        os.dup2(dn, 2)                         # children inherit stderr; keep their tracebacks off the terminal
        os.dup2(dn, 1)                         # results travel through the pool's own pipes; run_command clears the screen
        os.close(dn)


def run_cases(cases, workers=None):
    from . import core

    cases = list(cases)
    if len(cases) <= 1:
        import gc

        from .config_h import quiet_fds
        with quiet_fds():
            try:
                return [run_case(c) for c in cases]
            finally:
                gc.collect()   # abandoned transports complain in __del__; keep that off the terminal
    import multiprocessing as mp
    from concurrent.futures import ProcessPoolExecutor

    workers = workers or max(1, min(6, (os.cpu_count() or 2) // 2, len(cases)))
    ctx = mp.get_context("spawn")
    with ProcessPoolExecutor(max_workers=workers, mp_context=ctx, initializer=_worker_init,
                             initargs=(str(core.REPO),)) as ex:
        return list(ex.map(run_case, cases, chunksize=1))
