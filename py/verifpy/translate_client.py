"""Regenerates lean/Verif/Gen/ClientOps.lean from `class MCPClient` (src/chuk_mcp/client/client.py) on
every run: the SHAPE of the high-level client that `Model/ClientApi.clientSeq` assumes —

* every public operation first awaits `self.initialize()` — only on the path where `self.initialized`
  is not set — and then awaits exactly ONE `send_*` request helper;
* `_ensure_initialized` awaits `self.initialize()` exactly when the flag is not set;
* `initialize` causes no traffic when `self.initialized` is set, and sets the flag only AFTER
  `await send_initialize(...)` came back (an exception leaves the client uninitialized).

The method bodies are LINEARISED first: private methods of the class (awaited or not) are inlined,
`if self.initialized:` / `if not self.initialized:` with early returns are followed as guards, so
extracting helpers (`_session_streams()`, `_handshake()`), early returns vs nested ifs and reordered
independent statements all give the same table.

Anything else is not guessed: `translatable := false` and a report line.  SUPPLEMENTARY: the theorem
about this file is reported as INFO; the `client-calls` correspondence compares the model with the
running code whatever the source looks like."""
from __future__ import annotations

import ast

from . import translate
from .translate import Untranslatable


def _body(fn):
    return [s for s in fn.body if not translate._is_effect_free(s)]


def _is_self_attr(e, name):
    return isinstance(e, ast.Attribute) and e.attr == name and isinstance(e.value, ast.Name) and e.value.id == "self"


def _awaited_calls(node):
    out = []
    for n in ast.walk(node):
        if isinstance(n, ast.Await) and isinstance(n.value, ast.Call):
            f = n.value.func
            if isinstance(f, ast.Name):
                out.append(f.id)
            elif isinstance(f, ast.Attribute) and isinstance(f.value, ast.Name) and f.value.id == "self":
                out.append("self." + f.attr)
            else:
                out.append(ast.unparse(f))
    return out


def _assigns_initialized(stmt):
    """constants assigned to self.initialized anywhere inside the statement"""
    vals = []
    for n in ast.walk(stmt):
        if isinstance(n, ast.Assign) and any(_is_self_attr(t, "initialized") for t in n.targets):
            vals.append(n.value.value if isinstance(n.value, ast.Constant) else "?")
        if isinstance(n, ast.AnnAssign) and _is_self_attr(n.target, "initialized"):
            vals.append(n.value.value if isinstance(n.value, ast.Constant) else "?")
    return vals


def _lin(methods, stmts, ctx, depth):
    """Linearise statements: -> (events, ctx after, always returned).  ctx in {"any", "init", "uninit"}
    says what is known about `self.initialized` at that point; awaited PRIVATE methods of the class are
    inlined; events are ("await", callee, ctx) and ("assign", constant, ctx)."""
    events = []
    for st in stmts:
        if translate._is_effect_free(st):
            continue
        if isinstance(st, ast.If):
            t = st.test
            pos = _is_self_attr(t, "initialized")
            neg = isinstance(t, ast.UnaryOp) and isinstance(t.op, ast.Not) and _is_self_attr(t.operand, "initialized")
            if pos or neg:
                b_ctx, e_ctx = ("init", "uninit") if pos else ("uninit", "init")
                if ctx != "any":  # already known: one branch is dead
                    b_ctx = e_ctx = ctx
                ev1, _, r1 = _lin(methods, st.body, b_ctx, depth)
                ev2, _, r2 = _lin(methods, st.orelse, e_ctx, depth)
                if ctx == "any" or ctx == ("init" if pos else "uninit"):
                    events += ev1
                if ctx == "any" or ctx == ("uninit" if pos else "init"):
                    events += ev2
                if ctx == "any":
                    if r1 and not r2:
                        ctx = e_ctx
                    elif r2 and not r1:
                        ctx = b_ctx
                    elif r1 and r2:
                        return events, ctx, True
                continue
            ev0 = _expr_events(methods, t, ctx, depth)
            ev1, _, r1 = _lin(methods, st.body, ctx, depth)
            ev2, _, r2 = _lin(methods, st.orelse, ctx, depth)
            events += ev0 + ev1 + ev2
            if r1 and r2:
                return events, ctx, True
            continue
        if isinstance(st, ast.Try):
            for part in (st.body, *[h.body for h in st.handlers], st.orelse, st.finalbody):
                ev, _, _ = _lin(methods, part, ctx, depth)
                events += ev
            continue
        if isinstance(st, (ast.With, ast.AsyncWith, ast.For, ast.AsyncFor, ast.While)):
            ev, _, _ = _lin(methods, st.body, ctx, depth)
            events += ev
            continue
        events += _expr_events(methods, st, ctx, depth)
        for v in _assigns_initialized(st):
            events.append(("assign", v, ctx))
        if isinstance(st, (ast.Return, ast.Raise)):
            return events, ctx, True
    return events, ctx, False


def _expr_events(methods, node, ctx, depth, reached=None):
    """awaits (and inlined private methods of the class, awaited or not) inside one statement, in source order"""
    out = []
    items = []
    for n in ast.walk(node):
        if isinstance(n, ast.Call) and isinstance(n.func, ast.Attribute) and isinstance(n.func.value, ast.Name) \
                and n.func.value.id == "self" and n.func.attr.startswith("_") and n.func.attr in methods:
            items.append((n.lineno, n.col_offset, "inline", n.func.attr))
        elif isinstance(n, ast.Await) and isinstance(n.value, ast.Call):
            f = n.value.func
            if isinstance(f, ast.Attribute) and isinstance(f.value, ast.Name) and f.value.id == "self" \
                    and f.attr.startswith("_") and f.attr in methods:
                continue  # the Call node inside is inlined
            items.append((n.lineno, n.col_offset, "await", f.id if isinstance(f, ast.Name) else ast.unparse(f)))
    for _, _, kind, name in sorted(items):
        if kind == "inline":
            if depth < 4:
                _REACHED.add(name)
                ev, _, _ = _lin(methods, methods[name].body, ctx, depth + 1)
                out += ev
        else:
            out.append(("await", name, ctx))
    return out


_REACHED = set()


@translate.register("ClientOps")
def gen_client_ops(src):
    report = {"file": "Gen/ClientOps.lean", "untranslatable": []}
    ops, guard_first, sets_after, ensure_ok = [], False, False, False
    try:
        tree = ast.parse((src / "client" / "client.py").read_text())
        cls = next((n for n in ast.walk(tree) if isinstance(n, ast.ClassDef) and n.name == "MCPClient"), None)
        if cls is None:
            raise Untranslatable("class MCPClient not found")
        methods = {n.name: n for n in cls.body if isinstance(n, (ast.FunctionDef, ast.AsyncFunctionDef))}
        for name, fn in methods.items():
            if name.startswith("_") or name == "initialize" or not isinstance(fn, ast.AsyncFunctionDef):
                continue
            ev, _, _ = _lin(methods, fn.body, "any", 0)
            aw = [e for e in ev if e[0] == "await"]
            if any(e[0] == "assign" for e in ev):
                raise Untranslatable(f"{name} assigns self.initialized")
            helpers = [e[1] for e in aw if e[1].startswith("send_")]
            others = [e for e in aw if not e[1].startswith("send_") and e[1] != "self.initialize"]
            if others:
                raise Untranslatable(f"{name}: awaits {others[0][1]} besides initialize and the helper")
            # lazily initialized first: the first awaited thing is `self.initialize()`, reached only
            # when the flag is not set; then the helper(s)
            ensures = bool(aw) and aw[0][1] == "self.initialize" and aw[0][2] == "uninit" \
                and sum(1 for e in aw if e[1] == "self.initialize") == 1
            ops.append((name, ensures, helpers[0] if helpers else "", len(helpers)))
        ens = methods.get("_ensure_initialized")
        if ens is not None:
            ev, _, _ = _lin(methods, ens.body, "any", 0)
            ensure_ok = ev == [("await", "self.initialize", "uninit")]
        else:
            ensure_ok = all(o[1] for o in ops) and bool(ops)  # inlined into the operations
        init = methods.get("initialize")
        if init is None:
            raise Untranslatable("initialize not found")
        _REACHED.clear()
        ev, _, _ = _lin(methods, init.body, "any", 0)
        from_init = set(_REACHED)
        aw = [e for e in ev if e[0] == "await"]
        guard_first = bool(aw) and all(e[2] == "uninit" for e in aw)
        idx = [i for i, e in enumerate(ev) if e[0] == "await" and e[1] == "send_initialize"]
        if len(idx) != 1:
            raise Untranslatable("initialize: expected exactly one await of send_initialize")
        assigns = [(i, e[1]) for i, e in enumerate(ev) if e[0] == "assign"]
        sets_after = bool(assigns) and all(i > idx[0] and v is True for i, v in assigns)
        for name, fn in methods.items():
            if name in ("initialize", "__init__") or name in from_init:
                continue
            if any(_assigns_initialized(s) for s in fn.body):
                raise Untranslatable(f"{name} assigns self.initialized")
    except Untranslatable as ex:
        report["untranslatable"].append(f"client.py: MCPClient: {ex}")
    except Exception as ex:  # noqa
        report["untranslatable"].append(f"client.py: MCPClient: translator error {ex!r}")
    ok = "true" if not report["untranslatable"] else "false"
    report["aux_untranslatable"] = report.pop("untranslatable")
    report["untranslatable"] = []
    report["ops"] = [o[0] for o in ops]

    def b(x):
        return "true" if x else "false"
    items = ",\n  ".join(f"⟨{translate._lean_str(n)}, {b(e)}, {translate._lean_str(h)}, {k}⟩" for n, e, h, k in ops)
    lean = f"""-- GENERATED by verifpy/translate_client.py from src/chuk_mcp/client/client.py. Do not edit.
namespace Verif.Gen.ClientOps

/-- `false` when `class MCPClient` fell outside the translator's subset (the table below is then partial) -/
def translatable : Bool := {ok}

structure OpDef where
  /-- public coroutine method of `MCPClient` -/
  name : String
  /-- its first statement is `await self._ensure_initialized()` -/
  ensures : Bool
  /-- the (first) `send_*` request helper it awaits -/
  helper : String
  /-- how many `send_*` helpers it awaits -/
  nHelpers : Nat
  deriving Repr, DecidableEq

/-- every public operation other than `initialize`, in source order -/
def ops : List OpDef := [
  {items}]

/-- `_ensure_initialized` is exactly `if not self.initialized: await self.initialize()` -/
def ensureIsLazyInit : Bool := {b(ensure_ok)}

/-- `initialize` starts with `if self.initialized: return …` (no traffic for an initialized client) -/
def initGuardFirst : Bool := {b(guard_first)}

/-- `self.initialized` is set (to `True`, nowhere else in the class) only in statements AFTER the one
awaiting `send_initialize`: an exception out of it leaves the client uninitialized -/
def initSetsAfterAwait : Bool := {b(sets_after)}

end Verif.Gen.ClientOps
"""
    return lean, report
