"""Regenerates lean/Verif/Gen/ClientOps.lean from `class MCPClient` (src/chuk_mcp/client/client.py) on
every run: the SHAPE of the high-level client that `Model/ClientApi.clientSeq` assumes —

* every public operation awaits `self._ensure_initialized()` first and then awaits exactly ONE
  `send_*` request helper;
* `_ensure_initialized` is `if not self.initialized: await self.initialize()`;
* `initialize` returns early when `self.initialized` is set, and sets it only AFTER
  `await send_initialize(...)` came back (an exception leaves the client uninitialized).

Anything else is not guessed: `translatable := false` and a report line.  SUPPLEMENTARY: the theorem
about this file is reported as INFO; the `client-calls` correspondence compares the model with the
running code whatever the source looks like."""
from __future__ import annotations

import ast

from . import translate
from .translate import Untranslatable


def _body(fn):
    return [s for s in fn.body if not translate._is_effect_free(s)]


def _is_self_attr(e, name):
    return isinstance(e, ast.Attribute) and e.attr == name and isinstance(e.value, ast.Name) and e.value.id == "self"


def _awaited_calls(node):
    out = []
    for n in ast.walk(node):
        if isinstance(n, ast.Await) and isinstance(n.value, ast.Call):
            f = n.value.func
            if isinstance(f, ast.Name):
                out.append(f.id)
            elif isinstance(f, ast.Attribute) and isinstance(f.value, ast.Name) and f.value.id == "self":
                out.append("self." + f.attr)
            else:
                out.append(ast.unparse(f))
    return out


def _assigns_initialized(stmt):
    """constants assigned to self.initialized anywhere inside the statement"""
    vals = []
    for n in ast.walk(stmt):
        if isinstance(n, ast.Assign) and any(_is_self_attr(t, "initialized") for t in n.targets):
            vals.append(n.value.value if isinstance(n.value, ast.Constant) else "?")
        if isinstance(n, ast.AnnAssign) and _is_self_attr(n.target, "initialized"):
            vals.append(n.value.value if isinstance(n.value, ast.Constant) else "?")
    return vals


@translate.register("ClientOps")
def gen_client_ops(src):
    report = {"file": "Gen/ClientOps.lean", "untranslatable": []}
    ops, guard_first, sets_after, ensure_ok = [], False, False, False
    try:
        tree = ast.parse((src / "client" / "client.py").read_text())
        cls = next((n for n in ast.walk(tree) if isinstance(n, ast.ClassDef) and n.name == "MCPClient"), None)
        if cls is None:
            raise Untranslatable("class MCPClient not found")
        methods = {n.name: n for n in cls.body if isinstance(n, (ast.FunctionDef, ast.AsyncFunctionDef))}
        for name, fn in methods.items():
            if name.startswith("_") or name == "initialize" or not isinstance(fn, ast.AsyncFunctionDef):
                continue
            body = _body(fn)
            first = body[0] if body else None
            ensures = (isinstance(first, ast.Expr) and isinstance(first.value, ast.Await) and isinstance(first.value.value, ast.Call)
                       and _is_self_attr(first.value.value.func, "_ensure_initialized") and not first.value.value.args)
            helpers = [c for c in _awaited_calls(fn) if c.startswith("send_")]
            others = [c for c in _awaited_calls(fn) if not c.startswith("send_") and c != "self._ensure_initialized"]
            if others:
                raise Untranslatable(f"{name}: awaits {others[0]} besides the helper")
            ops.append((name, ensures, helpers[0] if helpers else "", len(helpers)))
        ens = methods.get("_ensure_initialized")
        if ens is None:
            raise Untranslatable("_ensure_initialized not found")
        eb = _body(ens)
        ensure_ok = (len(eb) == 1 and isinstance(eb[0], ast.If) and not eb[0].orelse
                     and isinstance(eb[0].test, ast.UnaryOp) and isinstance(eb[0].test.op, ast.Not) and _is_self_attr(eb[0].test.operand, "initialized")
                     and _awaited_calls(eb[0]) == ["self.initialize"] and len(_body(eb[0])) == 1)
        init = methods.get("initialize")
        if init is None:
            raise Untranslatable("initialize not found")
        ib = _body(init)
        g = ib[0] if ib else None
        guard_first = (isinstance(g, ast.If) and _is_self_attr(g.test, "initialized") and not g.orelse
                       and any(isinstance(s, ast.Return) for s in g.body) and not _awaited_calls(g))
        idx_await = [i for i, s in enumerate(ib) if "send_initialize" in _awaited_calls(s)]
        if len(idx_await) != 1:
            raise Untranslatable("initialize: expected exactly one statement awaiting send_initialize")
        assigns = [(i, v) for i, s in enumerate(ib) for v in _assigns_initialized(s)]
        sets_after = bool(assigns) and all(i > idx_await[0] and v is True for i, v in assigns)
        # nothing but initialize() may set the flag
        for name, fn in methods.items():
            if name not in ("initialize", "__init__") and any(_assigns_initialized(s) for s in fn.body):
                raise Untranslatable(f"{name} assigns self.initialized")
    except Untranslatable as ex:
        report["untranslatable"].append(f"client.py: MCPClient: {ex}")
    except Exception as ex:  # noqa
        report["untranslatable"].append(f"client.py: MCPClient: translator error {ex!r}")
    ok = "true" if not report["untranslatable"] else "false"
    report["aux_untranslatable"] = report.pop("untranslatable")
    report["untranslatable"] = []
    report["ops"] = [o[0] for o in ops]

    def b(x):
        return "true" if x else "false"
    items = ",\n  ".join(f"⟨{translate._lean_str(n)}, {b(e)}, {translate._lean_str(h)}, {k}⟩" for n, e, h, k in ops)
    lean = f"""-- GENERATED by verifpy/translate_client.py from src/chuk_mcp/client/client.py. Do not edit.
namespace Verif.Gen.ClientOps

/-- `false` when `class MCPClient` fell outside the translator's subset (the table below is then partial) -/
def translatable : Bool := {ok}

structure OpDef where
  /-- public coroutine method of `MCPClient` -/
  name : String
  /-- its first statement is `await self._ensure_initialized()` -/
  ensures : Bool
  /-- the (first) `send_*` request helper it awaits -/
  helper : String
  /-- how many `send_*` helpers it awaits -/
  nHelpers : Nat
  deriving Repr, DecidableEq

/-- every public operation other than `initialize`, in source order -/
def ops : List OpDef := [
  {items}]

/-- `_ensure_initialized` is exactly `if not self.initialized: await self.initialize()` -/
def ensureIsLazyInit : Bool := {b(ensure_ok)}

/-- `initialize` starts with `if self.initialized: return …` (no traffic for an initialized client) -/
def initGuardFirst : Bool := {b(guard_first)}

/-- `self.initialized` is set (to `True`, nowhere else in the class) only in statements AFTER the one
awaiting `send_initialize`: an exception out of it leaves the client uninitialized -/
def initSetsAfterAwait : Bool := {b(sets_after)}

end Verif.Gen.ClientOps
"""
    return lean, report
