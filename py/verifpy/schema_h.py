"""Harness of the C09/C10 correspondence: persistent worker processes (one per validation
backend, running the real library), the order-preserving JSON encoding of the Lean driver,
canonical comparison."""
from __future__ import annotations

import atexit
import json
import subprocess
import sys
from pathlib import Path

from . import core, translate_schema

WORKER = Path(__file__).with_name("schema_worker.py")
BACKENDS = ("pydantic", "fallback")


class Worker:
    def __init__(self, backend: str, extra_env: dict | None = None):
        self.backend = backend
        env = translate_schema.backend_env(backend)
        env.update(extra_env or {})
        self.p = subprocess.Popen(
            [sys.executable, str(WORKER)], env=env,
            stdin=subprocess.PIPE, stdout=subprocess.PIPE, stderr=subprocess.DEVNULL, text=True, bufsize=1,
        )

    def call(self, op: str, cases: list) -> list:
        self.p.stdin.write(json.dumps({"op": op, "cases": cases}, ensure_ascii=True) + "\n")
        self.p.stdin.flush()
        line = self.p.stdout.readline()
        if not line:
            raise RuntimeError(f"schema worker ({self.backend}) died")
        return json.loads(line)

    def close(self):
        try:
            self.p.stdin.close()
            self.p.wait(timeout=5)
        except Exception:
            self.p.kill()


_POOL: dict[str, Worker] = {}


def worker(backend: str) -> Worker:
    w = _POOL.get(backend)
    if w is None or w.p.poll() is not None:
        w = _POOL[backend] = Worker(backend)
    return w


@atexit.register
def _close_all():
    for w in _POOL.values():
        w.close()


def both(op: str, cases: list) -> list[dict]:
    """run the batch under both backends (the two workers run concurrently): [{"pydantic":…, "fallback":…}]"""
    ws = [worker(b) for b in BACKENDS]
    # every fourth case under DEBUG logging with a NullHandler (HARDEN2 class A)
    data = json.dumps({"op": op, "cases": cases, "debug_every": 4}, ensure_ascii=True) + "\n"
    for w in ws:
        w.p.stdin.write(data)
        w.p.stdin.flush()
    outs = []
    for w in ws:
        line = w.p.stdout.readline()
        if not line:
            raise RuntimeError(f"schema worker ({w.backend}) died")
        outs.append(json.loads(line))
    return [{"pydantic": a, "fallback": b} for a, b in zip(*outs)]


# ----------------------------------------------------------------------------- schema access
_SCHEMA: dict = {}


def schema() -> dict:
    """{id: class description} as introspected under the fallback (the two views are compared by
    the translator); computed once per process (the tree under test does not change within a run)"""
    if "fallback" not in _SCHEMA:
        v = translate_schema.load_views()
        _SCHEMA["fallback"] = {c["id"]: c for c in v["fallback"]["classes"]}
        _SCHEMA["pydantic"] = {c["id"]: c for c in v["pydantic"]["classes"]}
    return _SCHEMA["fallback"]


def schema_pyd() -> dict:
    schema()
    return _SCHEMA["pydantic"]


def magic() -> dict:
    """constants harvested from the source of each class's module (see schema_gen.magic_values)"""
    if "magic" not in _SCHEMA:
        from . import schema_gen

        _SCHEMA["magic"] = schema_gen.magic_values(schema(), core.REPO / "src")
    return _SCHEMA["magic"]


def fresh_both(op: str, batches: list[list], envs: list | None = None) -> list[list[dict]]:
    """each batch in its OWN pair of freshly started worker processes (state a backend carries from
    one call to the next — caches keyed too coarsely — depends on what ran first in the process)"""
    envs = envs or [None] * len(batches)
    pairs = [[Worker(b, e) for b in BACKENDS] for e in envs]
    try:
        for ws, cases in zip(pairs, batches):
            data = json.dumps({"op": op, "cases": cases, "debug_every": 3}, ensure_ascii=True) + "\n"
            for w in ws:
                w.p.stdin.write(data)
                w.p.stdin.flush()
        res = []
        for ws in pairs:
            outs = []
            for w in ws:
                line = w.p.stdout.readline()
                if not line:
                    raise RuntimeError(f"schema worker ({w.backend}) died")
                outs.append(json.loads(line))
            res.append([{"pydantic": a, "fallback": b} for a, b in zip(*outs)])
        return res
    finally:
        for ws in pairs:
            for w in ws:
                w.close()


# ----------------------------------------------------------------------------- Lean encoding
def canon_num(v):
    if isinstance(v, float) and v == v and v not in (float("inf"), float("-inf")) and v == int(v) and abs(v) < 2 ** 53:
        return int(v)
    return v


def canon(v):
    if isinstance(v, float):
        return canon_num(v)
    if isinstance(v, list):
        return [canon(x) for x in v]
    if isinstance(v, dict):
        return {k: canon(x) for k, x in v.items()}
    return v


def enc(v):
    """Python JSON value -> driver encoding (objects keep member order)"""
    if v is None or isinstance(v, (bool, str)):
        return v
    if isinstance(v, int):
        return v
    if isinstance(v, float):
        c = canon_num(v)
        if isinstance(c, int):
            return c
        return {"f": repr(v)}
    if isinstance(v, list):
        return [enc(x) for x in v]
    if isinstance(v, dict):
        return {"o": [[k, enc(x)] for k, x in v.items()]}
    raise TypeError(type(v).__name__)


def dec(v):
    if isinstance(v, list):
        return [dec(x) for x in v]
    if isinstance(v, dict):
        if "f" in v:
            return float(v["f"])
        return {k: dec(x) for k, x in v["o"]}
    return v


def same(a, b) -> bool:
    return core.canon(canon(a)) == core.canon(canon(b))


def strict_eq(a, b) -> bool:
    """JSON value equality: numbers by value, but bool/number/string never identified"""
    if isinstance(a, bool) or isinstance(b, bool):
        return isinstance(a, bool) and isinstance(b, bool) and a == b
    if isinstance(a, (int, float)) and isinstance(b, (int, float)):
        return a == b
    if type(a) is not type(b):
        return False
    if isinstance(a, list):
        return len(a) == len(b) and all(strict_eq(x, y) for x, y in zip(a, b))
    if isinstance(a, dict):
        return a.keys() == b.keys() and all(strict_eq(a[k], b[k]) for k in a)
    return a == b
