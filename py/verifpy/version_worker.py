"""Worker process for the version-negotiation checks (C03, C04) under another backend of the library.

Started as `python -m verifpy.version_worker` with MCP_FORCE_FALLBACK=1 (the library's own switch for running without
Pydantic) and VERIF_REPO pointing at the tree under test.  Line protocol on stdin/stdout: one JSON request per line
{"fn": <name of a run_* function of verifpy.version_h>, "cases": [...]}, one JSON answer per line {"obs": [...]} or
{"error": <text>}.
"""
from __future__ import annotations

import json
import sys


def main():
    import logging

    logging.disable(logging.CRITICAL)
    from . import core

    core.use_repo_source()
    from . import version_h as V

    info = {}
    try:
        from chuk_mcp.protocol import mcp_pydantic_base as B

        info["pydantic"] = bool(getattr(B, "PYDANTIC_AVAILABLE", None))
    except Exception as ex:  # noqa: BLE001
        info["pydantic"] = repr(ex)
    out = sys.stdout
    real_stdout = out
    sys.stdout = sys.stderr  # whatever the library prints must not corrupt the protocol
    for line in sys.stdin:
        line = line.strip()
        if not line:
            continue
        try:
            req = json.loads(line)
            if req.get("fn") == "info":
                ans = {"info": info}
            else:
                fn = getattr(V, req["fn"])
                if not req["fn"].startswith("run_"):
                    raise ValueError("not a harness entry point")
                ans = {"obs": fn(req["cases"])}
        except Exception as ex:  # noqa: BLE001
            import traceback

            ans = {"error": traceback.format_exc()[-1500:]}
        real_stdout.write(json.dumps(ans, default=str) + "\n")
        real_stdout.flush()


if __name__ == "__main__":
    main()
