"""Translator generators for C09 / C10 (DESIGN.md 2.2):

* `Gen/Schemas.lean`   — every `McpPydanticBase` subclass reachable from the package (walked by
  import-time introspection in a subprocess per backend, never listed): field names, aliases,
  type expressions, defaults, required flags, which post-init hooks the class defines, which
  hook names each backend calls, whether the two backends expose the same field table.
* `Gen/DumpSites.lean` — every `.model_dump(` / `.model_dump_json(` call in src/ (from the AST):
  keyword arguments, enclosing function, statically resolved receiver classes, whether such a
  class reaches an aliased field, whether the result can reach the wire.

Nothing outside the supported subset is guessed: it is listed in report["untranslatable"] and
the generated file carries `translatable := false` (which breaks `c09_translated` / `c10_translated`).
"""
from __future__ import annotations

import ast
import hashlib
import json
import os
import subprocess
import sys
from pathlib import Path

from . import core, translate

INTROSPECT = Path(__file__).with_name("schema_introspect.py")
HOOK_KEY = "hook-enforced-by-one-backend:"


# ------------------------------------------------------------------------------ introspection
def _src_hash(src_root: Path) -> str:
    h = hashlib.sha1()
    for p in sorted(src_root.rglob("*.py")):
        h.update(str(p.relative_to(src_root)).encode())
        h.update(b"\0")
        h.update(p.read_bytes())
        h.update(b"\0")
    h.update(INTROSPECT.read_bytes())
    return h.hexdigest()[:20]


def backend_env(backend: str, repo: Path | None = None) -> dict:
    env = dict(os.environ)
    env["VERIF_SRC"] = str((repo or core.REPO) / "src")
    env["PYTHONPATH"] = str(core.ROOT / "py")
    env["PYTHONDONTWRITEBYTECODE"] = "1"
    env[core.GUARD] = "1"
    env.pop("MCP_FORCE_FALLBACK", None)
    if backend == "fallback":
        env["MCP_FORCE_FALLBACK"] = "1"
    return env


def introspect(backend: str) -> dict:
    p = subprocess.run([sys.executable, str(INTROSPECT)], env=backend_env(backend), capture_output=True,
                       text=True, timeout=120)
    if p.returncode != 0:
        raise RuntimeError(f"introspection under {backend} failed: {p.stderr[-400:]}")
    return json.loads(p.stdout)


_VIEWS = {}


def load_views() -> dict:
    """{"pydantic": doc, "fallback": doc}; cached on the content hash of src/ (both in-process
    and on disk) so that the other properties' checks do not pay for it."""
    src_root = core.REPO / "src"
    key = _src_hash(src_root)
    if key in _VIEWS:
        return _VIEWS[key]
    cdir = core.LEAN / ".lake" / "verif-cache"
    cfile = cdir / f"schema-views-{key}.json"
    views = None
    if cfile.exists():
        try:
            views = json.loads(cfile.read_text())
        except Exception:
            views = None
    if views is None:
        views = {"pydantic": introspect("pydantic"), "fallback": introspect("fallback")}
        try:
            cdir.mkdir(parents=True, exist_ok=True)
            for old in cdir.glob("schema-views-*.json"):
                old.unlink()
            tmp = cfile.with_suffix(".tmp%d" % os.getpid())
            tmp.write_text(json.dumps(views, sort_keys=True))
            tmp.replace(cfile)
        except OSError:
            pass
    _VIEWS[key] = views
    return views


# ------------------------------------------------------------------------------ Lean printing
def lstr(s: str) -> str:
    out = ['"']
    for ch in s:
        if ch == '"':
            out.append('\\"')
        elif ch == "\\":
            out.append("\\\\")
        elif ch == "\n":
            out.append("\\n")
        elif ch == "\t":
            out.append("\\t")
        elif ord(ch) < 32 or ord(ch) == 127:
            out.append("\\x%02x" % ord(ch))
        else:
            out.append(ch)
    out.append('"')
    return "".join(out)


def lbool(b) -> str:
    return "true" if b else "false"


def lstrs(xs) -> str:
    return "[" + ", ".join(lstr(x) for x in xs) + "]"


class Bad(Exception):
    pass


def lty(t) -> str:
    k = t["k"]
    if k in ("str", "int", "float", "bool", "any"):
        return "." + k
    if k == "lit":
        return f"(.lit {lstrs(t['vals'])})"
    if k == "opt":
        return f"(.opt {lty(t['t'])})"
    if k == "list":
        return f"(.list {lty(t['t'])})"
    if k == "dict":
        if t["kt"]["k"] not in ("str", "any"):
            raise Bad(f"dict key type {t['kt']}")
        return f"(.dict {lty(t['t'])})"
    if k == "union":
        ts = t["ts"]
        if len(ts) < 2:
            raise Bad("degenerate union")
        acc = lty(ts[-1])
        for m in reversed(ts[:-1]):
            acc = f"(.union {lty(m)} {acc})"
        return acc
    if k == "ref":
        return f"(.ref {lstr(t['cls'])})"
    raise Bad(t.get("repr", k))


def ljson(v) -> str:
    if v is None:
        return ".null"
    if isinstance(v, bool):
        return f"(.bool {lbool(v)})"
    if isinstance(v, int):
        return f"(.int ({v}))"
    if isinstance(v, float):
        if v == int(v) and abs(v) < 2**53:
            return f"(.int ({int(v)}))"
        return f"(.flt {lstr(repr(v))})"
    if isinstance(v, str):
        return f"(.str {lstr(v)})"
    if isinstance(v, list):
        return "(.arr [" + ", ".join(ljson(x) for x in v) + "])"
    if isinstance(v, dict):
        return "(.obj [" + ", ".join(f"({lstr(k)}, {ljson(x)})" for k, x in v.items()) + "])"
    raise Bad(f"json {type(v).__name__}")


def ltval(tv) -> str:
    if "j" in tv:
        return f"(.leaf {ljson(tv['j'])})"
    if "l" in tv:
        return "(.list [" + ", ".join(ltval(x) for x in tv["l"]) + "])"
    if "d" in tv:
        return "(.dict [" + ", ".join(f"({lstr(k)}, {ltval(x)})" for k, x in tv["d"]) + "])"
    if "m" in tv:
        return f"(.model {lstr(tv['m'])} [" + ", ".join(f"({lstr(k)}, {ltval(x)})" for k, x in tv["f"]) + "])"
    raise Bad("tval")


def tval_is_none(tv) -> bool:
    return tv is None or ("j" in tv and tv["j"] is None)


# ------------------------------------------------------------------------------ Gen/Schemas
def normalise_class(c: dict) -> dict:
    """the part of a class description on which the two backends must agree"""
    return {
        "id": c["id"], "name": c["name"], "module": c["module"], "hooks": c["hooks"],
        "fields": [
            {"name": f["name"], "alias": f["alias"], "required": f["required"], "ty": f["ty"],
             "default_kind": f["default_kind"], "default": f["default"]}
            for f in c["fields"]
        ],
    }


def known_hook_findings() -> list[str]:
    out = []
    for k in core.load_known_findings():
        if k.get("property") == "C09" and k.get("status") == "open" and str(k.get("key", "")).startswith(HOOK_KEY):
            out.append(k["key"][len(HOOK_KEY):])
    return sorted(set(out))


@translate.register("Schemas")
def gen_schemas(src: Path):
    report = {"file": "Gen/Schemas.lean", "untranslatable": []}
    views = load_views()
    fb, pd = views["fallback"], views["pydantic"]
    for v in (fb, pd):
        for m, e in v["import_errors"]:
            report["untranslatable"].append(f"{m}: import failed under {v['backend']} ({e})")
    disagreements = []
    pd_by_id = {c["id"]: c for c in pd["classes"]}
    for c in fb["classes"]:
        o = pd_by_id.get(c["id"])
        if o is None:
            disagreements.append(f"{c['id']}: only under fallback")
        elif normalise_class(c) != normalise_class(o):
            a, b = normalise_class(c), normalise_class(o)
            what = [k for k in a if a[k] != b[k]]
            disagreements.append(f"{c['id']}: {', '.join(what)} differ between backends")
    for cid in pd_by_id:
        if cid not in {c["id"] for c in fb["classes"]}:
            disagreements.append(f"{cid}: only under pydantic")

    rows, vrows = [], []
    for c in fb["classes"]:
        for p in c["problems"]:
            report["untranslatable"].append(f"{c['id']}: {p}")
        frows = []
        for f in c["fields"]:
            where = f"{c['module']}.{c['name']}.{f['name']}"
            if not f["own"]:
                report["untranslatable"].append(f"{where}: inherited field (the fallback validates own annotations only)")
            try:
                t = lty(f["ty"])
            except Bad as ex:
                report["untranslatable"].append(f"{where}: type {ex}")
                t = ".any"
            try:
                d = "none" if tval_is_none(f["default"]) else f"(some {ltval(f['default'])})"
            except Bad as ex:
                report["untranslatable"].append(f"{where}: default {ex}")
                d = "none"
            frows.append(
                f"      {{ name := {lstr(f['name'])}, wire := {lstr(f['alias'] or f['name'])}, ty := {t}, "
                f"required := {lbool(f['required'])}, default := {d} }}"
            )
        rows.append(
            f"  {{ id := {lstr(c['id'])}, pyName := {lstr(c['name'])}, protocol := {lbool(c['protocol'])}, "
            f"hooks := {lstrs(c['hooks'])},\n    fields := [\n" + ",\n".join(frows) + "] }"
        )
        if c["validators"] or pd_by_id.get(c["id"], {}).get("validators"):
            vrows.append(f"  ({lstr(c['id'])}, {lstrs(sorted(set(c['validators']) | set(pd_by_id.get(c['id'], {}).get('validators', []))))})")
    ok = not report["untranslatable"]
    lean = f"""-- GENERATED by verifpy/translate_schema.py from import-time introspection of the package
-- (one subprocess per validation backend). Do not edit.
import Verif.Model.Schema
namespace Verif.Gen.Schemas
open Verif.Model.Schema

/-- `false` when some type expression / default fell outside the translator's subset -/
def translatable : Bool := {lbool(ok)}

/-- both backends expose the same table: classes, field names, aliases, required flags, types, defaults, hooks -/
def schemasAgree : Bool := {lbool(not disagreements)}

/-- hook names each backend calls on construction (observed on a throw-away subclass) -/
def pydanticCalls : List String := {lstrs(pd['hook_calls'])}
def fallbackCalls : List String := {lstrs(fb['hook_calls'])}

/-- class ids listed `open` in known_findings.json under C09 `{HOOK_KEY}<id>` -/
def knownHookFindings : List String := {lstrs(known_hook_findings())}

/-- Pydantic-only `@field_validator` / `@model_validator` methods (recorded; not wire models) -/
def validators : List (String × List String) := [
{(','+chr(10)).join(vrows)}]

def classes : List Class := [
{(','+chr(10)).join(rows)}]

end Verif.Gen.Schemas
"""
    report["classes"] = len(fb["classes"])
    report["disagreements"] = disagreements
    report["hook_calls"] = {"pydantic": pd["hook_calls"], "fallback": fb["hook_calls"]}
    return lean, report


# ------------------------------------------------------------------------------ Gen/DumpSites
class _Module:
    """per-file name resolution: imported names, module-level aliases, class definitions"""

    def __init__(self, path: Path, src_root: Path):
        self.path = path
        rel = path.relative_to(src_root).with_suffix("")
        parts = list(rel.parts)
        if parts[-1] == "__init__":
            parts = parts[:-1]
        self.modname = ".".join(parts)
        self.is_pkg = path.name == "__init__.py"
        self.tree = ast.parse(path.read_text())
        self.imports = {}   # local name -> (module, name)
        self.aliases = {}   # local name -> annotation AST (module-level `X = Union[...]`), last binding wins
        self.classes = set()
        for n in self.tree.body:
            if isinstance(n, ast.ImportFrom):
                base = self._abs(n.module, n.level)
                for a in n.names:
                    self.imports[a.asname or a.name] = (base, a.name)
            elif isinstance(n, ast.Assign) and len(n.targets) == 1 and isinstance(n.targets[0], ast.Name):
                self.aliases[n.targets[0].id] = n.value
                self.classes.discard(n.targets[0].id)
            elif isinstance(n, ast.ClassDef):
                self.classes.add(n.name)
                self.aliases.pop(n.name, None)

    def _abs(self, module, level):
        if not level:
            return module or ""
        pkg = self.modname.split(".")
        if not self.is_pkg:
            pkg = pkg[:-1]
        pkg = pkg[: len(pkg) - (level - 1)] if level > 1 else pkg
        return ".".join(pkg + ([module] if module else []))


class _Resolver:
    def __init__(self, src_root: Path, classes: list[dict]):
        self.src_root = src_root
        self.mods = {}
        self.by_modname = {(c["module"], c["name"]): c["id"] for c in classes}
        for p in sorted(src_root.rglob("*.py")):
            try:
                m = _Module(p, src_root)
            except SyntaxError:
                continue
            self.mods[m.modname] = m

    def name_to_ids(self, mod: _Module, name: str, depth=0) -> set | None:
        """class ids a bare name denotes in `mod` (None = cannot tell)"""
        if depth > 8:
            return None
        if name in mod.classes:
            cid = self.by_modname.get((mod.modname, name))
            return {cid} if cid else set()
        if name in mod.aliases:
            return self.ann_to_ids(mod, mod.aliases[name], depth + 1)
        if name in mod.imports:
            m, n = mod.imports[name]
            if m.split(".")[0] in ("typing", "typing_extensions", "collections", "anyio", "abc"):
                return set()  # not a model class
            target = self.mods.get(m)
            if target is not None:
                r = self.name_to_ids(target, n, depth + 1)
                if r is not None:
                    return r
            # re-exported through a package __init__
            return None
        if name in ("Dict", "dict", "Any", "str", "int", "float", "bool", "List", "list", "None", "bytes", "Callable"):
            return set()
        return None

    def ann_to_ids(self, mod: _Module, e, depth=0) -> set | None:
        """all model classes an annotation expression can denote; None when some part is unknown"""
        if e is None:
            return None
        if isinstance(e, ast.Constant):
            if e.value is None:
                return set()
            if isinstance(e.value, str):
                try:
                    return self.ann_to_ids(mod, ast.parse(e.value, mode="eval").body, depth + 1)
                except SyntaxError:
                    return None
            return set()
        if isinstance(e, ast.Name):
            return self.name_to_ids(mod, e.id, depth)
        if isinstance(e, ast.Attribute):
            return None
        if isinstance(e, ast.Subscript):
            head = e.value.id if isinstance(e.value, ast.Name) else getattr(e.value, "attr", None)
            args = e.slice.elts if isinstance(e.slice, ast.Tuple) else [e.slice]
            if head in ("Literal",):
                return set()
            if head in ("Optional", "Union", "List", "list", "Sequence", "Dict", "dict", "Tuple", "tuple", "Iterable", "Set"):
                out = set()
                for a in args:
                    r = self.ann_to_ids(mod, a, depth + 1)
                    if r is None:
                        return None
                    out |= r
                return out
            return None
        if isinstance(e, ast.BinOp) and isinstance(e.op, ast.BitOr):
            a, b = self.ann_to_ids(mod, e.left, depth + 1), self.ann_to_ids(mod, e.right, depth + 1)
            return None if a is None or b is None else a | b
        return None


def _reach_alias(classes: list[dict]) -> dict:
    """class id -> True when the class or a class reachable through its field types has an aliased field"""
    by_id = {c["id"]: c for c in classes}

    def refs(t, acc):
        if t["k"] == "ref":
            acc.add(t["cls"])
        for k in ("t", "kt"):
            if isinstance(t.get(k), dict):
                refs(t[k], acc)
        for m in t.get("ts", []):
            refs(m, acc)

    direct = {c["id"]: any(f["alias"] and f["alias"] != f["name"] for f in c["fields"]) for c in classes}
    out = {}
    for cid in by_id:
        seen, todo, hit = set(), [cid], False
        while todo:
            x = todo.pop()
            if x in seen or x not in by_id:
                continue
            seen.add(x)
            if direct[x]:
                hit = True
                break
            acc = set()
            for f in by_id[x]["fields"]:
                refs(f["ty"], acc)
            todo += list(acc)
        out[cid] = hit
    return out


DUMP_METHODS = ("model_dump", "model_dump_json", "model_dump_mcp")


def _const_bool(e):
    return isinstance(e, ast.Constant) and e.value is True


def find_dump_sites(src: Path, classes: list[dict]):
    src_root = src.parent  # .../src
    res = _Resolver(src_root, classes)
    reach = _reach_alias(classes)
    sites, notes = [], []
    for modname, mod in sorted(res.mods.items()):
        if not modname.startswith("chuk_mcp"):
            continue
        parents = {}
        for n in ast.walk(mod.tree):
            for ch in ast.iter_child_nodes(n):
                parents[ch] = n
        # indirect form:  m = getattr(x, "model_dump_json", None) ... m(exclude_none=True)
        bound = {}
        for n in ast.walk(mod.tree):
            if (isinstance(n, ast.Assign) and len(n.targets) == 1 and isinstance(n.targets[0], ast.Name)
                    and isinstance(n.value, ast.Call) and isinstance(n.value.func, ast.Name) and n.value.func.id == "getattr"
                    and len(n.value.args) >= 2 and isinstance(n.value.args[1], ast.Constant)
                    and n.value.args[1].value in DUMP_METHODS):
                bound[n.targets[0].id] = (n.value.args[0], n.value.args[1].value)
        for call in ast.walk(mod.tree):
            if not isinstance(call, ast.Call):
                continue
            if isinstance(call.func, ast.Attribute) and call.func.attr in DUMP_METHODS:
                recv, method = call.func.value, call.func.attr
            elif isinstance(call.func, ast.Name) and call.func.id in bound:
                recv, method = bound[call.func.id]
            else:
                continue
            # enclosing function / class chain
            chain, n = [], call
            fn = None
            while n in parents:
                n = parents[n]
                if isinstance(n, (ast.FunctionDef, ast.AsyncFunctionDef)):
                    chain.append(n.name)
                    fn = fn or n
                elif isinstance(n, ast.ClassDef):
                    chain.append(n.name)
            func = ".".join(reversed(chain)) or "<module>"
            by_alias = excl = False
            forwards = False
            dynamic_kw = []
            for kw in call.keywords:
                if kw.arg is None:
                    forwards = True
                elif kw.arg == "by_alias":
                    if isinstance(kw.value, ast.Constant):
                        by_alias = kw.value.value is True
                    else:
                        dynamic_kw.append("by_alias")
                elif kw.arg == "exclude_none":
                    if isinstance(kw.value, ast.Constant):
                        excl = kw.value.value is True
                    else:
                        dynamic_kw.append("exclude_none")
            # does the value stay inside the process?  (argument of a logging call)
            in_log, n = False, call
            while n in parents:
                n = parents[n]
                if (isinstance(n, ast.Call) and isinstance(n.func, ast.Attribute) and isinstance(n.func.value, ast.Name)
                        and n.func.value.id in ("logging", "logger", "log")):
                    in_log = True
                if isinstance(n, (ast.FunctionDef, ast.AsyncFunctionDef)):
                    break
            ids = _receiver_classes(res, mod, fn, recv, parents, call)
            # a method of a model class (the base class itself or an override) implements dumping:
            # whoever calls it decides the flags
            internal = False
            n = call
            while n in parents:
                n = parents[n]
                if isinstance(n, ast.ClassDef):
                    cid = res.by_modname.get((mod.modname, n.name))
                    if cid is not None or n.name == "McpPydanticBase":
                        internal = True
            if dynamic_kw:
                forwards = True  # flags computed by the caller
            site = {
                "file": str(mod.path.relative_to(src_root)), "line": call.lineno, "func": func,
                "method": method, "recv": ast.unparse(recv), "byAlias": by_alias, "exclNone": excl,
                "forwards": forwards or internal, "dynamic": bool(dynamic_kw),
                "classes": sorted(ids) if ids is not None else [], "resolved": ids is not None,
                "classHasAlias": bool(ids) and any(reach.get(i, False) for i in ids),
                "feedsWire": not in_log and not forwards and not internal,
            }
            sites.append(site)
    sites.sort(key=lambda s: (s["file"], s["line"]))
    return sites, notes


def _receiver_classes(res: _Resolver, mod: _Module, fn, recv, parents, call):
    """statically known classes of the receiver expression, or None"""
    if isinstance(recv, ast.Call) and isinstance(recv.func, ast.Name) and recv.func.id == "super":
        return None
    if isinstance(recv, ast.Name) and fn is not None:
        name = recv.id
        # parameter annotation
        allargs = fn.args.posonlyargs + fn.args.args + fn.args.kwonlyargs
        for a in allargs:
            if a.arg == name and a.annotation is not None:
                return res.ann_to_ids(mod, a.annotation)
        # loop variable over an annotated parameter:  for x in param
        for n in ast.walk(fn):
            if isinstance(n, ast.For) and isinstance(n.target, ast.Name) and n.target.id == name and isinstance(n.iter, ast.Name):
                for a in allargs:
                    if a.arg == n.iter.id and a.annotation is not None:
                        return res.ann_to_ids(mod, a.annotation)
        # local assigned from a constructor call / annotated local
        found = None
        for n in ast.walk(fn):
            if isinstance(n, ast.AnnAssign) and isinstance(n.target, ast.Name) and n.target.id == name:
                found = res.ann_to_ids(mod, n.annotation)
            elif isinstance(n, ast.Assign) and any(isinstance(t, ast.Name) and t.id == name for t in n.targets):
                if isinstance(n.value, ast.Call) and isinstance(n.value.func, ast.Name):
                    r = res.name_to_ids(mod, n.value.func.id)
                    if r:
                        found = (found or set()) | r
                    else:
                        return None
                else:
                    return None
        return found
    if (isinstance(recv, ast.Attribute) and isinstance(recv.value, ast.Name) and recv.value.id == "self" and fn is not None):
        # self.attr: look at __init__ of the enclosing class:  self.attr = <param>  with an annotation
        n = fn
        while n in parents and not isinstance(n, ast.ClassDef):
            n = parents[n]
        if isinstance(n, ast.ClassDef):
            for item in n.body:
                if isinstance(item, ast.AnnAssign) and isinstance(item.target, ast.Name) and item.target.id == recv.attr:
                    return res.ann_to_ids(mod, item.annotation)
                if isinstance(item, (ast.FunctionDef, ast.AsyncFunctionDef)) and item.name == "__init__":
                    ann = {a.arg: a.annotation for a in item.args.args + item.args.kwonlyargs}
                    for st in ast.walk(item):
                        if (isinstance(st, ast.Assign) and len(st.targets) == 1 and isinstance(st.targets[0], ast.Attribute)
                                and isinstance(st.targets[0].value, ast.Name) and st.targets[0].value.id == "self"
                                and st.targets[0].attr == recv.attr):
                            v = st.value
                            names = []
                            if isinstance(v, ast.Name):
                                names = [v]
                            elif isinstance(v, ast.BoolOp):
                                names = [x for x in v.values if isinstance(x, ast.Name)]
                            out = set()
                            okk = bool(names)
                            for x in names:
                                r = res.ann_to_ids(mod, ann.get(x.id)) if ann.get(x.id) is not None else None
                                if r is None:
                                    okk = False
                                else:
                                    out |= r
                            if isinstance(v, ast.BoolOp):
                                for x in v.values:
                                    if isinstance(x, ast.Call) and isinstance(x.func, ast.Name):
                                        r = res.name_to_ids(mod, x.func.id)
                                        if r is None:
                                            okk = False
                                        else:
                                            out |= r
                            if okk:
                                return out
        return None
    return None


@translate.register("DumpSites")
def gen_dumpsites(src: Path):
    report = {"file": "Gen/DumpSites.lean", "untranslatable": []}
    views = load_views()
    sites, notes = find_dump_sites(src, views["fallback"]["classes"])
    for n in notes:
        report["untranslatable"].append(n)
    rows = []
    for s in sites:
        rows.append(
            f"  {{ file := {lstr(s['file'])}, line := {s['line']}, func := {lstr(s['func'])}, method := {lstr(s['method'])}, "
            f"recv := {lstr(s['recv'])},\n    byAlias := {lbool(s['byAlias'])}, exclNone := {lbool(s['exclNone'])}, "
            f"forwards := {lbool(s['forwards'])}, resolved := {lbool(s['resolved'])}, classes := {lstrs(s['classes'])},\n"
            f"    classHasAlias := {lbool(s['classHasAlias'])}, feedsWire := {lbool(s['feedsWire'])} }}"
        )
    ok = not report["untranslatable"]
    lean = f"""-- GENERATED by verifpy/translate_schema.py from the AST of every file under src/. Do not edit.
import Verif.Model.Schema
namespace Verif.Gen.DumpSites
open Verif.Model.Schema

def translatable : Bool := {lbool(ok)}

/-- every `.model_dump(` / `.model_dump_json(` call in src/ -/
def sites : List DumpSite := [
{(','+chr(10)).join(rows)}]

end Verif.Gen.DumpSites
"""
    report["sites"] = sites
    return lean, report
