"""Translator generators for C09 / C10 (DESIGN.md 2.2):

* `Gen/Schemas.lean`   — every `McpPydanticBase` subclass reachable from the package (walked by
  import-time introspection in a subprocess per backend, never listed): field names, aliases,
  type expressions, defaults, required flags, which post-init hooks the class defines, which
  hook names each backend calls, whether the two backends expose the same field table.
* `Gen/DumpSites.lean` — every `.model_dump(` / `.model_dump_json(` call in src/ (from the AST):
  keyword arguments, enclosing function, statically resolved receiver classes, whether such a
  class reaches an aliased field, whether the result can reach the wire.

Nothing outside the supported subset is guessed: it is listed in report["untranslatable"] and
the generated file carries `translatable := false` (which breaks `c09_translated` / `c10_translated`).
"""
from __future__ import annotations

import ast
import hashlib
import json
import os
import subprocess
import sys
from pathlib import Path

from . import core, translate

INTROSPECT = Path(__file__).with_name("schema_introspect.py")
HOOK_KEY = "hook-enforced-by-one-backend:"


# ------------------------------------------------------------------------------ introspection
def _src_hash(src_root: Path) -> str:
    h = hashlib.sha1()
    for p in sorted(src_root.rglob("*.py")):
        h.update(str(p.relative_to(src_root)).encode())
        h.update(b"\0")
        h.update(p.read_bytes())
        h.update(b"\0")
    h.update(INTROSPECT.read_bytes())
    return h.hexdigest()[:20]


def backend_env(backend: str, repo: Path | None = None) -> dict:
    env = dict(os.environ)
    env["VERIF_SRC"] = str((repo or core.REPO) / "src")
    # keep what the caller put on the path (coverage's sitecustomize when measuring), our package first
    env["PYTHONPATH"] = os.pathsep.join([str(core.ROOT / "py")] + [p for p in os.environ.get("PYTHONPATH", "").split(os.pathsep) if p])
    env["PYTHONDONTWRITEBYTECODE"] = "1"
    env[core.GUARD] = "1"
    env.pop("MCP_FORCE_FALLBACK", None)
    if backend == "fallback":
        env["MCP_FORCE_FALLBACK"] = "1"
    return env


def introspect(backend: str) -> dict:
    p = subprocess.run([sys.executable, str(INTROSPECT)], env=backend_env(backend), capture_output=True,
                       text=True, timeout=120)
    if p.returncode != 0:
        raise RuntimeError(f"introspection under {backend} failed: {p.stderr[-400:]}")
    return json.loads(p.stdout)


_VIEWS = {}


def load_views() -> dict:
    """{"pydantic": doc, "fallback": doc}; cached on the content hash of src/ (both in-process
    and on disk) so that the other properties' checks do not pay for it."""
    src_root = core.REPO / "src"
    key = _src_hash(src_root)
    if key in _VIEWS:
        return _VIEWS[key]
    cdir = core.LEAN / ".lake" / "verif-cache"
    cfile = cdir / f"schema-views-{key}.json"
    views = None
    if cfile.exists():
        try:
            views = json.loads(cfile.read_text())
        except Exception:
            views = None
    if views is None:
        views = {"pydantic": introspect("pydantic"), "fallback": introspect("fallback")}
        try:
            cdir.mkdir(parents=True, exist_ok=True)
            for old in cdir.glob("schema-views-*.json"):
                old.unlink()
            tmp = cfile.with_suffix(".tmp%d" % os.getpid())
            tmp.write_text(json.dumps(views, sort_keys=True))
            tmp.replace(cfile)
        except OSError:
            pass
    _VIEWS[key] = views
    return views


# ------------------------------------------------------------------------------ Lean printing
def lstr(s: str) -> str:
    out = ['"']
    for ch in s:
        if ch == '"':
            out.append('\\"')
        elif ch == "\\":
            out.append("\\\\")
        elif ch == "\n":
            out.append("\\n")
        elif ch == "\t":
            out.append("\\t")
        elif ord(ch) < 32 or ord(ch) == 127:
            out.append("\\x%02x" % ord(ch))
        else:
            out.append(ch)
    out.append('"')
    return "".join(out)


def lbool(b) -> str:
    return "true" if b else "false"


def lstrs(xs) -> str:
    return "[" + ", ".join(lstr(x) for x in xs) + "]"


class Bad(Exception):
    pass


def lty(t) -> str:
    k = t["k"]
    if k in ("str", "int", "float", "bool", "any"):
        return "." + k
    if k == "lit":
        return f"(.lit {lstrs(t['vals'])})"
    if k == "opt":
        return f"(.opt {lty(t['t'])})"
    if k == "list":
        return f"(.list {lty(t['t'])})"
    if k == "dict":
        if t["kt"]["k"] not in ("str", "any"):
            raise Bad(f"dict key type {t['kt']}")
        return f"(.dict {lty(t['t'])})"
    if k == "union":
        ts = t["ts"]
        if len(ts) < 2:
            raise Bad("degenerate union")
        acc = lty(ts[-1])
        for m in reversed(ts[:-1]):
            acc = f"(.union {lty(m)} {acc})"
        return acc
    if k == "ref":
        return f"(.ref {lstr(t['cls'])})"
    raise Bad(t.get("repr", k))


def ljson(v) -> str:
    if v is None:
        return ".null"
    if isinstance(v, bool):
        return f"(.bool {lbool(v)})"
    if isinstance(v, int):
        return f"(.int ({v}))"
    if isinstance(v, float):
        if v == int(v) and abs(v) < 2**53:
            return f"(.int ({int(v)}))"
        return f"(.flt {lstr(repr(v))})"
    if isinstance(v, str):
        return f"(.str {lstr(v)})"
    if isinstance(v, list):
        return "(.arr [" + ", ".join(ljson(x) for x in v) + "])"
    if isinstance(v, dict):
        return "(.obj [" + ", ".join(f"({lstr(k)}, {ljson(x)})" for k, x in v.items()) + "])"
    raise Bad(f"json {type(v).__name__}")


def ltval(tv) -> str:
    if "j" in tv:
        return f"(.leaf {ljson(tv['j'])})"
    if "l" in tv:
        return "(.list [" + ", ".join(ltval(x) for x in tv["l"]) + "])"
    if "d" in tv:
        return "(.dict [" + ", ".join(f"({lstr(k)}, {ltval(x)})" for k, x in tv["d"]) + "])"
    if "m" in tv:
        return f"(.model {lstr(tv['m'])} [" + ", ".join(f"({lstr(k)}, {ltval(x)})" for k, x in tv["f"]) + "])"
    raise Bad("tval")


def tval_is_none(tv) -> bool:
    return tv is None or ("j" in tv and tv["j"] is None)


# ------------------------------------------------------------------------------ Gen/Schemas
def normalise_class(c: dict) -> dict:
    """the part of a class description on which the two backends must agree"""
    return {
        "id": c["id"], "name": c["name"], "module": c["module"], "hooks": c["hooks"],
        "fields": [
            {"name": f["name"], "alias": f["alias"], "required": f["required"], "ty": f["ty"],
             "default_kind": f["default_kind"], "default": f["default"]}
            for f in c["fields"]
        ],
    }


def known_hook_findings() -> list[str]:
    out = []
    for k in core.load_known_findings():
        if k.get("property") == "C09" and k.get("status") == "open" and str(k.get("key", "")).startswith(HOOK_KEY):
            out.append(k["key"][len(HOOK_KEY):])
    return sorted(set(out))


@translate.register("Schemas")
def gen_schemas(src: Path):
    report = {"file": "Gen/Schemas.lean", "untranslatable": []}
    views = load_views()
    fb, pd = views["fallback"], views["pydantic"]
    for v in (fb, pd):
        for m, e in v["import_errors"]:
            report["untranslatable"].append(f"{m}: import failed under {v['backend']} ({e})")
    disagreements = []
    pd_by_id = {c["id"]: c for c in pd["classes"]}
    for c in fb["classes"]:
        o = pd_by_id.get(c["id"])
        if o is None:
            disagreements.append(f"{c['id']}: only under fallback")
        elif normalise_class(c) != normalise_class(o):
            a, b = normalise_class(c), normalise_class(o)
            what = [k for k in a if a[k] != b[k]]
            disagreements.append(f"{c['id']}: {', '.join(what)} differ between backends")
    for cid in pd_by_id:
        if cid not in {c["id"] for c in fb["classes"]}:
            disagreements.append(f"{cid}: only under pydantic")

    rows, vrows = [], []
    for c in fb["classes"]:
        for p in c["problems"]:
            report["untranslatable"].append(f"{c['id']}: {p}")
        frows = []
        for f in c["fields"]:
            where = f"{c['module']}.{c['name']}.{f['name']}"
            if not f["own"]:
                report["untranslatable"].append(f"{where}: inherited field (the fallback validates own annotations only)")
            try:
                t = lty(f["ty"])
            except Bad as ex:
                report["untranslatable"].append(f"{where}: type {ex}")
                t = ".any"
            try:
                d = "none" if tval_is_none(f["default"]) else f"(some {ltval(f['default'])})"
            except Bad as ex:
                report["untranslatable"].append(f"{where}: default {ex}")
                d = "none"
            frows.append(
                f"      {{ name := {lstr(f['name'])}, wire := {lstr(f['alias'] or f['name'])}, ty := {t}, "
                f"required := {lbool(f['required'])}, default := {d} }}"
            )
        rows.append(
            f"  {{ id := {lstr(c['id'])}, pyName := {lstr(c['name'])}, protocol := {lbool(c['protocol'])}, "
            f"hooks := {lstrs(c['hooks'])},\n    fields := [\n" + ",\n".join(frows) + "] }"
        )
        if c["validators"] or pd_by_id.get(c["id"], {}).get("validators"):
            vrows.append(f"  ({lstr(c['id'])}, {lstrs(sorted(set(c['validators']) | set(pd_by_id.get(c['id'], {}).get('validators', []))))})")
    ok = not report["untranslatable"]
    lean = f"""-- GENERATED by verifpy/translate_schema.py from import-time introspection of the package
-- (one subprocess per validation backend). Do not edit.
import Verif.Model.Schema
namespace Verif.Gen.Schemas
open Verif.Model.Schema

/-- `false` when some type expression / default fell outside the translator's subset -/
def translatable : Bool := {lbool(ok)}

/-- both backends expose the same table: classes, field names, aliases, required flags, types, defaults, hooks -/
def schemasAgree : Bool := {lbool(not disagreements)}

/-- hook names each backend calls on construction (observed on a throw-away subclass) -/
def pydanticCalls : List String := {lstrs(pd['hook_calls'])}
def fallbackCalls : List String := {lstrs(fb['hook_calls'])}

/-- class ids listed `open` in known_findings.json under C09 `{HOOK_KEY}<id>` -/
def knownHookFindings : List String := {lstrs(known_hook_findings())}

/-- Pydantic-only `@field_validator` / `@model_validator` methods (recorded; not wire models) -/
def validators : List (String × List String) := [
{(','+chr(10)).join(vrows)}]

def classes : List Class := [
{(','+chr(10)).join(rows)}]

end Verif.Gen.Schemas
"""
    report["classes"] = len(fb["classes"])
    report["disagreements"] = disagreements
    report["hook_calls"] = {"pydantic": pd["hook_calls"], "fallback": fb["hook_calls"]}
    return lean, report


# ------------------------------------------------------------------------------ Gen/DumpSites
class _Module:
    """per-file name resolution: imported names, module-level aliases, class definitions"""

    def __init__(self, path: Path, src_root: Path):
        self.path = path
        rel = path.relative_to(src_root).with_suffix("")
        parts = list(rel.parts)
        if parts[-1] == "__init__":
            parts = parts[:-1]
        self.modname = ".".join(parts)
        self.is_pkg = path.name == "__init__.py"
        self.tree = ast.parse(path.read_text())
        self.imports = {}   # local name -> (module, name)
        self.aliases = {}   # local name -> annotation AST (module-level `X = Union[...]`), last binding wins
        self.classes = set()
        for n in self.tree.body:
            if isinstance(n, ast.ImportFrom):
                base = self._abs(n.module, n.level)
                for a in n.names:
                    self.imports[a.asname or a.name] = (base, a.name)
            elif isinstance(n, ast.Assign) and len(n.targets) == 1 and isinstance(n.targets[0], ast.Name):
                self.aliases[n.targets[0].id] = n.value
                self.classes.discard(n.targets[0].id)
            elif isinstance(n, ast.ClassDef):
                self.classes.add(n.name)
                self.aliases.pop(n.name, None)

    def _abs(self, module, level):
        if not level:
            return module or ""
        pkg = self.modname.split(".")
        if not self.is_pkg:
            pkg = pkg[:-1]
        pkg = pkg[: len(pkg) - (level - 1)] if level > 1 else pkg
        return ".".join(pkg + ([module] if module else []))


class _Resolver:
    def __init__(self, src_root: Path, classes: list[dict]):
        self.src_root = src_root
        self.mods = {}
        self.by_modname = {(c["module"], c["name"]): c["id"] for c in classes}
        for p in sorted(src_root.rglob("*.py")):
            try:
                m = _Module(p, src_root)
            except SyntaxError:
                continue
            self.mods[m.modname] = m

    def name_to_ids(self, mod: _Module, name: str, depth=0) -> set | None:
        """class ids a bare name denotes in `mod` (None = cannot tell)"""
        if depth > 8:
            return None
        if name in mod.classes:
            cid = self.by_modname.get((mod.modname, name))
            return {cid} if cid else set()
        if name in mod.aliases:
            return self.ann_to_ids(mod, mod.aliases[name], depth + 1)
        if name in mod.imports:
            m, n = mod.imports[name]
            if m.split(".")[0] in ("typing", "typing_extensions", "collections", "anyio", "abc"):
                return set()  # not a model class
            target = self.mods.get(m)
            if target is not None:
                r = self.name_to_ids(target, n, depth + 1)
                if r is not None:
                    return r
            # re-exported through a package __init__
            return None
        if name in ("Dict", "dict", "Any", "str", "int", "float", "bool", "List", "list", "None", "bytes", "Callable"):
            return set()
        return None

    def ann_to_ids(self, mod: _Module, e, depth=0) -> set | None:
        """all model classes an annotation expression can denote; None when some part is unknown"""
        if e is None:
            return None
        if isinstance(e, ast.Constant):
            if e.value is None:
                return set()
            if isinstance(e.value, str):
                try:
                    return self.ann_to_ids(mod, ast.parse(e.value, mode="eval").body, depth + 1)
                except SyntaxError:
                    return None
            return set()
        if isinstance(e, ast.Name):
            return self.name_to_ids(mod, e.id, depth)
        if isinstance(e, ast.Attribute):
            return None
        if isinstance(e, ast.Subscript):
            head = e.value.id if isinstance(e.value, ast.Name) else getattr(e.value, "attr", None)
            args = e.slice.elts if isinstance(e.slice, ast.Tuple) else [e.slice]
            if head in ("Literal",):
                return set()
            if head in ("Optional", "Union", "List", "list", "Sequence", "Dict", "dict", "Tuple", "tuple", "Iterable", "Set"):
                out = set()
                for a in args:
                    r = self.ann_to_ids(mod, a, depth + 1)
                    if r is None:
                        return None
                    out |= r
                return out
            return None
        if isinstance(e, ast.BinOp) and isinstance(e.op, ast.BitOr):
            a, b = self.ann_to_ids(mod, e.left, depth + 1), self.ann_to_ids(mod, e.right, depth + 1)
            return None if a is None or b is None else a | b
        return None


def _reach_alias(classes: list[dict]) -> dict:
    """class id -> True when the class or a class reachable through its field types has an aliased field"""
    by_id = {c["id"]: c for c in classes}

    def refs(t, acc):
        if t["k"] == "ref":
            acc.add(t["cls"])
        for k in ("t", "kt"):
            if isinstance(t.get(k), dict):
                refs(t[k], acc)
        for m in t.get("ts", []):
            refs(m, acc)

    direct = {c["id"]: any(f["alias"] and f["alias"] != f["name"] for f in c["fields"]) for c in classes}
    out = {}
    for cid in by_id:
        seen, todo, hit = set(), [cid], False
        while todo:
            x = todo.pop()
            if x in seen or x not in by_id:
                continue
            seen.add(x)
            if direct[x]:
                hit = True
                break
            acc = set()
            for f in by_id[x]["fields"]:
                refs(f["ty"], acc)
            todo += list(acc)
        out[cid] = hit
    return out


DUMP_METHODS = ("model_dump", "model_dump_json", "model_dump_mcp")


def _const_bool(e):
    return isinstance(e, ast.Constant) and e.value is True


def find_dump_sites(src: Path, classes: list[dict]):
    src_root = src.parent  # .../src
    res = _Resolver(src_root, classes)
    reach = _reach_alias(classes)
    sites, notes = [], []
    for modname, mod in sorted(res.mods.items()):
        if not modname.startswith("chuk_mcp"):
            continue
        parents = {}
        for n in ast.walk(mod.tree):
            for ch in ast.iter_child_nodes(n):
                parents[ch] = n
        # indirect form:  m = getattr(x, "model_dump_json", None) ... m(exclude_none=True)
        bound = {}
        for n in ast.walk(mod.tree):
            if (isinstance(n, ast.Assign) and len(n.targets) == 1 and isinstance(n.targets[0], ast.Name)
                    and isinstance(n.value, ast.Call) and isinstance(n.value.func, ast.Name) and n.value.func.id == "getattr"
                    and len(n.value.args) >= 2 and isinstance(n.value.args[1], ast.Constant)
                    and n.value.args[1].value in DUMP_METHODS):
                bound[n.targets[0].id] = (n.value.args[0], n.value.args[1].value)
        for call in ast.walk(mod.tree):
            if not isinstance(call, ast.Call):
                continue
            if isinstance(call.func, ast.Attribute) and call.func.attr in DUMP_METHODS:
                recv, method = call.func.value, call.func.attr
            elif isinstance(call.func, ast.Name) and call.func.id in bound:
                recv, method = bound[call.func.id]
            else:
                continue
            # enclosing function / class chain
            chain, n = [], call
            fn = None
            while n in parents:
                n = parents[n]
                if isinstance(n, (ast.FunctionDef, ast.AsyncFunctionDef)):
                    chain.append(n.name)
                    fn = fn or n
                elif isinstance(n, ast.ClassDef):
                    chain.append(n.name)
            func = ".".join(reversed(chain)) or "<module>"
            by_alias = excl = False
            forwards = False
            dynamic_kw = []
            for kw in call.keywords:
                if kw.arg is None:
                    forwards = True
                elif kw.arg == "by_alias":
                    if isinstance(kw.value, ast.Constant):
                        by_alias = kw.value.value is True
                    else:
                        dynamic_kw.append("by_alias")
                elif kw.arg == "exclude_none":
                    if isinstance(kw.value, ast.Constant):
                        excl = kw.value.value is True
                    else:
                        dynamic_kw.append("exclude_none")
            # does the value stay inside the process?  (argument of a logging call)
            in_log, n = False, call
            while n in parents:
                n = parents[n]
                if (isinstance(n, ast.Call) and isinstance(n.func, ast.Attribute) and isinstance(n.func.value, ast.Name)
                        and n.func.value.id in ("logging", "logger", "log")):
                    in_log = True
                if isinstance(n, (ast.FunctionDef, ast.AsyncFunctionDef)):
                    break
            ids = _receiver_classes(res, mod, fn, recv, parents, call)
            # a method of a model class (the base class itself or an override) implements dumping:
            # whoever calls it decides the flags
            internal = False
            n = call
            while n in parents:
                n = parents[n]
                if isinstance(n, ast.ClassDef):
                    cid = res.by_modname.get((mod.modname, n.name))
                    if cid is not None or n.name == "McpPydanticBase":
                        internal = True
            if dynamic_kw:
                forwards = True  # flags computed by the caller
            site = {
                "file": str(mod.path.relative_to(src_root)), "line": call.lineno, "func": func,
                "method": method, "recv": ast.unparse(recv), "byAlias": by_alias, "exclNone": excl,
                "forwards": forwards or internal, "dynamic": bool(dynamic_kw),
                "classes": sorted(ids) if ids is not None else [], "resolved": ids is not None,
                "classHasAlias": bool(ids) and any(reach.get(i, False) for i in ids),
                "feedsWire": not in_log and not forwards and not internal,
            }
            sites.append(site)
    sites.sort(key=lambda s: (s["file"], s["line"]))
    return sites, notes


def _receiver_classes(res: _Resolver, mod: _Module, fn, recv, parents, call):
    """statically known classes of the receiver expression, or None"""
    if isinstance(recv, ast.Call) and isinstance(recv.func, ast.Name) and recv.func.id == "super":
        return None
    if isinstance(recv, ast.Name) and fn is not None:
        name = recv.id
        # parameter annotation
        allargs = fn.args.posonlyargs + fn.args.args + fn.args.kwonlyargs
        for a in allargs:
            if a.arg == name and a.annotation is not None:
                return res.ann_to_ids(mod, a.annotation)
        # loop variable over an annotated parameter:  for x in param
        for n in ast.walk(fn):
            if isinstance(n, ast.For) and isinstance(n.target, ast.Name) and n.target.id == name and isinstance(n.iter, ast.Name):
                for a in allargs:
                    if a.arg == n.iter.id and a.annotation is not None:
                        return res.ann_to_ids(mod, a.annotation)
        # local assigned from a constructor call / annotated local
        found = None
        for n in ast.walk(fn):
            if isinstance(n, ast.AnnAssign) and isinstance(n.target, ast.Name) and n.target.id == name:
                found = res.ann_to_ids(mod, n.annotation)
            elif isinstance(n, ast.Assign) and any(isinstance(t, ast.Name) and t.id == name for t in n.targets):
                if isinstance(n.value, ast.Call) and isinstance(n.value.func, ast.Name):
                    r = res.name_to_ids(mod, n.value.func.id)
                    if r:
                        found = (found or set()) | r
                    else:
                        return None
                else:
                    return None
        return found
    if (isinstance(recv, ast.Attribute) and isinstance(recv.value, ast.Name) and recv.value.id == "self" and fn is not None):
        # self.attr: look at __init__ of the enclosing class:  self.attr = <param>  with an annotation
        n = fn
        while n in parents and not isinstance(n, ast.ClassDef):
            n = parents[n]
        if isinstance(n, ast.ClassDef):
            for item in n.body:
                if isinstance(item, ast.AnnAssign) and isinstance(item.target, ast.Name) and item.target.id == recv.attr:
                    return res.ann_to_ids(mod, item.annotation)
                if isinstance(item, (ast.FunctionDef, ast.AsyncFunctionDef)) and item.name == "__init__":
                    ann = {a.arg: a.annotation for a in item.args.args + item.args.kwonlyargs}
                    for st in ast.walk(item):
                        if (isinstance(st, ast.Assign) and len(st.targets) == 1 and isinstance(st.targets[0], ast.Attribute)
                                and isinstance(st.targets[0].value, ast.Name) and st.targets[0].value.id == "self"
                                and st.targets[0].attr == recv.attr):
                            v = st.value
                            names = []
                            if isinstance(v, ast.Name):
                                names = [v]
                            elif isinstance(v, ast.BoolOp):
                                names = [x for x in v.values if isinstance(x, ast.Name)]
                            out = set()
                            okk = bool(names)
                            for x in names:
                                r = res.ann_to_ids(mod, ann.get(x.id)) if ann.get(x.id) is not None else None
                                if r is None:
                                    okk = False
                                else:
                                    out |= r
                            if isinstance(v, ast.BoolOp):
                                for x in v.values:
                                    if isinstance(x, ast.Call) and isinstance(x.func, ast.Name):
                                        r = res.name_to_ids(mod, x.func.id)
                                        if r is None:
                                            okk = False
                                        else:
                                            out |= r
                            if okk:
                                return out
        return None
    return None


@translate.register("DumpSites")
def gen_dumpsites(src: Path):
    report = {"file": "Gen/DumpSites.lean", "untranslatable": []}
    views = load_views()
    sites, notes = find_dump_sites(src, views["fallback"]["classes"])
    for n in notes:
        report["untranslatable"].append(n)
    rows = []
    for s in sites:
        rows.append(
            f"  {{ file := {lstr(s['file'])}, line := {s['line']}, func := {lstr(s['func'])}, method := {lstr(s['method'])}, "
            f"recv := {lstr(s['recv'])},\n    byAlias := {lbool(s['byAlias'])}, exclNone := {lbool(s['exclNone'])}, "
            f"forwards := {lbool(s['forwards'])}, resolved := {lbool(s['resolved'])}, classes := {lstrs(s['classes'])},\n"
            f"    classHasAlias := {lbool(s['classHasAlias'])}, feedsWire := {lbool(s['feedsWire'])} }}"
        )
    ok = not report["untranslatable"]
    lean = f"""-- GENERATED by verifpy/translate_schema.py from the AST of every file under src/. Do not edit.
import Verif.Model.Schema
namespace Verif.Gen.DumpSites
open Verif.Model.Schema

def translatable : Bool := {lbool(ok)}

/-- every `.model_dump(` / `.model_dump_json(` call in src/ -/
def sites : List DumpSite := [
{(','+chr(10)).join(rows)}]

end Verif.Gen.DumpSites
"""
    report["sites"] = sites
    return lean, report


# ------------------------------------------------------------------------------ Gen/Builders
class _NoBuild(Exception):
    pass


def _lean_bkey(k):
    return f"(.lit {lstr(k[1])})" if k[0] == "lit" else f"(.param {lstr(k[1])})"


def _lean_bexpr(e):
    k = e[0]
    if k == "param":
        return f"(.param {lstr(e[1])})"
    if k == "const":
        return f"(.const {ljson(e[1])})"
    if k == "list":
        return "(.list [" + ", ".join(_lean_bexpr(x) for x in e[1]) + "])"
    if k == "dict":
        return "(.dict [" + ", ".join(f"({_lean_bkey(kk)}, {_lean_bexpr(v)})" for kk, v in e[1]) + "])"
    if k == "model":
        return f"(.model {lstr(e[1])} [" + ", ".join(f"({lstr(a)}, {_lean_bexpr(v)})" for a, v in e[2]) + "])"
    if k == "orElse":
        return f"(.orElse {_lean_bexpr(e[1])} {_lean_bexpr(e[2])})"
    if k == "ite":
        return f"(.ite {_lean_bcond(e[1])} {_lean_bexpr(e[2])} {_lean_bexpr(e[3])})"
    raise Bad(k)


def _lean_bcond(c):
    return f"(.{c[0]} {lstr(c[1])})"


def _lean_bstmt(s):
    if s[0] == "assign":
        return f"(.assign {lstr(s[1])} {_lean_bexpr(s[2])})"
    if s[0] == "assignIf":
        return f"(.assignIf {_lean_bcond(s[1])} {lstr(s[2])} {_lean_bexpr(s[3])})"
    if s[0] == "setKeyIf":
        return f"(.setKeyIf {_lean_bcond(s[1])} {lstr(s[2])} {_lean_bkey(s[3])} {_lean_bexpr(s[4])})"
    raise Bad(s[0])


class _BuilderTranslator:
    """`create_*` helpers whose body is straight-line construction: single assignments of locals,
    `if <param> [is (not) None]:` guarding ONE assignment or ONE `d[key] = …`, and a `return` of a
    constructor call / dict / local.  Expressions: parameters, locals, constants, list and dict
    displays, `a or b`, `Class(kw=…)`, `cls(kw=…)` in a classmethod, calls of other translatable
    helpers (inlined).  Anything else is reported as skipped — never guessed."""

    def __init__(self, res: _Resolver):
        self.res = res
        self.funcs = {}  # (modname, qual) -> (mod, FunctionDef, owner class name | None)
        for modname, mod in res.mods.items():
            if not modname.startswith("chuk_mcp.protocol"):
                continue
            for n in mod.tree.body:
                if isinstance(n, ast.FunctionDef):
                    self.funcs[(modname, n.name)] = (mod, n, None)
                if isinstance(n, ast.ClassDef):
                    for m in n.body:
                        if isinstance(m, ast.FunctionDef) and m.name.startswith("create_") and any(
                                isinstance(d, ast.Name) and d.id == "classmethod" for d in m.decorator_list):
                            self.funcs[(modname, f"{n.name}.{m.name}")] = (mod, m, n.name)
        self.cache = {}
        self.fresh = 0

    def find_function(self, mod, fn, name):
        """a helper called by bare name: same module, a module-level import, or an import inside the function"""
        if (mod.modname, name) in self.funcs:
            return (mod.modname, name)
        imps = dict(mod.imports)
        for st in ast.walk(fn):
            if isinstance(st, ast.ImportFrom):
                base = mod._abs(st.module, st.level)
                for a in st.names:
                    imps[a.asname or a.name] = (base, a.name)
        if name in imps:
            m, n = imps[name]
            if (m, n) in self.funcs:
                return (m, n)
        return None

    def expr(self, mod, fn, owner, e, scope, subst, pre=None):
        if isinstance(e, ast.Constant):
            if e.value is None or isinstance(e.value, (bool, int, float, str)):
                return ("const", e.value)
            raise _NoBuild("constant " + type(e.value).__name__)
        if isinstance(e, ast.Name):
            if e.id in subst:
                return subst[e.id]
            if e.id in scope:
                return ("param", e.id)
            raise _NoBuild(f"free name {e.id}")
        if isinstance(e, ast.List):
            return ("list", [self.expr(mod, fn, owner, x, scope, subst, pre) for x in e.elts])
        if isinstance(e, ast.Dict):
            kvs = []
            for k, v in zip(e.keys, e.values):
                kvs.append((self.key(k, scope, subst), self.expr(mod, fn, owner, v, scope, subst, pre)))
            return ("dict", kvs)
        if isinstance(e, ast.BoolOp) and isinstance(e.op, ast.Or) and len(e.values) == 2:
            return ("orElse", self.expr(mod, fn, owner, e.values[0], scope, subst, pre),
                    self.expr(mod, fn, owner, e.values[1], scope, subst, pre))
        if isinstance(e, ast.IfExp):
            # both arms are evaluated by the translator, so neither may need statements of its own
            return ("ite", self.cond(e.test, scope), self.expr(mod, fn, owner, e.body, scope, subst, None),
                    self.expr(mod, fn, owner, e.orelse, scope, subst, None))
        if isinstance(e, ast.Call) and isinstance(e.func, ast.Name) and not e.args or (
                isinstance(e, ast.Call) and isinstance(e.func, ast.Name)):
            name = e.func.id
            if any(kw.arg is None for kw in e.keywords):
                raise _NoBuild("**kwargs")
            if name == "cls" and owner is not None:
                ids = self.res.name_to_ids(mod, owner)
            else:
                ids = self.res.name_to_ids(mod, name) if name not in ("dict", "list", "str") else None
            if ids and len(ids) == 1:
                if e.args:
                    raise _NoBuild("positional constructor arguments")
                return ("model", next(iter(ids)), [(kw.arg, self.expr(mod, fn, owner, kw.value, scope, subst, pre)) for kw in e.keywords])
            target = self.find_function(mod, fn, name)
            if target is not None:
                b = self.translate(*target)
                actual = {}
                for (pn, _d), a in zip(b["params"], e.args):
                    actual[pn] = self.expr(mod, fn, owner, a, scope, subst, pre)
                for kw in e.keywords:
                    actual[kw.arg] = self.expr(mod, fn, owner, kw.value, scope, subst, pre)
                for pn, d in b["params"]:
                    if pn not in actual:
                        if d is _REQUIRED:
                            raise _NoBuild(f"call of {name} without {pn}")
                        actual[pn] = ("const", d)
                if not b["body"]:
                    return _subst_expr(b["ret"], actual)
                # the callee has statements: inline them under fresh names, arguments bound first
                if pre is None:
                    raise _NoBuild(f"call of {name} (which has statements) in a conditional position")
                self.fresh += 1
                pfx = f"{name}#{self.fresh}."
                names = {pn for pn, _ in b["params"]} | {st[1] if st[0] == "assign" else st[2] for st in b["body"]}
                ren = {n: pfx + n for n in names}
                for pn, _ in b["params"]:
                    pre.append(("assign", ren[pn], actual[pn]))
                for st in b["body"]:
                    pre.append(_rename_stmt(st, ren))
                scope.update(ren.values())
                return _rename_expr(b["ret"], ren)
            raise _NoBuild(f"call of {name}")
        raise _NoBuild(type(e).__name__)

    def key(self, k, scope, subst):
        if isinstance(k, ast.Constant) and isinstance(k.value, str):
            return ("lit", k.value)
        if isinstance(k, ast.Name) and k.id in scope and k.id not in subst:
            return ("param", k.id)
        raise _NoBuild("dict key")

    def cond(self, t, scope):
        if isinstance(t, ast.Name) and t.id in scope:
            return ("truthy", t.id)
        if (isinstance(t, ast.Compare) and isinstance(t.left, ast.Name) and t.left.id in scope and len(t.ops) == 1
                and isinstance(t.comparators[0], ast.Constant) and t.comparators[0].value is None):
            if isinstance(t.ops[0], ast.IsNot):
                return ("notNone", t.left.id)
            if isinstance(t.ops[0], ast.Is):
                return ("isNone", t.left.id)
        raise _NoBuild("condition")

    def simple_stmt(self, mod, fn, owner, st, scope, pre=None):
        """-> ("assign", x, e) | ("setKey", x, key, e)"""
        if isinstance(st, ast.AnnAssign) and isinstance(st.target, ast.Name) and st.value is not None:
            return ("assign", st.target.id, self.expr(mod, fn, owner, st.value, scope, {}, pre))
        if isinstance(st, ast.Assign) and len(st.targets) == 1:
            t = st.targets[0]
            if isinstance(t, ast.Name):
                return ("assign", t.id, self.expr(mod, fn, owner, st.value, scope, {}, pre))
            if isinstance(t, ast.Subscript) and isinstance(t.value, ast.Name) and t.value.id in scope:
                return ("setKey", t.value.id, self.key(t.slice, scope, {}), self.expr(mod, fn, owner, st.value, scope, {}, pre))
        raise _NoBuild(type(st).__name__)

    def translate(self, modname, qual):
        if (modname, qual) in self.cache:
            r = self.cache[(modname, qual)]
            if isinstance(r, _NoBuild):
                raise r
            return r
        try:
            r = self._translate(modname, qual)
        except _NoBuild as ex:
            self.cache[(modname, qual)] = ex
            raise
        self.cache[(modname, qual)] = r
        return r

    def _translate(self, modname, qual):
        mod, fn, owner = self.funcs[(modname, qual)]
        a = fn.args
        if a.vararg or a.kwarg or a.posonlyargs or a.kwonlyargs:
            raise _NoBuild("signature")
        names = [x.arg for x in a.args]
        if owner is not None:
            names = names[1:]
        defaults = [_REQUIRED] * (len(names) - len(a.defaults)) + [self._default(d) for d in a.defaults]
        scope = set(names)
        body, ret = [], None
        for st in fn.body:
            if isinstance(st, ast.Expr) and isinstance(st.value, ast.Constant):
                continue
            if isinstance(st, (ast.Import, ast.ImportFrom)):
                continue
            if ret is not None:
                raise _NoBuild("code after return")
            if isinstance(st, ast.Return) and st.value is not None:
                ret = self.expr(mod, fn, owner, st.value, scope, {}, body)
                continue
            if isinstance(st, ast.If) and not st.orelse and len(st.body) == 1:
                c = self.cond(st.test, scope)
                s = self.simple_stmt(mod, fn, owner, st.body[0], scope)
                if s[0] == "assign":
                    if s[1] not in scope:
                        raise _NoBuild("conditional definition of a new local")
                    body.append(("assignIf", c, s[1], s[2]))
                else:
                    body.append(("setKeyIf", c, s[1], s[2], s[3]))
                continue
            s = self.simple_stmt(mod, fn, owner, st, scope, body)
            if s[0] != "assign":
                raise _NoBuild("unconditional item assignment")
            body.append(s)
            scope.add(s[1])
        if ret is None:
            raise _NoBuild("no return")
        return {"module": modname, "qual": qual, "params": list(zip(names, defaults)), "body": body, "ret": ret}

    @staticmethod
    def _default(d):
        if isinstance(d, ast.Constant) and (d.value is None or isinstance(d.value, (bool, int, float, str))):
            return d.value
        raise _NoBuild("default value")


_REQUIRED = object()


def _rename_key(k, ren):
    return ("param", ren.get(k[1], k[1])) if k[0] == "param" else k


def _rename_cond(c, ren):
    return (c[0], ren.get(c[1], c[1]))


def _rename_expr(e, ren):
    k = e[0]
    if k == "param":
        return ("param", ren.get(e[1], e[1]))
    if k == "const":
        return e
    if k == "list":
        return ("list", [_rename_expr(x, ren) for x in e[1]])
    if k == "dict":
        return ("dict", [(_rename_key(kk, ren), _rename_expr(v, ren)) for kk, v in e[1]])
    if k == "model":
        return ("model", e[1], [(a, _rename_expr(v, ren)) for a, v in e[2]])
    if k == "orElse":
        return ("orElse", _rename_expr(e[1], ren), _rename_expr(e[2], ren))
    if k == "ite":
        return ("ite", _rename_cond(e[1], ren), _rename_expr(e[2], ren), _rename_expr(e[3], ren))
    raise _NoBuild(k)


def _rename_stmt(st, ren):
    if st[0] == "assign":
        return ("assign", ren.get(st[1], st[1]), _rename_expr(st[2], ren))
    if st[0] == "assignIf":
        return ("assignIf", _rename_cond(st[1], ren), ren.get(st[2], st[2]), _rename_expr(st[3], ren))
    if st[0] == "setKeyIf":
        return ("setKeyIf", _rename_cond(st[1], ren), ren.get(st[2], st[2]), _rename_key(st[3], ren), _rename_expr(st[4], ren))
    raise _NoBuild(st[0])


def _subst_expr(e, actual):
    k = e[0]
    if k == "param":
        return actual[e[1]]
    if k == "const":
        return e
    if k == "list":
        return ("list", [_subst_expr(x, actual) for x in e[1]])
    if k == "dict":
        out = []
        for kk, v in e[1]:
            if kk[0] == "param":
                a = actual[kk[1]]
                if a[0] == "const" and isinstance(a[1], str):
                    kk = ("lit", a[1])
                elif a[0] == "param":
                    kk = ("param", a[1])
                else:
                    raise _NoBuild("computed dict key")
            out.append((kk, _subst_expr(v, actual)))
        return ("dict", out)
    if k == "model":
        return ("model", e[1], [(a, _subst_expr(v, actual)) for a, v in e[2]])
    if k == "orElse":
        return ("orElse", _subst_expr(e[1], actual), _subst_expr(e[2], actual))
    if k == "ite":
        a = actual[e[1][1]]
        if a[0] != "param":
            raise _NoBuild("condition on a computed argument")
        return ("ite", (e[1][0], a[1]), _subst_expr(e[2], actual), _subst_expr(e[3], actual))
    raise _NoBuild(k)


def find_builders(src: Path, classes):
    res = _Resolver(src.parent, classes)
    tr = _BuilderTranslator(res)
    built, skipped = [], []
    for (modname, qual) in sorted(tr.funcs):
        if not qual.split(".")[-1].startswith("create_"):
            continue
        try:
            built.append(tr.translate(modname, qual))
        except _NoBuild as ex:
            skipped.append((modname, qual, str(ex)))
    return built, skipped


def _module_const(mod: _Module, e):
    """a string constant, directly or through a module-level name"""
    if isinstance(e, ast.Constant) and isinstance(e.value, str):
        return e.value
    if isinstance(e, ast.Name) and e.id in mod.aliases:
        v = mod.aliases[e.id]
        if isinstance(v, ast.Constant) and isinstance(v.value, str):
            return v.value
    return None


def _parse_table_loop(res, mod, fn, data, stmts):
    """tag = data.get("<member>");  for t, model in TABLE: if tag == t: return model.model_validate(data);  raise
    with TABLE a module-level tuple/list of (tag, Class) pairs"""
    a, loop = stmts[0], stmts[1]
    v = a.value
    if not (isinstance(a.targets[0], ast.Name) and isinstance(v, ast.Call) and isinstance(v.func, ast.Attribute)
            and v.func.attr == "get" and isinstance(v.func.value, ast.Name) and v.func.value.id == data
            and len(v.args) == 1 and isinstance(v.args[0], ast.Constant)):
        return None
    tagvar, member = a.targets[0].id, v.args[0].value
    if not (isinstance(loop.target, ast.Tuple) and len(loop.target.elts) == 2 and all(isinstance(x, ast.Name) for x in loop.target.elts)
            and isinstance(loop.iter, ast.Name) and loop.iter.id in mod.aliases and not loop.orelse and len(loop.body) == 1):
        return None
    tn, mn = loop.target.elts[0].id, loop.target.elts[1].id
    st = loop.body[0]
    if not (isinstance(st, ast.If) and not st.orelse and len(st.body) == 1 and isinstance(st.test, ast.Compare)
            and len(st.test.ops) == 1 and isinstance(st.test.ops[0], ast.Eq)):
        return None
    names = {getattr(st.test.left, "id", None), getattr(st.test.comparators[0], "id", None)}
    r = st.body[0]
    if names != {tagvar, tn} or not (
            isinstance(r, ast.Return) and isinstance(r.value, ast.Call) and isinstance(r.value.func, ast.Attribute)
            and r.value.func.attr == "model_validate" and isinstance(r.value.func.value, ast.Name) and r.value.func.value.id == mn
            and len(r.value.args) == 1 and isinstance(r.value.args[0], ast.Name) and r.value.args[0].id == data):
        return None
    tbl = mod.aliases[loop.iter.id]
    if not isinstance(tbl, (ast.Tuple, ast.List)):
        return None
    table = []
    for row in tbl.elts:
        if not (isinstance(row, ast.Tuple) and len(row.elts) == 2 and isinstance(row.elts[1], ast.Name)):
            return None
        tag = _module_const(mod, row.elts[0])
        ids = res.name_to_ids(mod, row.elts[1].id)
        if tag is None or not ids or len(ids) != 1:
            return None
        table.append((tag, next(iter(ids))))
    return {"module": mod.modname, "qual": fn.name, "member": member, "table": table} if table else None


def find_parse_tables(src: Path, classes):
    """`parse_*` helpers that dispatch on a member of the wire object:
        tag = data.get("<member>");  if tag == "<const>": return Class.model_validate(data)  elif …  else: raise
    -> [{"module","qual","member","table":[(const, class id)]}]"""
    res = _Resolver(src.parent, classes)
    out = []
    for modname, mod in sorted(res.mods.items()):
        if not modname.startswith("chuk_mcp.protocol"):
            continue
        for fn in mod.tree.body:
            if not (isinstance(fn, ast.FunctionDef) and fn.name.startswith("parse_") and len(fn.args.args) == 1):
                continue
            data = fn.args.args[0].arg
            stmts = [s for s in fn.body if not (isinstance(s, ast.Expr) and isinstance(s.value, ast.Constant))]
            if len(stmts) == 3 and isinstance(stmts[0], ast.Assign) and isinstance(stmts[1], ast.For) and isinstance(stmts[2], ast.Raise):
                t = _parse_table_loop(res, mod, fn, data, stmts)
                if t is not None:
                    out.append(t)
                continue
            if len(stmts) != 2 or not isinstance(stmts[0], ast.Assign) or not isinstance(stmts[1], ast.If):
                continue
            a = stmts[0]
            v = a.value
            if not (isinstance(a.targets[0], ast.Name) and isinstance(v, ast.Call) and isinstance(v.func, ast.Attribute)
                    and v.func.attr == "get" and isinstance(v.func.value, ast.Name) and v.func.value.id == data
                    and len(v.args) == 1 and isinstance(v.args[0], ast.Constant)):
                continue
            tagvar, member = a.targets[0].id, v.args[0].value
            table, node, ok = [], stmts[1], True
            while isinstance(node, ast.If):
                t = node.test
                r = node.body[0] if len(node.body) == 1 else None
                if not (isinstance(t, ast.Compare) and isinstance(t.left, ast.Name) and t.left.id == tagvar and len(t.ops) == 1
                        and isinstance(t.ops[0], ast.Eq) and isinstance(t.comparators[0], ast.Constant)
                        and isinstance(r, ast.Return) and isinstance(r.value, ast.Call)
                        and isinstance(r.value.func, ast.Attribute) and r.value.func.attr == "model_validate"
                        and isinstance(r.value.func.value, ast.Name) and len(r.value.args) == 1
                        and isinstance(r.value.args[0], ast.Name) and r.value.args[0].id == data):
                    ok = False
                    break
                ids = res.name_to_ids(mod, r.value.func.value.id)
                if not ids or len(ids) != 1:
                    ok = False
                    break
                table.append((t.comparators[0].value, next(iter(ids))))
                if len(node.orelse) == 1 and isinstance(node.orelse[0], ast.If):
                    node = node.orelse[0]
                else:
                    if not (len(node.orelse) == 1 and isinstance(node.orelse[0], ast.Raise)):
                        ok = False
                    break
            if ok and table:
                out.append({"module": modname, "qual": fn.name, "member": member, "table": table})
    return out


@translate.register("Builders")
def gen_builders(src: Path):
    report = {"file": "Gen/Builders.lean", "untranslatable": []}
    views = load_views()
    classes = views["fallback"]["classes"]
    built, skipped = find_builders(src, classes)
    parsers = find_parse_tables(src, classes)
    rows = []
    for b in built:
        try:
            params = ", ".join(
                f"({lstr(n)}, {'none' if d is _REQUIRED else '(some ' + ljson(d) + ')'})" for n, d in b["params"])
            body = ", ".join(_lean_bstmt(s) for s in b["body"])
            rows.append(f"  {{ module := {lstr(b['module'])}, name := {lstr(b['qual'])},\n    params := [{params}],\n"
                        f"    body := [{body}],\n    ret := {_lean_bexpr(b['ret'])} }}")
        except Bad as ex:
            skipped.append((b["module"], b["qual"], f"value {ex}"))
    prow = []
    for p in parsers:
        tbl = ", ".join(f"({lstr(str(c))}, {lstr(cid)})" for c, cid in p["table"])
        prow.append(f"  {{ module := {lstr(p['module'])}, name := {lstr(p['qual'])}, member := {lstr(p['member'])}, table := [{tbl}] }}")
    srows = [f"  ({lstr(m + '.' + q)}, {lstr(why)})" for m, q, why in skipped]
    lean = f"""-- GENERATED by verifpy/translate_schema.py from the AST of the `create_*` / `parse_*` helpers of
-- chuk_mcp.protocol. Do not edit.
import Verif.Model.Schema
namespace Verif.Gen.Builders
open Verif.Model.Schema

def translatable : Bool := true

/-- `create_*` helpers whose body is straight-line construction (see `_BuilderTranslator`) -/
def builders : List Builder := [
{(','+chr(10)).join(rows)}]

/-- `parse_*` helpers that dispatch on a member of the wire object -/
def parsers : List ParseTable := [
{(','+chr(10)).join(prow)}]

/-- helpers outside the translator's subset (branching on types, comprehensions, uuid, os): tied by the
two-backend correspondence of the `constructors` suite only -/
def skipped : List (String × String) := [
{(','+chr(10)).join(srows)}]

end Verif.Gen.Builders
"""
    report["builders"] = [(b["module"], b["qual"]) for b in built]
    report["skipped"] = skipped
    report["parsers"] = parsers
    return lean, report
