"""Harness for the high-level client (`chuk_mcp.client.client.MCPClient`): consecutive calls of one
client over ONE connection (a transport whose streams are memory streams with a scripted, reactive
peer) under the virtual-time loop.  The peer's script is keyed on the requests the client writes:
when a request goes out, the events scripted for it are scheduled `delay` ticks later.  What was
injected (absolute tick, message, in injection order) IS the connection's read stream; the model
(`Verif.Model.ClientApi.clientSeq`) is run on exactly that stream."""
from __future__ import annotations

import inspect
import math

from . import vloop
from . import await_h as H

# op -> (call on the client, wire method, expected params of the request, payload(k), marker(result))
def _get(x, name):
    """attribute of a typed object or member of a plain dict (either is a faithful view of the payload)"""
    if isinstance(x, dict):
        return x.get(name)
    return getattr(x, name, None)


def _tool(k):
    return {"name": f"t{k}", "description": "d", "inputSchema": {"type": "object", "properties": {}}}


OPS = {
    "list_tools": dict(method="tools/list", call=lambda c: c.list_tools(), params=None,
                       payload=lambda k: dict({"tools": [_tool(k)]}, **({"nextCursor": f"page-{k}"} if k % 2 else {})),
                       marker=lambda r: [_get(t, "name") for t in r]),
    "call_tool": dict(method="tools/call", call=lambda c: c.call_tool("thing", {"x": 1}), params={"name": "thing", "arguments": {"x": 1}},
                      payload=lambda k: {"content": [{"type": "text", "text": f"t{k}"}], "isError": False},
                      marker=lambda r: [_get(x, "text") for x in _get(r, "content")]),
    "list_resources": dict(method="resources/list", call=lambda c: c.list_resources(), params=None,
                           payload=lambda k: dict({"resources": [{"uri": "file:///a", "name": f"t{k}"}]}, **({"nextCursor": f"page-{k}"} if k % 2 else {})),
                           marker=lambda r: [_get(x, "name") for x in r]),
    "read_resource": dict(method="resources/read", call=lambda c: c.read_resource("file:///a/b.txt"), params={"uri": "file:///a/b.txt"},
                          payload=lambda k: {"contents": [{"uri": "file:///a/b.txt", "text": f"t{k}"}]},
                          marker=lambda r: [_get(x, "text") for x in _get(r, "contents")]),
    "list_prompts": dict(method="prompts/list", call=lambda c: c.list_prompts(), params=None,
                         payload=lambda k: dict({"prompts": [{"name": f"t{k}"}]}, **({"nextCursor": f"page-{k}"} if k % 2 else {})),
                         marker=lambda r: [_get(x, "name") for x in r]),
    "get_prompt": dict(method="prompts/get", call=lambda c: c.get_prompt("p", {"a": "b"}), params={"name": "p", "arguments": {"a": "b"}},
                       payload=lambda k: {"messages": [{"role": "user", "content": {"type": "text", "text": f"t{k}"}}]},
                       marker=lambda r: [_get(_get(m, "content"), "text") for m in _get(r, "messages")]),
}


def init_payload(k, version, shape="ok"):
    p = {"protocolVersion": version, "capabilities": {}, "serverInfo": {"name": f"t{k}", "version": "1"}}
    if shape == "no-server-info":
        del p["serverInfo"]
    return p


def payload_marker(p):
    """the marker `t<k>` a scripted payload carries (any of the shapes above)"""
    if not isinstance(p, dict):
        return None
    if "serverInfo" in p and isinstance(p["serverInfo"], dict):
        return [p["serverInfo"].get("name")]
    for key, f in (("tools", "name"), ("resources", "name"), ("prompts", "name")):
        if key in p:
            return [x.get(f) for x in p[key]]
    if "content" in p:
        return [x.get("text") for x in p["content"]]
    if "contents" in p:
        return [x.get("text") for x in p["contents"]]
    if "messages" in p:
        return [m["content"].get("text") for m in p["messages"]]
    return None


def defaults():
    """ticks of the default timeouts the client's calls run with, and the library's version list"""
    from chuk_mcp.protocol.messages import send_initialize
    from chuk_mcp.protocol.messages import send_message as _pkg  # noqa: F401
    from chuk_mcp.protocol.messages.send_message import send_message
    import chuk_mcp.protocol.messages as M
    from chuk_mcp.protocol.types.versioning import SUPPORTED_VERSIONS

    def D(fn):
        return int(round(inspect.signature(fn).parameters["timeout"].default * vloop.TICKS_PER_S))
    out = {"initialize": D(send_initialize), "supported": list(SUPPORTED_VERSIONS), "send_message": D(send_message)}
    names = {"list_tools": "send_tools_list", "call_tool": "send_tools_call", "list_resources": "send_resources_list",
             "read_resource": "send_resources_read", "list_prompts": "send_prompts_list", "get_prompt": "send_prompts_get"}
    for op, n in names.items():
        out[op] = D(getattr(M, n))
    return out


class _Peer:
    """write-stream proxy: records every message the client writes and starts the script of the
    request it recognises"""

    def __init__(self, inner, on_write):
        self._inner, self._on_write = inner, on_write

    async def send(self, item):
        await self._inner.send(item)
        self._on_write(item)

    def send_nowait(self, item):
        self._inner.send_nowait(item)
        self._on_write(item)

    def __getattr__(self, name):
        return getattr(self._inner, name)


_HUNG = object()


class _Hung(Exception):
    pass


def run_calls(case):
    """-> observation: {"calls": [...], "stream": [[tick, resolved event]...], "versions": [...]}"""
    import anyio
    from chuk_mcp.client.client import MCPClient
    from chuk_mcp.transports.base import Transport
    from chuk_mcp.protocol.messages.send_message import CancelledError
    from chuk_mcp.protocol.types.errors import RetryableError, NonRetryableError, VersionMismatchError

    obs = {"calls": [], "stream": [], "versions": [], "harness_errors": []}
    dflt = defaults()

    async def main():
        loop = __import__("asyncio").get_running_loop()
        in_send, in_recv = anyio.create_memory_object_stream(math.inf)
        out_send, out_recv = anyio.create_memory_object_stream(math.inf)
        state = {"call": None, "init_id": None, "last_id": None, "cur": None, "timeout_at": None}

        def inject(ev, ctx):
            def f():
                try:
                    in_send.send_nowait(H.build_event(ev, ctx))
                    obs["stream"].append([loop.ticks, H.resolved_event(ev, ctx)])
                except Exception as ex:  # noqa
                    obs["harness_errors"].append(f"inject: {ex!r}")
            return f

        def on_write(item):
            d = H._plain(item.model_dump(exclude_none=True) if hasattr(item, "model_dump") else item)
            cur = state["cur"]
            if cur is None or not isinstance(d, dict):
                return
            rec = {"tick": loop.ticks, "method": d.get("method"), "id": d.get("id"), "params": d.get("params")}
            cur["writes"].append(rec)
            if "id" not in d or not d.get("method"):
                return
            ctx = {"id": d["id"], "tok": None}
            if d["method"] == "initialize":
                state["init_id"] = d["id"]
                script = cur["spec"].get("initScript") or []
            else:
                script = cur["spec"].get("reqScript") or []
            for delay, ev in script:
                ev = dict(ev)
                if ev.get("id") == "$INIT":
                    if state["init_id"] is None:
                        continue
                    v = state["init_id"]
                    ev["id"] = {"s": v} if isinstance(v, str) else {"i": v}
                elif ev.get("id") == "$LAST":
                    if state["last_id"] is None:
                        continue
                    v = state["last_id"]
                    ev["id"] = {"s": v} if isinstance(v, str) else {"i": v}
                # a (tick, message) stream cannot say that a message of tick T did not exist yet when an
                # earlier request gave up at its deadline T: keep reactions off that one instant
                if delay == 0 and state["timeout_at"] == loop.ticks:
                    delay = 1
                loop.at(loop.ticks + delay, inject(ev, ctx))
            if d["method"] != "initialize":
                state["last_id"] = d["id"]

        class FakeTransport(Transport):
            def __init__(self):
                pass

            async def get_streams(self):
                return in_recv, _Peer(out_send, on_write)

            async def __aenter__(self):
                return self

            async def __aexit__(self, *a):
                return False

            def set_protocol_version(self, version):
                obs["versions"].append(version)

        client = MCPClient(FakeTransport())
        restore = H._debug_logging() if case.get("debug") else None
        warn_ctx = None
        if case.get("warnErr"):
            import warnings
            warn_ctx = warnings.catch_warnings()
            warn_ctx.__enter__()
            warnings.simplefilter("error")
            warnings.simplefilter("ignore", ResourceWarning)
        try:
            for spec in case["calls"]:
                rec = {"start": loop.ticks, "writes": [], "spec": spec}
                state["cur"] = rec
                op = OPS[spec["op"]]
                try:
                    # harness guard: a call still running this long after every timeout it runs under
                    # is cut off and observed as "hung"
                    guard = (dflt["initialize"] + dflt[spec["op"]] + 4 * H.P_TICKS_DEFAULT) * vloop.TICK + 1.0
                    res = _HUNG
                    with anyio.move_on_after(guard):
                        res = await op["call"](client)
                    if res is _HUNG:
                        raise _Hung()
                    rec["outcome"] = "returned"
                    try:
                        rec["marker"] = op["marker"](res)
                    except Exception as ex:  # noqa
                        rec["marker"] = f"<unreadable result {type(res).__name__}: {ex!r}>"
                except _Hung:
                    rec["outcome"] = "hung"
                except TimeoutError:
                    rec["outcome"] = "timeout"
                except CancelledError:
                    rec["outcome"] = "cancelled"
                except VersionMismatchError as ex:
                    rec["outcome"] = "version-mismatch"
                    rec["text"] = str(ex)[:200]
                except (RetryableError, NonRetryableError) as ex:
                    rec["outcome"] = "raised"
                    rec["retryable"] = isinstance(ex, RetryableError)
                    rec["code"] = ex.code
                except Exception as ex:  # noqa
                    rec["outcome"] = "exception"
                    rec["exc"] = type(ex).__name__
                    rec["text"] = str(ex)[:200]
                rec["end"] = loop.ticks
                if rec["outcome"] == "timeout":
                    state["timeout_at"] = loop.ticks
                rec["initialized"] = bool(client.initialized)
                del rec["spec"]
                obs["calls"].append(rec)
                state["cur"] = None
                g = spec.get("gap", 0)
                if g:
                    await anyio.sleep(g * vloop.TICK)
        finally:
            if restore is not None:
                restore()
            if warn_ctx is not None:
                warn_ctx.__exit__(None, None, None)

    vloop.run(main, tie=case.get("tie", "events"))
    return obs


def model_line(case, obs, dflt, poll_ticks=H.P_TICKS_DEFAULT):
    def mid(v):
        return {"s": v} if isinstance(v, str) else {"i": v}

    def cfg(idv, D):
        return {"id": mid(idv if idv is not None else "(never written)"), "D": D, "P": poll_ticks, "pre": False, "cancelAt": None,
                "token": None, "eventsFirst": case.get("tie", "events") in ("events", "io"), "writer": "open", "ev": []}
    calls = []
    for spec, rec in zip(case["calls"], obs["calls"]):
        init_id = next((w["id"] for w in rec["writes"] if w["method"] == "initialize" and w["id"] is not None), None)
        req_id = next((w["id"] for w in rec["writes"] if w["method"] == OPS[spec["op"]]["method"] and w["id"] is not None), None)
        calls.append({"init": cfg(init_id, dflt["initialize"]), "req": cfg(req_id, dflt[spec["op"]]), "gap": spec.get("gap", 0)})
    return {"m": "await", "client": True, "initialized": False, "supported": dflt["supported"], "stream": obs["stream"], "calls": calls}


# ------------------------------------------------------------------ one connection, send_message
def run_conn(case):
    """consecutive `send_message` calls (caller-supplied ids, reuse allowed) on ONE stream pair whose
    read side receives `case["stream"]` = [[absolute tick, event]...] whatever the calls do"""
    import anyio
    from chuk_mcp.protocol.messages.send_message import send_message, CancelledError
    from chuk_mcp.protocol.types.errors import RetryableError, NonRetryableError

    out = []
    errors = []

    async def main():
        loop = __import__("asyncio").get_running_loop()
        in_send, in_recv = anyio.create_memory_object_stream(math.inf)
        out_send, out_recv = anyio.create_memory_object_stream(math.inf)

        def inject(ev):
            def f():
                try:
                    in_send.send_nowait(H.build_event(ev, {"id": None, "tok": None}))
                except Exception as ex:  # noqa
                    errors.append(repr(ex))
            return f
        for a, ev in case["stream"]:
            loop.at(a, inject(ev))
        restore = H._debug_logging() if case.get("debug") else None
        try:
            for r in case["reqs"]:
                rec = {"start": loop.ticks}
                rid = H._idval(r["id"], {})
                try:
                    guard = (r["D"] + 4 * H.P_TICKS_DEFAULT) * vloop.TICK + 1.0
                    res = _HUNG
                    with anyio.move_on_after(guard):
                        res = await send_message(in_recv, out_send, r.get("method", "tools/list"), None,
                                                 timeout=r["D"] * vloop.TICK, message_id=rid)
                    if res is _HUNG:
                        raise _Hung()
                    rec["outcome"] = "returned"
                    rec["p"] = res
                except _Hung:
                    rec["outcome"] = "hung"
                except TimeoutError:
                    rec["outcome"] = "timeout"
                except CancelledError:
                    rec["outcome"] = "cancelled"
                except (RetryableError, NonRetryableError) as ex:
                    rec["outcome"] = "raised"
                    rec["retryable"] = isinstance(ex, RetryableError)
                    rec["code"] = ex.code
                except Exception as ex:  # noqa
                    rec["outcome"] = "exception"
                    rec["exc"] = type(ex).__name__
                    rec["text"] = str(ex)[:200]
                rec["t"] = loop.ticks - rec["start"]
                ws = []
                while True:
                    try:
                        m = out_recv.receive_nowait()
                    except Exception:
                        break
                    ws.append(H._plain(m.model_dump(exclude_none=True) if hasattr(m, "model_dump") else m))
                rec["writes"] = ws
                out.append(rec)
                g = r.get("gap", 0)
                if g:
                    await anyio.sleep(g * vloop.TICK)
        finally:
            if restore is not None:
                restore()

    vloop.run(main, tie=case.get("tie", "events"))
    return {"reqs": out, "harness_errors": errors}


def conn_model_line(case, poll_ticks=H.P_TICKS_DEFAULT):
    ctx = {"id": None, "tok": None}
    reqs = [{"id": r["id"], "D": r["D"], "P": poll_ticks, "pre": False, "cancelAt": None, "token": None,
             "eventsFirst": case.get("tie", "events") in ("events", "io"), "writer": "open", "ev": []} for r in case["reqs"]]
    return {"m": "await", "conn": True, "stream": [[a, H.resolved_event(ev, ctx)] for a, ev in case["stream"]],
            "reqs": reqs, "gaps": [r.get("gap", 0) for r in case["reqs"]]}
