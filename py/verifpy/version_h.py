"""Harness for the version-negotiation properties (C03 client, C04 server + end-to-end).

* `run_server(cases)`   — real `ProtocolHandler.handle_message` on an initialize request carrying
                          the case's `protocolVersion` value; observes the answer and the session.
* `run_client(cases)`   — real `send_initialize` / `send_initialize_with_client_tracking` over anyio
                          memory streams with a scripted peer, under the virtual-time loop (silence
                          costs no wall-clock).
* `run_handshake(cases)`— real client against the real handler over an in-memory pipe (each
                          message crosses the pipe as JSON text).
All cases of one batch run sequentially on ONE virtual loop (the clock just keeps counting),
each with fresh streams / handler / client objects.
"""
from __future__ import annotations

import json
import math

from . import vloop

# ---------------------------------------------------------------------------------- universe
REAL = ["2025-06-18", "2025-03-26", "2024-11-05"]
INVENTED = ["2026-01-01", "1999-12-31", "draft-7"]
UNIVERSE = REAL + INVENTED
OUTSIDE = "2000-01-01"  # a preferred version that is in no generated list

CAPS = {"tools": {"listChanged": True}}
SINFO = {"name": "scripted-peer", "version": "1.0"}

MALFORMED = {
    # name -> result member of the response
    "no-version": {"capabilities": CAPS, "serverInfo": SINFO},
    "version-int": {"protocolVersion": 20250618, "capabilities": CAPS, "serverInfo": SINFO},
    "version-null": {"protocolVersion": None, "capabilities": CAPS, "serverInfo": SINFO},
    "version-list": {"protocolVersion": ["2025-06-18"], "capabilities": CAPS, "serverInfo": SINFO},
    "version-bool": {"protocolVersion": True, "capabilities": CAPS, "serverInfo": SINFO},
    "version-object": {"protocolVersion": {"v": "2025-06-18"}, "capabilities": CAPS, "serverInfo": SINFO},
    "no-capabilities": {"protocolVersion": "2025-06-18", "serverInfo": SINFO},
    "capabilities-str": {"protocolVersion": "2025-06-18", "capabilities": "all", "serverInfo": SINFO},
    "no-serverinfo": {"protocolVersion": "2025-06-18", "capabilities": CAPS},
    "serverinfo-int": {"protocolVersion": "2025-06-18", "capabilities": CAPS, "serverInfo": 7},
    "empty-object": {},
    "result-list": ["2025-06-18"],
    "result-string": "2025-06-18",
    "result-int": 5,
}


def named_error_codes():
    """Every integer constant and every ERROR_MESSAGES key of types/errors.py (read from the
    real module), plus samples outside them."""
    from chuk_mcp.protocol.types import errors as E

    named = {v for k, v in vars(E).items() if k.isupper() and isinstance(v, int) and not isinstance(v, bool)}
    named |= {k for k in getattr(E, "ERROR_MESSAGES", {}) if isinstance(k, int)}
    return sorted(named) + [-32050, -1, 0, 1, 401, 2**31, -(2**63)]


ERROR_MESSAGES = [
    "boom",
    None,  # no message member
    "Unsupported protocol version",
    "UNSUPPORTED PROTOCOL VERSION 1.0",
    "bad Protocol  Version",  # two spaces: no mention
    "protocol_version rejected",
    "protocolversion",
    "the protocol versio",
    "Unsupported prÖtocol version / protocol versiİon",
    "xprotocol versionx",
    "",  # falsy message
    "%s protocol version %d {} {0}",
    "protocol\nversion",
    "protocol version\u2028",
    "x" * 100_000 + " Protocol Version",
]


# ---------------------------------------------------------------------------------- server
class Unprintable(Exception):
    """an exception whose text cannot be produced"""

    def __str__(self):
        raise RuntimeError("no text for this exception")

    __repr__ = __str__


EXC_CLASSES = {
    "TypeError": TypeError, "ValueError": ValueError, "KeyError": KeyError, "IndexError": IndexError, "AttributeError": AttributeError,
    "RuntimeError": RuntimeError, "RecursionError": RecursionError, "OSError": OSError, "Exception": Exception,
    "TimeoutError": TimeoutError, "Unprintable": Unprintable,
}


def make_exc(name):
    cls = EXC_CLASSES[name]
    return cls() if cls is Unprintable else cls(f"scripted {name} %s {{}}")


class debug_logging:
    """`with debug_logging(mode):` — run as a host that configured logging at DEBUG would: every logging.debug / isEnabledFor
    branch live.  mode True / "null": records go to a NullHandler; mode "format": to a plain `logging.Handler` whose `emit`
    formats the record (`self.format(record)`), as a host's own handler does — a `%`-style argument mismatch or a failing
    `__str__` / `__repr__` of a logged argument then surfaces at the logging call.  State restored afterwards."""

    def __init__(self, on):
        self.mode = "null" if on is True else on
        self.prev = None

    def __enter__(self):
        if self.mode:
            import logging

            root = logging.getLogger()
            self.prev = (root.manager.disable, root.level, list(root.handlers))
            if self.mode == "format":
                class Formatting(logging.Handler):
                    def __init__(self):
                        super().__init__()
                        self.setFormatter(logging.Formatter("%(levelname)s %(name)s %(message)s"))
                        self.last = None

                    def emit(self, record):
                        self.last = self.format(record)

                h = Formatting()
            else:
                h = logging.NullHandler()
            root.handlers[:] = [h]
            root.setLevel(logging.DEBUG)
            logging.disable(logging.NOTSET)
        return self

    def __exit__(self, *a):
        if self.prev is not None:
            import logging

            root = logging.getLogger()
            logging.disable(self.prev[0])
            root.setLevel(self.prev[1])
            root.handlers[:] = self.prev[2]
        return False


def assign_debug(cases, keyfn, share=3, ctx=None, name=""):
    """Mark a deterministic third of the cases (by content hash) to run under DEBUG logging, and make sure every scenario kind
    (`keyfn(case)`) has at least one such member."""
    from .core import sha

    seen = set()
    for c in cases:
        h = int(sha(c), 16)
        if h % share == 0:
            c["debug"] = "format" if (h // share) % 2 else True  # half of them with a handler that formats the records
            seen.add(keyfn(c))
    for c in cases:
        k = keyfn(c)
        if k not in seen:
            c["debug"] = "format"
            seen.add(k)
    if ctx is not None:
        ctx.notes.append(f"{name}: {sum(1 for c in cases if c.get('debug'))} of {len(cases)} cases run with the root logger at DEBUG "
                         f"(NullHandler), at least one of each of {len(seen)} scenario kinds")
    return cases


HANDLER_VARIANTS = ["plain", "full-capabilities", "registry", "hostile-info", "mcpserver"]


def _new_handler(variant=None, index=0):
    from chuk_mcp.server.protocol_handler import ProtocolHandler
    from chuk_mcp.protocol.types.info import ServerInfo
    from chuk_mcp.protocol.types.capabilities import ServerCapabilities

    if variant in (None, "plain"):
        return ProtocolHandler(ServerInfo(name=f"verif-server-{index}", version=f"1.{index}"), ServerCapabilities())
    if variant == "mcpserver":  # the handler an MCPServer object builds for itself (it registers its tool / resource methods too)
        from chuk_mcp.server import MCPServer

        srv = MCPServer(f"verif-mcpserver-{index}", version=f"2.{index}")
        h = srv.protocol_handler
        h._verif_owner = srv  # keep the server object alive
        return h
    if variant == "full-capabilities":
        caps = ServerCapabilities(tools={"listChanged": True}, resources={"subscribe": True, "listChanged": False},
                                  prompts={"listChanged": True}, logging={}, experimental={"protocolVersion": {"v": "1999-01-01"}})
        return ProtocolHandler(ServerInfo(name="verif-server", version="1.0", title="protocolVersion"), caps)
    if variant == "hostile-info":
        return ProtocolHandler(ServerInfo(name="%s {} {0}\n\u2028'\"\\", version="%d"), ServerCapabilities())
    if variant == "registry":  # a non-empty method registry, including a method that raises
        h = ProtocolHandler(ServerInfo(name="verif-server", version="1.0"), ServerCapabilities(tools={}))

        async def ok(message, session_id):
            return h.create_response(getattr(message, "id", None), {"tools": []}), None

        async def boom(message, session_id):
            raise Unprintable()

        h.register_method("tools/list", ok)
        h.register_method("verif/raise", boom)
        h.register_method("protocolVersion", ok)
        _register_nested(h)
        return h
    raise ValueError(variant)


def _register_nested(h):
    """A registered method that calls back into the SAME handler: it awaits `handle_message` for the initialize request found
    in its params (directly, not in a new task), keeps what came back in `h._verif_nested`, and then returns or raises."""
    from chuk_mcp.protocol.messages.json_rpc_message import parse_message

    h._verif_nested = []

    async def nested(message, session_id):
        params = getattr(message, "params", None) or {}
        inner = parse_message(params["inner"])
        resp, sid = await h.handle_message(inner, session_id)
        h._verif_nested.append((resp, sid))
        if params.get("then") == "raise":
            raise make_exc(params.get("cls", "RuntimeError"))
        return h.create_response(getattr(message, "id", None), {"ok": True}), None

    h.register_method("verif/nested", nested)


class _FailingDump:
    """serverInfo / capabilities object whose model_dump raises for the first `times` calls (a user subclass with a bug)"""

    def __init__(self, inner, times, cls_name):
        self._inner, self._left, self._cls = inner, times, cls_name

    def model_dump(self, *a, **k):
        if self._left > 0:
            self._left -= 1
            raise make_exc(self._cls)
        return self._inner.model_dump(*a, **k)

    def __getattr__(self, name):
        return getattr(self._inner, name)


ID_GENERATORS = ["constant", "every-2", "every-3", "cycle-2", "cycle-3", "sticky-after-2"]


def _repeating_ids(handler, kind):
    """The handler's session manager replaced by a SUBCLASS of its class whose `generate_session_id()` (the documented extension
    point) may hand out an id that is still live: a constant id, one id per k creations, ids from a short cycle, fresh ids that
    become sticky."""
    base = type(handler.session_manager)
    state = {"n": 0}

    class RepeatingIds(base):
        def generate_session_id(self):
            n = state["n"]
            state["n"] += 1
            if kind == "constant":
                return "session-constant"
            if kind.startswith("every-"):
                return f"session-{n // int(kind.split('-')[1])}"
            if kind.startswith("cycle-"):
                return f"session-{n % int(kind.split('-')[1])}"
            if kind == "sticky-after-2":
                return f"session-{min(n, 2)}"
            raise ValueError(kind)

    handler.session_manager = RepeatingIds()


def _faulty_session_manager(handler, cls_name, times):
    """The session store raises `cls_name` from create_session for the first `times` calls (a custom / remote store that is
    temporarily unavailable), then works."""
    sm = handler.session_manager
    real = sm.create_session
    left = {"n": times}

    def create_session(*a, **k):
        if left["n"] > 0:
            left["n"] -= 1
            raise make_exc(cls_name)
        return real(*a, **k)

    sm.create_session = create_session


CLIENT_INFO = {
    "usual": {"name": "verif-client", "version": "1.0"},
    "absent": ...,
    "empty-object": {},
    "null": None,
    "empty-string": "",
    "zero": 0,
    "false": False,
    "empty-list": [],
    "empty-name": {"name": "", "version": ""},
    "hostile": {"name": "%s {} {0} %(x)s\n\u2028'\"\\", "version": "%d", "title": "x" * 2000},
    "version-inside": {"name": "c", "version": "1", "protocolVersion": "1999-01-01"},
}
REQUEST_IDS = [1, 0, -1, "", "0", "1", 2**53, "é\u2028", "%s {} {0}\n", "x" * 5000, None]  # None = initialize sent as a notification


def init_request_dict(req, msg_id=1):
    """The initialize request for a `Requested` description.
    req = {"k":"str","s":..} | {"k":"json","v":<non-string JSON>} | {"k":"absent","shape":..}
    optional dressing: "ci" (a CLIENT_INFO key), "id" (index into REQUEST_IDS), "layout" ("version-first" | "version-last" | "extras")"""
    d = {"jsonrpc": "2.0", "id": msg_id, "method": "initialize"}
    if req.get("id") is not None:
        rid = REQUEST_IDS[req["id"]]
        if rid is None:
            del d["id"]
        else:
            d["id"] = rid
    base = {"capabilities": {}, "clientInfo": {"name": "verif-client", "version": "1.0"}}
    ci = CLIENT_INFO[req.get("ci", "usual")]
    if ci is ...:
        del base["clientInfo"]
    else:
        base["clientInfo"] = ci
    k = req["k"]
    if k in ("str", "json"):
        v = req["s"] if k == "str" else req["v"]
        layout = req.get("layout")
        if layout == "version-first":
            d["params"] = dict({"protocolVersion": v}, **base)
        elif layout == "extras":
            d["params"] = dict({"_meta": {"progressToken": 0}, "zzz": [], "protocol_version": "1999-01-01", "version": "1999-01-01"},
                               **base, protocolVersion=v, ProtocolVersion="1999-01-01", trailing=None)
        else:
            d["params"] = dict(base, protocolVersion=v)
    elif k == "absent":
        shape = req.get("shape", "no-member")
        if shape == "no-member":
            d["params"] = base
        elif shape == "lookalikes":  # members that are NOT protocolVersion
            d["params"] = dict(base, protocol_version="1999-01-01", version="1999-01-01", ProtocolVersion="2024-11-05")
        elif shape == "empty-params":
            d["params"] = {}
        elif shape == "null-params":
            d["params"] = None
        elif shape == "no-params":
            pass
        else:
            raise ValueError(shape)
    else:
        raise ValueError(k)
    return d


def _json_safe(v):
    try:
        json.dumps(v)
        return v
    except Exception:
        return {"__repr__": repr(v)[:80]}


def _read_answer(resp):
    """What the response object says NOW (it is serialised the way a transport does: model_dump)."""
    obs = {}
    try:
        obs["server_name"] = _json_safe((getattr(resp, "result", None) or {}).get("serverInfo", {}).get("name"))
    except Exception:
        pass
    out = None
    if resp is None:
        obs["kind"] = "none"
        return obs, out
    out = resp.model_dump(exclude_none=True) if hasattr(resp, "model_dump") else resp
    if isinstance(out, dict) and "error" in out and out.get("error") is not None:
        obs["kind"] = "error"
        obs["code"] = (out["error"] or {}).get("code")
    else:
        obs["kind"] = "result"
        # exclude_none drops a null member: read the member off a full dump / the object itself
        full = resp.model_dump() if hasattr(resp, "model_dump") else out
        res = full.get("result") if isinstance(full, dict) else getattr(resp, "result", None)
        if isinstance(res, dict):
            obs["has_version"] = "protocolVersion" in res
            obs["answered"] = _json_safe(res.get("protocolVersion"))
        else:
            obs["has_version"] = False
            obs["answered"] = None
    return obs, out


def _read_session(handler, sid):
    if sid is None:
        return None
    return handler.session_manager.get_session(sid)


async def _call_handler(handler, d, session_id=None):
    """-> (message object | None, response, session id, error observation | None)"""
    from chuk_mcp.protocol.messages.json_rpc_message import parse_message

    try:
        msg = parse_message(d) if isinstance(d, dict) else d
    except Exception as ex:
        return None, None, None, {"kind": "unparsable", "exc": type(ex).__name__}
    try:
        resp, sid = await (handler.handle_message(msg) if session_id is None else handler.handle_message(msg, session_id))
    except Exception as ex:
        return msg, None, None, {"kind": "raised", "exc": type(ex).__name__}
    return msg, resp, sid, None


async def _serve_one(handler, d, session_id=None, want_sid=False):
    """One message (a dict, or an already parsed message object) through the real handler; observation of the answer and of
    the session, read right away."""
    _msg, resp, sid, err = await _call_handler(handler, d, session_id)
    if err is not None:
        return err, None
    obs, out = _read_answer(resp)
    obs["has_session"] = False
    obs["sid"] = sid
    s = _read_session(handler, sid)
    if s is not None:
        obs["has_session"] = True
        obs["session"] = _json_safe(s.protocol_version)
    return obs, out


def run_server(cases):
    import asyncio

    async def main():
        out = []
        for c in cases:
            with debug_logging(c.get("debug")):
                older = _new_handler(c.get("hv"), index=0)
                if c.get("newer"):  # another server object of the same class is built AFTER the one the request goes to
                    _newer = _new_handler(c["newer"], index=1)
                handler = older
                o, _ = await _serve_one(handler, init_request_dict(c["req"]))
                o["sid_returned"] = o.get("sid") is not None
            o.pop("sid", None)
            o["sessions"] = handler.session_manager.get_session_count()
            out.append(o)
        return out

    return asyncio.run(main())


def run_server_seq(cases):
    """case = {"steps": [{"req": .., "carry": .., "between": [..], "same_object": bool}, ..]}: the initialize requests go to ONE
    handler in order.
      carry    which session id accompanies the message (as a transport does for a peer that already holds one):
               None | "prev" | "first" | "bogus" (never issued) | "empty" ("") | "deleted" (the previous one, deleted just before) |
               "cleared" (the previous one, after clear_all_sessions)
      between  other traffic on the handler before this step: "ping" | "unknown-method" | "initialized" | "unknown-notification"
               (each on the carried session if there is one)
      same_object  the very message object of the previous step is delivered again (a duplicated message)
    Case members: "read": "both" (default: every answer / session is read right after its step AND again after the whole
    sequence) | "late" (the harness only holds on to the response objects and reads all of them after the whole sequence, like a
    server loop that handles the pending requests and then flushes the answers); "concurrent": every request is handed to the
    handler from its own task (a task group) before any answer is looked at.
    Per step: the answer, and what the store holds under the session id returned for THAT step, read right after it; under
    "late" the same read after the last step (also the session record object handed out right after the step)."""
    import asyncio
    from chuk_mcp.protocol.messages.json_rpc_message import parse_message

    between_msgs = {
        "ping": {"jsonrpc": "2.0", "id": "between-ping", "method": "ping"},
        "unknown-method": {"jsonrpc": "2.0", "id": 0, "method": "verif/unknown"},
        "initialized": {"jsonrpc": "2.0", "method": "notifications/initialized"},
        "unknown-notification": {"jsonrpc": "2.0", "method": "notifications/verif-unknown", "params": {}},
        "raising-method": {"jsonrpc": "2.0", "id": "between-raise", "method": "verif/raise"},
        "tools-list": {"jsonrpc": "2.0", "id": "between-tools", "method": "tools/list"},
    }

    clock = {"t": 1_700_000_000.0}

    class _Clock:
        @staticmethod
        def time():
            clock["t"] += 0.001
            return clock["t"]

    async def one_case(c):
        import random
        from chuk_mcp.server.session import memory as _mem

        state = random.getstate()
        real_time = _mem.time
        uses_clock = any(b.startswith("clock") for st in c["steps"] for b in (st.get("between") or []))
        if uses_clock:
            _mem.time = _Clock  # the seam of the session store's clock
        try:
            with debug_logging(c.get("debug")):
                return await one_case_(c)
        finally:
            _mem.time = real_time
            random.setstate(state)

    async def one_case_(c):
        # "handlers": n -> n handlers alive at once; a step's "h" picks one (default 0); every handler sees the SAME message ids
        # all handlers are built FIRST (so the one a request goes to is in general not the newest object of its class)
        hvs = c.get("hvs") or [c.get("hv")] * int(c.get("handlers") or 1)
        handlers = [_new_handler(v, index=i) for i, v in enumerate(hvs)]
        if c.get("idgen"):
            for h_ in handlers:
                _repeating_ids(h_, c["idgen"])
        if c.get("store_raises"):
            for h_ in handlers:
                _faulty_session_manager(h_, c["store_raises"]["cls"], c["store_raises"]["times"])
        if c.get("dump_raises"):  # the session is created, then building the result fails (between two state updates)
            for h_ in handlers:
                h_.server_info = _FailingDump(h_.server_info, c["dump_raises"]["times"], c["dump_raises"]["cls"])
        if any(st.get("nested") for st in c["steps"]):
            for h_ in handlers:
                if not hasattr(h_, "_verif_nested"):
                    _register_nested(h_)
        handler = handlers[0]
        sm = handler.session_manager
        per_handler_sids = [[] for _ in handlers]
        sids, steps, held = per_handler_sids[0], [], []
        last_msg = None
        read_now = c.get("read", "both") == "both"
        if c.get("concurrent"):
            # every request is handed to the handler from its own task before any answer is looked at
            msgs = [parse_message(init_request_dict(st["req"], msg_id=f"init-{i}")) for i, st in enumerate(c["steps"])]
            results = [None] * len(msgs)

            async def run(i):
                results[i] = await _call_handler(handler, msgs[i])

            import anyio
            async with anyio.create_task_group() as tg:
                for i in range(len(msgs)):
                    tg.start_soon(run, i)
            for (_m, resp, sid, err) in results:
                steps.append(dict(err) if err else {"carried": None})
                held.append((resp, sid, None, err, handler, None))
        else:
            for i, st in enumerate(c["steps"]):
                hi = int(st.get("h") or 0)
                handler = handlers[hi]
                sm = handler.session_manager
                sids = per_handler_sids[hi]
                carry = st.get("carry")
                sid_in = None
                if carry in ("prev", "deleted", "cleared") and sids:
                    sid_in = sids[-1]
                    if carry == "deleted":
                        sm.delete_session(sid_in)
                    elif carry == "cleared":
                        sm.clear_all_sessions()
                elif carry == "first" and sids:
                    sid_in = sids[0]
                elif carry == "bogus":
                    sid_in = "0" * 32
                elif carry == "empty":
                    sid_in = ""
                elif carry == "int":
                    sid_in = 7
                elif carry == "true":
                    sid_in = True
                elif carry == "other-handler" and any(per_handler_sids[j] for j in range(len(handlers)) if j != hi):
                    sid_in = next(per_handler_sids[j][-1] for j in range(len(handlers)) if j != hi and per_handler_sids[j])
                for b in st.get("between") or (["ping"] if sid_in else []):
                    if b.startswith("reseed"):  # something in the server process re-seeds the global generator (a tool wanting
                        import random           # reproducible output): random.seed(k)
                        random.seed(int(b.split(":")[1]) if ":" in b else 0)
                        continue
                    if b.startswith("clock"):  # the wall clock jumps (hours idle, or set back) between two messages
                        clock["t"] += float(b.split(":")[1])
                        continue
                    try:
                        await handler.handle_message(parse_message(between_msgs[b]), sid_in)
                    except Exception:
                        pass  # C08's subject
                before = sm.get_session_count()
                if st.get("same_object") and last_msg is not None:
                    d = last_msg
                else:
                    d = init_request_dict(st["req"], msg_id=f"init-{i}")
                    try:
                        d = parse_message(d)
                    except Exception:
                        pass
                last_msg = d
                if st.get("nested"):
                    # the initialize arrives through a registered method that calls handle_message on the same handler re-entrantly
                    inner = init_request_dict(st["req"], msg_id=f"init-{i}")
                    outer = {"jsonrpc": "2.0", "id": f"outer-{i}", "method": "verif/nested",
                             "params": {"inner": inner, "then": st["nested"], "cls": st.get("cls", "RuntimeError")}}
                    n0 = len(handler._verif_nested)
                    _m, oresp, _osid, err = await _call_handler(handler, outer, session_id=sid_in)
                    if len(handler._verif_nested) > n0:
                        resp, sid = handler._verif_nested[-1]
                        err = None
                    else:
                        resp, sid, err = None, None, (err or {"kind": "nested-not-reached"})
                else:
                    _m, resp, sid, err = await _call_handler(handler, d, session_id=sid_in)
                o = dict(err) if err else {}
                sess_obj = None
                if not err and read_now:
                    o, _ = _read_answer(resp)
                    sess_obj = _read_session(handler, sid)
                    o["has_session"] = sess_obj is not None
                    if sess_obj is not None:
                        o["session"] = _json_safe(sess_obj.protocol_version)
                if st.get("mutate") and not err and resp is not None and isinstance(getattr(resp, "result", None), dict):
                    o["answered_before_rewrite"] = _read_answer(resp)[0].get("answered")
                    resp.result["_meta"] = {"seen-by": "middleware"}
                    resp.result["protocolVersion"] = "1999-01-01"  # the consumer's own copy of the answer, rewritten in place
                    resp.result.setdefault("capabilities", {})["rewritten"] = True
                    o["mutated_by_consumer"] = True
                if not err and read_now and resp is not None and o.get("kind") == "result":
                    o["sid_returned"] = sid is not None
                    # ... and whether some OTHER handler of this process holds that session instead
                    o["session_elsewhere"] = any(hh is not handler and sid is not None and hh.session_manager.get_session(sid) is not None
                                                 for hh in handlers)
                    o["expected_server_name"] = getattr(handler.server_info, "name", None)
                o["carried"] = carry if sid_in is not None else None
                o["h"] = hi
                o["new_sessions"] = sm.get_session_count() - before
                o["reused_carried"] = sid is not None and sid == sid_in
                if sid is not None:
                    sids.append(sid)
                steps.append(o)
                held.append((resp, sid, sess_obj, err, handler, sid_in))
        # ... and only now, after the whole sequence, every response is serialised (again) and every session looked up (again)
        # (handler, id returned, id the request carried): a later request that CARRIED this id and got it back re-initialised the session
        all_sids = [(id(h[4]), h[1], h[5]) for h in held]
        for i, (o, (resp, sid, sess_obj, err, handler, _sid_in)) in enumerate(zip(steps, held)):
            if err:
                continue
            late, _ = _read_answer(resp)
            if o.get("mutated_by_consumer"):
                late["answered"] = o.get("answered_before_rewrite")  # what the consumer did to its own response object is its business
            s_now = _read_session(handler, sid)
            late["has_session"] = s_now is not None
            if s_now is not None:
                late["session"] = _json_safe(s_now.protocol_version)
            if sess_obj is not None:
                late["session_object"] = _json_safe(sess_obj.protocol_version)  # the record handed out right after the step
            # the session of this step was handed out again by a later step (re-initialisation of one session)
            late["sid_reissued"] = sid is not None and (id(handler), sid, sid) in all_sids[i + 1:]
            if sid is not None and not late["sid_reissued"] and any(x[0] == id(handler) and x[1] == sid for x in all_sids[i + 1:]):
                late["sid_handed_out_again"] = True  # a LATER request that did not carry it was given the very same session id
                if c.get("idgen"):
                    # ... by the host's own id generator: the record under that id now belongs to the later request
                    late["sid_reissued"] = True
            o["late"] = late
            if "kind" not in o:  # nothing was read right away: the late reading is the only one
                for k in ("kind", "code", "has_version", "answered", "has_session", "session"):
                    if k in late:
                        o[k] = late[k]
                o["read_late_only"] = True
                if late["sid_reissued"]:
                    # a later request was given this very session (re-initialisation): its record now belongs to that request
                    o["has_session"] = False
                    o.pop("session", None)
                    o["session_superseded"] = True
        return {"steps": steps}

    async def main():
        return [await one_case(c) for c in cases]

    return asyncio.run(main())


# ---------------------------------------------------------------------------------- client
HOSTILE_TEXT = [
    "%", "%s %d", "%(name)s", "{}", "{0}", "{name}", "{", "}", "\n", "a\r\nb", "\u2028", "\u2029", "\u0085", "'", '"', "\\", "\\n",
    "\x00", "", " ", "\t", "é\U0001F600", "x" * 100_000,
]

FALSY_RESULTS = {"result-empty-list": [], "result-empty-string": "", "result-zero": 0, "result-false": False, "result-zero-float": 0.0}
MALFORMED.update(FALSY_RESULTS)
MALFORMED.update({
    "version-zero": {"protocolVersion": 0, "capabilities": CAPS, "serverInfo": SINFO},
    "version-false": {"protocolVersion": False, "capabilities": CAPS, "serverInfo": SINFO},
    "version-empty-list": {"protocolVersion": [], "capabilities": CAPS, "serverInfo": SINFO},
    "version-empty-object": {"protocolVersion": {}, "capabilities": CAPS, "serverInfo": SINFO},
    "version-float": {"protocolVersion": 2025.0618, "capabilities": CAPS, "serverInfo": SINFO},
    "capabilities-null": {"protocolVersion": "2025-06-18", "capabilities": None, "serverInfo": SINFO},
    "capabilities-zero": {"protocolVersion": "2025-06-18", "capabilities": 0, "serverInfo": SINFO},
    "capabilities-empty-list": {"protocolVersion": "2025-06-18", "capabilities": [], "serverInfo": SINFO},
    "serverinfo-null": {"protocolVersion": "2025-06-18", "capabilities": CAPS, "serverInfo": None},
    "serverinfo-empty-string": {"protocolVersion": "2025-06-18", "capabilities": CAPS, "serverInfo": ""},
    "serverinfo-empty-object": {"protocolVersion": "2025-06-18", "capabilities": CAPS, "serverInfo": {}},
})

# well-formed results around the version member (`extra` of a version answer)
RESULT_VARIANTS = {
    "plain": lambda v: {"protocolVersion": v, "capabilities": CAPS, "serverInfo": SINFO},
    "extra": lambda v: {"protocolVersion": v, "capabilities": CAPS, "serverInfo": SINFO, "instructions": "be nice", "_meta": {"x": None}},
    "falsy-members": lambda v: {"capabilities": {}, "serverInfo": {"name": "", "version": ""}, "instructions": "", "protocolVersion": v,
                                "_meta": {}, "extra0": 0, "extraF": False, "extraL": [], "extraN": None},
    "version-last": lambda v: {"serverInfo": dict(reversed(list(SINFO.items()))), "capabilities": CAPS, "zzz": 1, "protocolVersion": v},
    "hostile-members": lambda v: {"protocolVersion": v, "capabilities": CAPS, "serverInfo": {"name": "%s {} {0}\n\u2028'\"\\", "version": "%d"},
                                  "instructions": "%s %d {} {0} %(x)s\r\n\u2028\u2029\u0085"},
    "long-instructions": lambda v: {"protocolVersion": v, "capabilities": CAPS, "serverInfo": SINFO, "instructions": "y" * 100_000},
    "megabyte": lambda v: {"protocolVersion": v, "capabilities": CAPS, "serverInfo": SINFO, "instructions": "z" * 1_000_000,
                           "_meta": {"pad": ["é" * 1000] * 300}},
}


def _answer_message(ans, msg_id):
    """Scripted peer's answer as the object a transport puts on the read stream."""
    from chuk_mcp.protocol.messages.json_rpc_message import JSONRPCMessage, parse_message

    k = ans["k"]
    env = ans.get("envelope")  # declared members of the reply around the payload: "error": null next to a result, ...

    def dress(d):
        if env == "error-null":
            d = dict(d, error=None)
        elif env == "result-null":
            d = dict(d, result=None)
        elif env == "method-null":
            d = dict(d, method=None, params=None)
        elif env == "no-jsonrpc":
            d = {k_: v_ for k_, v_ in d.items() if k_ != "jsonrpc"}
        elif env == "id-last":
            d = dict([(k_, v_) for k_, v_ in d.items() if k_ != "id"] + [("id", d["id"])], extra_member={"x": 1})
        return d

    if k == "version":
        variant = ans.get("extra")
        variant = "extra" if variant is True else (variant or "plain")
        return parse_message(dress({"jsonrpc": "2.0", "id": msg_id, "result": RESULT_VARIANTS[variant](ans["s"])}))
    if k == "malformed":
        return parse_message({"jsonrpc": "2.0", "id": msg_id, "result": MALFORMED[ans["shape"]]})
    if k == "rpc":
        err = {"code": ans["code"]}
        if ans.get("msg") is not None:
            err["message"] = ans["msg"]
        if "data" in ans:
            err["data"] = ans["data"]
        if ans.get("msg") is None:
            return JSONRPCMessage(id=msg_id, error=err)
        return parse_message(dress({"jsonrpc": "2.0", "id": msg_id, "error": err}))
    raise ValueError(k)


NOISE_KINDS = ["notif", "req-other-id", "req-same-id", "resp-other-id", "err-other-id", "batch-with-answer", "resp-twin-id",
               "resp-prev-id"]


def _noise_message(kind, rid, i, sup, prev=None):
    """Foreign traffic a peer may legitimately put on the read stream before its answer."""
    from chuk_mcp.protocol.messages.json_rpc_message import parse_message

    good = {"protocolVersion": (sup or REAL)[0], "capabilities": CAPS, "serverInfo": SINFO}
    if kind == "notif":
        return parse_message({"jsonrpc": "2.0", "method": "notifications/message", "params": {"level": "info", "data": f"n{i}"}})
    if kind == "req-other-id":
        return parse_message({"jsonrpc": "2.0", "id": f"srv-{i}", "method": "ping"})
    if kind == "req-same-id":  # a server request that happens to reuse the id of our request
        return parse_message({"jsonrpc": "2.0", "id": rid, "method": "roots/list"})
    if kind == "resp-other-id":  # a perfectly good result, not ours
        return parse_message({"jsonrpc": "2.0", "id": f"other-{i}", "result": good})
    if kind == "resp-prev-id":  # the late answer to the previous attempt on these streams
        return parse_message({"jsonrpc": "2.0", "id": prev if prev is not None else f"prev-{i}", "result": good})
    if kind == "resp-twin-id":  # same spelling, other JSON type / near miss
        return parse_message({"jsonrpc": "2.0", "id": (rid + " ") if isinstance(rid, str) else str(rid), "result": good})
    if kind == "err-other-id":
        return parse_message({"jsonrpc": "2.0", "id": f"other-{i}", "error": {"code": -32602, "message": "protocol version"}})
    if kind == "batch-with-answer":
        return [parse_message({"jsonrpc": "2.0", "id": rid, "result": good})]
    raise ValueError(kind)


FILLER = {"jsonrpc": "2.0", "method": "notifications/verif-filler"}  # somebody else's message occupying the write buffer


def _wire(m):
    """Written message -> the transcript vocabulary of the model."""
    d = m.model_dump(exclude_none=True) if hasattr(m, "model_dump") else m
    if isinstance(d, dict) and d.get("method") == FILLER["method"]:
        return None, d
    if isinstance(d, dict) and d.get("method") == "initialize" and "id" in d:
        pv = (d.get("params") or {}).get("protocolVersion")
        return {"w": "initialize", "v": pv}, d
    if isinstance(d, dict) and d.get("method") == "notifications/initialized" and d.get("id") is None:
        return {"w": "initialized"}, d
    return {"w": "other", "d": _json_safe(d)}, d


def _classify(ex):
    import anyio
    from chuk_mcp.protocol.types.errors import RetryableError, NonRetryableError, VersionMismatchError

    if isinstance(ex, VersionMismatchError):
        return {"outcome": "mismatch"}
    if isinstance(ex, TimeoutError):
        return {"outcome": "timeout"}
    if isinstance(ex, (RetryableError, NonRetryableError)):
        return {"outcome": "rpc", "code": ex.code}
    if isinstance(ex, (Unprintable,)) or (type(ex).__name__ in EXC_CLASSES and str(getattr(ex, "args", [""])[:1]).find("scripted ") >= 0):
        return {"outcome": "stream-raised", "exc": type(ex).__name__}
    if isinstance(ex, IndexError):
        return {"outcome": "noversions"}
    if isinstance(ex, (anyio.EndOfStream, anyio.BrokenResourceError, anyio.ClosedResourceError)):
        return {"outcome": "transport", "exc": type(ex).__name__}
    return {"outcome": "invalid", "exc": type(ex).__name__}


def _tracked_client():
    from chuk_mcp.transports.stdio.stdio_client import StdioClient
    from chuk_mcp.transports.stdio.parameters import StdioParameters

    return StdioClient(StdioParameters(command="verif-no-such-command", args=[]))


class _BareClient:
    """A client object without the tracking hook (the entry point must then just skip it)."""


def _tracked_obs(client):
    info = client.get_batching_info()
    pv = info.get("protocol_version")
    o = None if pv is None else {"v": pv, "batching": bool(info.get("batching_enabled"))}
    return o, {"enabled": bool(info.get("batching_enabled")), "processor": bool(client.batch_processor.batching_enabled),
               "can_batch": bool(client.batch_processor.can_process_batch([1]))}


class _RaisingSend:
    """Write-stream proxy (a caller-supplied stream object): the n-th `send` raises the scripted exception instead of sending."""

    def __init__(self, inner, nth, exc_name):
        self._inner, self._nth, self._exc, self._count = inner, nth, exc_name, 0

    async def send(self, item):
        self._count += 1
        if self._count == self._nth:
            raise make_exc(self._exc)
        return await self._inner.send(item)

    def __getattr__(self, name):
        return getattr(self._inner, name)


class _RaisingReceive:
    """Read-stream proxy: the n-th `receive` raises the scripted exception."""

    def __init__(self, inner, nth, exc_name):
        self._inner, self._nth, self._exc, self._count = inner, nth, exc_name, 0

    async def receive(self):
        self._count += 1
        if self._count == self._nth:
            raise make_exc(self._exc)
        return await self._inner.receive()

    def __getattr__(self, name):
        return getattr(self._inner, name)


SEQUENCE_KINDS = ["list", "tuple", "deque", "userlist", "sequence"]


def as_sequence(items, kind):
    """The caller's supported versions as another sequence type the library accepts (indexing and `in` are all it uses)."""
    import collections
    import collections.abc

    if kind in (None, "list"):
        return list(items)
    if kind == "tuple":
        return tuple(items)
    if kind == "deque":
        return collections.deque(items)
    if kind == "userlist":
        return collections.UserList(items)
    if kind == "sequence":
        class Versions(collections.abc.Sequence):
            def __init__(self, xs):
                self._xs = list(xs)

            def __getitem__(self, i):
                return self._xs[i]

            def __len__(self):
                return len(self._xs)

        return Versions(items)
    raise ValueError(kind)


class _Streams:
    def __init__(self, wbuf=None):
        import anyio

        self.in_send, self.in_recv = anyio.create_memory_object_stream(math.inf)
        self.out_send, self.out_recv = anyio.create_memory_object_stream(math.inf if wbuf is None else wbuf)
        self.prev_ids = []

    def close(self):
        for s in (self.in_send, self.in_recv, self.out_send, self.out_recv):
            try:
                s.close()
            except Exception:
                pass


async def _client_call(loop, st, c, client):
    """One call of send_initialize(_with_client_tracking) on the streams `st` with a scripted peer.

    Scenario members of `c` (all optional except sup/pref/ans):
      at, tie, D            answer tick (relative), tie order, timeout in ticks (None = the default)
      track                 False | True (StdioClient) | "none" (tracking entry point, client=None) | "bare" (client without the hook)
      noise                 [[kind, count], ..] foreign messages put on the read stream right before the answer
      dup                   the answer is delivered twice
      close_read            the peer closes the read side right after answering
      wbuf, filler, take    write side: buffer size, a foreign message occupying it, when the peer reads again (None = never,
                            "refuses" = the peer closes that direction after answering)
      raise_on              {"where": "send-request" | "send-notification" | "receive", "cls": <EXC_CLASSES key>}: the caller's stream
                            object raises that exception from the named operation
      sup_tuple             the supported versions are handed over as a tuple
    """
    import anyio
    from chuk_mcp.protocol.messages.initialize.send_messages import (
        send_initialize, send_initialize_with_client_tracking,
    )

    loop.tie = c.get("tie", "events")
    backpressure = "wbuf" in c
    trace, raw = [], []
    obs = {}
    state = {"done": False}
    sup_obj = list(c["sup"]) if c.get("sup") is not None else None
    if c.get("_sup_obj") is not None:  # sequences: the caller's very list object
        sup_obj = c["_sup_obj"]

    def drain():
        while True:
            try:
                m = st.out_recv.receive_nowait()
            except Exception:
                break
            w, d = _wire(m)
            if w is not None:
                trace.append(w)
            raw.append(d)

    def fire():
        if state["done"]:
            return
        drain()
        rid = next((d.get("id") for d in reversed(raw) if isinstance(d, dict) and d.get("method") == "initialize"), None)
        if rid is None:
            obs.setdefault("harness", []).append("no initialize request on the wire when the answer was due")
            return
        try:
            n = 0
            for kind, count in c.get("noise") or []:
                for _ in range(count):
                    n += 1
                    st.in_send.send_nowait(_noise_message(kind, rid, n, sup_obj, st.prev_ids[-1] if st.prev_ids else None))
            k = c["ans"]["k"]
            if k == "closed":
                st.in_send.close()
            elif k != "silence":
                msg = _answer_message(c["ans"], rid)
                st.in_send.send_nowait(msg)
                trace.append({"w": "answered"})
                if c.get("dup"):
                    st.in_send.send_nowait(_answer_message(c["ans"], rid))
                if c.get("close_read"):
                    st.in_send.close()
        except Exception as ex:
            obs.setdefault("harness", []).append("answer not delivered: " + repr(ex)[:120])
        for _ in range(int(c.get("filler") or 0)):
            try:
                st.out_send.send_nowait(FILLER)
            except Exception as ex:
                obs.setdefault("harness", []).append("filler not placed: " + repr(ex)[:120])
                break
        if c.get("take") == "refuses":
            st.out_recv.close()

    def take():
        if not state["done"]:
            drain()

    at = c.get("at", 10)
    for _ in range(int(c.get("prefill") or 0)):  # the write buffer already holds foreign messages when the call starts
        st.out_send.send_nowait(FILLER)
    if c["ans"]["k"] != "silence" or backpressure or c.get("noise"):
        loop.at(loop.ticks + at, fire)
    if backpressure and isinstance(c.get("take"), int):
        loop.at(loop.ticks + at + c["take"], take)
    if c.get("self_close") is not None:  # another task of the caller closes the write stream while the send is pending
        loop.at(loop.ticks + at + c["self_close"], lambda: (not state["done"]) and st.out_send.close())
    kwargs = {}
    if sup_obj is not None:
        kwargs["supported_versions"] = (tuple(sup_obj) if c.get("sup_tuple") else
                                        (as_sequence(sup_obj, c["sup_kind"]) if c.get("sup_kind") else sup_obj))
    if c.get("pref") is not None:
        kwargs["preferred_version"] = c["pref"]
    elif c.get("pref_none"):
        kwargs["preferred_version"] = None
    if c.get("D") is not None:
        kwargs["timeout"] = c["D"] * vloop.TICK
    track = c.get("track")
    rstream, wstream = st.in_recv, st.out_send
    ro = c.get("raise_on")
    if ro:
        if ro["where"] == "receive":
            rstream = _RaisingReceive(st.in_recv, 1, ro["cls"])
        else:
            wstream = _RaisingSend(st.out_send, 1 if ro["where"] == "send-request" else 2, ro["cls"])
    t0 = loop.ticks
    import contextlib
    bound = (anyio.move_on_after((at + 4 * (c.get("D") or 61440) + 64) * vloop.TICK)
             if (backpressure and c.get("take") != "refuses") else contextlib.nullcontext())
    with bound:
        try:
            if track == "none":
                res = await send_initialize_with_client_tracking(rstream, wstream, client=None, **kwargs)
            elif track:
                res = await send_initialize_with_client_tracking(rstream, wstream, client=client, **kwargs)
            else:
                res = await send_initialize(rstream, wstream, **kwargs)
            obs["outcome"] = "ok"
            obs["v"] = _json_safe(getattr(res, "protocolVersion", None))
            obs["type"] = type(res).__name__
            if c.get("_hold") is not None:
                c["_hold"].append((obs, res))  # sequences: the result object is looked at again after the later calls
            if c.get("mutate_result"):  # the consumer rewrites the object it was given
                try:
                    res.protocolVersion = "1999-01-01"
                    res.instructions = "rewritten"
                    obs["v_rewritten"] = True
                except Exception:
                    pass
        except BaseException as ex:  # noqa
            if not isinstance(ex, Exception):
                raise  # the horizon's cancellation
            obs.update(_classify(ex))
    if "outcome" not in obs:
        obs["outcome"] = "blocked"
    state["done"] = True
    obs["t"] = loop.ticks - t0
    drain()
    obs["trace"] = trace
    st.prev_ids.extend(d.get("id") for d in raw if isinstance(d, dict) and d.get("method") == "initialize")
    if sup_obj is not None and c.get("sup") is not None and list(sup_obj) != list(c["sup"]):
        obs["sup_after"] = _json_safe(list(sup_obj))  # the caller's list was changed by the call
    if track is True and client is not None:
        obs["tracked"], obs["batch"] = _tracked_obs(client)
    return obs


async def _client_case(loop, c):
    st = _Streams(c.get("wbuf"))
    track = c.get("track")
    client = _tracked_client() if track is True else (_BareClient() if track == "bare" else None)
    try:
        return await _client_call(loop, st, c, client)
    finally:
        st.close()


async def _client_seq_case(loop, c):
    """case = {"steps": [client case, ..], "share_list": bool, "conns": n, "concurrent": bool}: consecutive calls on the SAME
    streams with the SAME tracked client (and, with share_list, the same supported-versions list object whenever consecutive steps
    name the same list).  With "conns": n there are n connections (streams + tracked client each) alive at once and a step's
    "conn" picks one; with "concurrent" all steps (one per connection) run at the same time in a task group."""
    import anyio

    n = int(c.get("conns") or 1)
    sts = [_Streams(None) for _ in range(n)]
    clients = [_tracked_client() for _ in range(n)]
    out = []
    shared = {}
    hold = []
    try:
        if c.get("concurrent"):
            out = [None] * len(c["steps"])

            async def run(i, stp):
                out[i] = await _client_call(loop, sts[int(stp.get("conn") or 0)], dict(stp, track=True, _hold=hold, tie=c["steps"][0].get("tie", "events")),
                                            clients[int(stp.get("conn") or 0)])

            async with anyio.create_task_group() as tg:
                for i, stp in enumerate(c["steps"]):
                    tg.start_soon(run, i, stp)
        else:
            for stp in c["steps"]:
                ci = int(stp.get("conn") or 0)
                stp = dict(stp, track=True, _hold=hold)
                if c.get("share_list") and stp.get("sup") is not None:
                    key = tuple(stp["sup"])
                    stp["_sup_obj"] = shared.setdefault(key, list(stp["sup"]))
                o = await _client_call(loop, sts[ci], stp, clients[ci])
                out.append(o)
                if o["outcome"] == "transport" and n == 1:
                    break  # the streams are gone
    finally:
        for st in sts:
            st.close()
    for o, res in hold:  # what an earlier call returned must not change because of later calls
        if not o.get("v_rewritten"):
            o["late_v"] = _json_safe(getattr(res, "protocolVersion", None))
    if n > 1:  # every connection's tracked client at the very end
        final = [_tracked_obs(cl)[0] for cl in clients]
        return {"steps": out, "final_tracked": final}
    return {"steps": out}


def _run_on_vloop(fn, cases):
    out = []

    async def main():
        loop = __import__("asyncio").get_running_loop()
        for c in cases:
            with debug_logging(c.get("debug")):
                out.append(await fn(loop, c))

    vloop.run(main)
    return out


def run_client(cases):
    return _run_on_vloop(_client_case, cases)


def run_client_seq(cases):
    return _run_on_vloop(_client_seq_case, cases)


def harvest_constants():
    """String and integer constants of the anchored modules' SOURCE (docstrings and long texts excluded)."""
    import ast
    from . import core

    files = ["protocol/messages/initialize/send_messages.py", "protocol/types/versioning.py", "server/protocol_handler.py",
             "server/session/memory.py", "server/session/base.py", "protocol/features/batching.py", "protocol/types/errors.py"]
    strs, ints = set(), set()
    for f in files:
        try:
            tree = ast.parse((core.REPO / "src" / "chuk_mcp" / f).read_text())
        except Exception:
            continue
        doc = set()
        for n in ast.walk(tree):
            if isinstance(n, (ast.Module, ast.ClassDef, ast.FunctionDef, ast.AsyncFunctionDef)):
                b = n.body[0] if n.body else None
                if isinstance(b, ast.Expr) and isinstance(b.value, ast.Constant) and isinstance(b.value.value, str):
                    doc.add(id(b.value))
            if isinstance(n, ast.Expr) and isinstance(n.value, ast.Constant) and isinstance(n.value.value, str):
                doc.add(id(n.value))  # attribute docstrings
        for n in ast.walk(tree):
            if isinstance(n, ast.Constant) and id(n) not in doc:
                v = n.value
                if isinstance(v, str) and 0 < len(v) <= 48 and "\n" not in v:
                    strs.add(v)
                elif isinstance(v, int) and not isinstance(v, bool):
                    ints.add(v)
    return sorted(strs), sorted(ints | {-x for x in ints})


# ---------------------------------------------------------------------------------- end to end
async def _handshake_case(loop, c):
    """Real client <-> real handler.  Both directions cross the pipe as JSON text."""
    import anyio
    from chuk_mcp.protocol.messages.initialize.send_messages import send_initialize
    from chuk_mcp.protocol.messages.json_rpc_message import parse_message

    loop.tie = "events"
    handler = _new_handler()
    buf = math.inf if c.get("buf") is None else c["buf"]  # 0 = both directions are rendezvous pipes
    to_client_send, to_client_recv = anyio.create_memory_object_stream(buf)
    from_client_send, from_client_recv = anyio.create_memory_object_stream(buf)
    trace = []
    obs = {"server": []}
    sids = []

    async def server():
        async for m in from_client_recv:
            w, d = _wire(m)
            trace.append(w)
            text = json.dumps(d)
            try:
                resp, sid = await handler.handle_message(parse_message(json.loads(text)))
            except Exception as ex:
                obs["server"].append("raised:" + type(ex).__name__)
                continue
            if sid is not None:
                sids.append(sid)
            if resp is not None:
                rd = resp.model_dump(exclude_none=True)
                if w["w"] == "initialize":
                    trace.append({"w": "answered"})
                    obs["answered"] = _json_safe((rd.get("result") or {}).get("protocolVersion")) if isinstance(rd.get("result"), dict) else None
                await to_client_send.send(parse_message(json.loads(json.dumps(rd))))

    kwargs = {"timeout": c.get("D", 2048) * vloop.TICK}
    if c.get("sup") is not None:
        kwargs["supported_versions"] = as_sequence(c["sup"], c.get("sup_kind"))
    if c.get("pref") is not None:
        kwargs["preferred_version"] = c["pref"]
    async with anyio.create_task_group() as tg:
        tg.start_soon(server)
        try:
            res = await send_initialize(to_client_recv, from_client_send, **kwargs)
            obs["outcome"] = "ok"
            obs["v"] = _json_safe(getattr(res, "protocolVersion", None))
        except Exception as ex:
            obs.update(_classify(ex))
        # let the server task consume what the client wrote last (the notification)
        for _ in range(3):
            await anyio.sleep(0)
        from_client_send.close()
    obs["trace"] = trace
    obs["sessions"] = len(sids)
    if sids:
        s = handler.session_manager.get_session(sids[0])
        obs["session"] = _json_safe(s.protocol_version) if s is not None else None
    else:
        obs["session"] = None
    for s in (to_client_send, to_client_recv, from_client_recv):
        s.close()
    return obs


async def _multi_handshake_case(loop, c):
    """Several real clients against ONE real handler whose server loop first takes every pending initialize request, handles
    them all, and only then serialises and sends the answers (a queued writer / several connections served by one loop).
    c = {"clients": [{"sup": .., "pref": ..}, ..]}; one observation per client, as in `_handshake_case`."""
    import anyio
    from chuk_mcp.protocol.messages.initialize.send_messages import send_initialize
    from chuk_mcp.protocol.messages.json_rpc_message import parse_message

    loop.tie = "events"
    handler = _new_handler()
    n = len(c["clients"])
    pipes = [(anyio.create_memory_object_stream(math.inf), anyio.create_memory_object_stream(math.inf)) for _ in range(n)]
    obs = [{"server": [], "trace": []} for _ in range(n)]
    sids = [None] * n

    async def server():
        pending = []
        for i in range(n):  # take every client's request first ...
            (_tc_send, _tc_recv), (_fc_send, fc_recv) = pipes[i]
            m = await fc_recv.receive()
            w, d = _wire(m)
            obs[i]["trace"].append(w)
            pending.append((i, json.dumps(d)))
        handled = []
        for i, text in pending:  # ... handle them all ...
            try:
                resp, sid = await handler.handle_message(parse_message(json.loads(text)))
            except Exception as ex:
                obs[i]["server"].append("raised:" + type(ex).__name__)
                continue
            sids[i] = sid
            handled.append((i, resp))
        for i, resp in handled:  # ... and only then put the answers on the wire
            if resp is None:
                continue
            rd = resp.model_dump(exclude_none=True)
            obs[i]["trace"].append({"w": "answered"})
            res = rd.get("result")
            obs[i]["answered"] = _json_safe(res.get("protocolVersion")) if isinstance(res, dict) else None
            await pipes[i][0][0].send(parse_message(json.loads(json.dumps(rd))))

        async def drain(i):
            async for m in pipes[i][1][1]:
                w, d = _wire(m)
                obs[i]["trace"].append(w)
                try:
                    await handler.handle_message(parse_message(json.loads(json.dumps(d))), sids[i])
                except Exception as ex:
                    obs[i]["server"].append("raised:" + type(ex).__name__)

        async with anyio.create_task_group() as tg2:
            for i in range(n):
                tg2.start_soon(drain, i)

    async def client(i):
        cl = c["clients"][i]
        kwargs = {"timeout": 2048 * vloop.TICK}
        if cl.get("sup") is not None:
            kwargs["supported_versions"] = as_sequence(cl["sup"], cl.get("sup_kind"))
        if cl.get("pref") is not None:
            kwargs["preferred_version"] = cl["pref"]
        try:
            res = await send_initialize(pipes[i][0][1], pipes[i][1][0], **kwargs)
            obs[i]["outcome"] = "ok"
            obs[i]["v"] = _json_safe(getattr(res, "protocolVersion", None))
        except Exception as ex:
            obs[i].update(_classify(ex))
        for _ in range(3):
            await anyio.sleep(0)
        pipes[i][1][0].close()

    async with anyio.create_task_group() as tg:
        tg.start_soon(server)
        for i in range(n):
            tg.start_soon(client, i)
    for i in range(n):
        obs[i]["sessions"] = 1 if sids[i] is not None else 0
        s_ = handler.session_manager.get_session(sids[i]) if sids[i] is not None else None
        obs[i]["session"] = _json_safe(s_.protocol_version) if s_ is not None else None
        for (a, b) in pipes[i]:
            a.close()
            b.close()
    return {"clients": obs}


def run_handshake(cases):
    return _run_on_vloop(lambda loop, c: _multi_handshake_case(loop, c) if "clients" in c else _handshake_case(loop, c), cases)


def server_supported():
    """The server's supported list as the library itself states it (oracle side)."""
    from chuk_mcp.protocol.types.versioning import SUPPORTED_VERSIONS

    return list(SUPPORTED_VERSIONS)


def real_supports_batching(v):
    from chuk_mcp.protocol.features.batching import supports_batching

    return bool(supports_batching(v))


# ---------------------------------------------------------------------------------- version utilities (versioning.py)
RAISES = "<raises>"

UNICODE_VERSIONS = [
    "٢٠٢٥-٠٦-١٨", "۲۰۲۵-۰۶-۱۸", "２０２５-０６-１８", "२०२५-०६-१८", "2025-06-1٨", "٢025-06-18", "𝟐𝟎𝟐𝟓-𝟎𝟔-𝟏𝟖", "௨௦௨௫-௦௬-௧௮",
    "202⁵-06-18", "2025-06-1²", "Ⅻ025-06-18", "2025‐06‐18", "2025−06−18", "2025-06-18​", "﻿2025-06-18", "２０２４-１１-０５",
]
WHITESPACE_VERSIONS = [
    "2025-06-18\n", "2025-06-18\n\n", "\n2025-06-18", "2025-06-18 ", " 2025-06-18", "2025-06-18\r\n", "2025-06-18\r", "2025-06-18\t",
    "2025-06-18\x0b", "2025-06-18\x0c", "2025-06-18\x85", "2025-06-18 ", "2025-\n06-18", "2025-06-18\x00", "2024-11-05\n", "\n",
]
DATE_VERSIONS = [
    "2025-06-17", "2025-06-18", "2025-06-19", "2025-06-08", "2025-05-31", "2025-07-01", "2025-03-26", "2025-03-25", "2025-03-27",
    "2024-11-05", "2024-11-04", "2024-11-06", "2024-12-31", "2025-01-01", "2026-01-01", "1999-12-31", "0000-00-00", "9999-99-99",
    "2025-13-45", "2025-00-00", "0001-01-01", "2025-6-18", "2025-06-8", "25-06-18", "02025-06-18", "2025-006-18", "2025-06-018",
    "20250618", "2025/06/18", "2025-06", "2025-06-18-01", "-2025-06-18", "+2025-06-18", "2_25-06-18", "2025-0_-18", "", "-", "--",
    "draft", "latest", "unknown", "None", "2025-06-18T00:00:00Z", "v2025-06-18", "2025.06.18",
]


def version_pool(extra=()):
    pool = list(dict.fromkeys(list(REAL) + DATE_VERSIONS + WHITESPACE_VERSIONS + UNICODE_VERSIONS + list(extra)))
    return pool


def _call(f, *a):
    try:
        r = f(*a)
    except ValueError:
        return RAISES
    except Exception as ex:  # noqa
        return f"<raises:{type(ex).__name__}>"
    if isinstance(r, tuple):
        return list(r)
    return r


def run_versionlib(cases):
    import copy
    import warnings
    from chuk_mcp.protocol.types import versioning as VV
    from chuk_mcp.protocol.messages.initialize import send_messages as SM
    from chuk_mcp.protocol.features import batching as B

    PV = VV.ProtocolVersion
    out = []
    for c in cases:
      with debug_logging(c.get("debug")):
          op = c["op"]
          if op == "negotiate":
              cl, sl = list(c["c"]), list(c["s"])
              o = {"r": _call(VV.negotiate_version, cl, sl)}
              if cl != c["c"] or sl != c["s"]:
                  o["mutated"] = True
          elif op == "pair":
              a, b = c["a"], c["b"]
              o = {"compatible": _call(VV.validate_version_compatibility, a, b), "compare": _call(PV.compare, a, b),
                   "newer": _call(PV.is_newer, a, b), "older": _call(PV.is_older, a, b)}
          elif op == "one":
              v = c["v"]
              info = _call(VV.get_version_info, v)
              if isinstance(info, dict):
                  info = dict(info)
                  if info.pop("version", None) != v:
                      info["version_member_differs"] = True
              o = {"valid": _call(PV.validate_format, v), "supported": _call(PV.is_supported, v), "parse": _call(PV.parse_version, v),
                   "info": info,
                   # the helpers next to send_initialize and the legacy batching wrapper against the functions they name
                   "alias_supported": _call(SM.is_version_supported, v), "alias_valid": _call(SM.validate_version_format, v)}
              with warnings.catch_warnings(record=True) as w:
                  warnings.simplefilter("always")
                  o["alias_batching"] = _call(B._supports_batch_processing, v)
                  o["alias_batching_warned"] = any(issubclass(x.category, DeprecationWarning) for x in w)
              o["batching"] = _call(B.supports_batching, v)
          elif op == "consts":
              before = copy.deepcopy(VV.SUPPORTED_VERSIONS)
              got = PV.get_all_supported()
              got2 = SM.get_supported_versions()
              o = {"latest": _call(PV.get_latest_supported), "minimum": _call(PV.get_minimum_supported), "all": list(got),
                   "alias_all": list(got2), "alias_latest": _call(SM.get_current_version),
                   "module_current": VV.CURRENT_VERSION, "module_minimum": VV.MINIMUM_VERSION, "module_list": list(VV.SUPPORTED_VERSIONS)}
              got.append("mutated-by-the-caller")
              got2.insert(0, "mutated-by-the-caller")
              o["copy_is_independent"] = VV.SUPPORTED_VERSIONS == before and PV.get_all_supported() == before
          elif op == "format":
              o = {"r": _call(VV.format_version_list, list(c["vs"]))}
          else:
              raise ValueError(op)
          out.append(o)
    return out


# ---------------------------------------------------------------------------------- other backends (worker process)
_WORKERS = {}


def _worker(backend):
    """A persistent worker process running this harness against the library started under `backend`:
    "fallback" = MCP_FORCE_FALLBACK=1 (the library without Pydantic)."""
    import atexit
    import os
    import subprocess
    import sys
    from . import core

    w = _WORKERS.get(backend)
    if w is not None and w.poll() is None:
        return w
    env = dict(os.environ)
    env["PYTHONPATH"] = str(core.ROOT / "py") + os.pathsep + env.get("PYTHONPATH", "")
    env["VERIF_REPO"] = str(core.REPO)
    if backend == "fallback":
        env["MCP_FORCE_FALLBACK"] = "1"
    else:
        raise ValueError(backend)
    w = subprocess.Popen([sys.executable, "-m", "verifpy.version_worker"], stdin=subprocess.PIPE, stdout=subprocess.PIPE,
                         stderr=subprocess.DEVNULL, text=True, env=env, cwd=str(core.ROOT))
    _WORKERS[backend] = w

    def _stop(w=w):
        try:
            w.stdin.close()
            w.wait(timeout=3)
        except Exception:
            w.kill()
            w.wait()
        finally:
            try:
                w.stdout.close()
            except Exception:
                pass

    atexit.register(_stop)
    w.stdin.write(json.dumps({"fn": "info"}) + "\n")
    w.stdin.flush()
    info = json.loads(w.stdout.readline()).get("info") or {}
    if backend == "fallback" and info.get("pydantic") is not False:
        raise RuntimeError(f"worker for backend {backend!r} did not come up without Pydantic: {info}")
    return w


def run_in_worker(backend, fn_name, cases):
    w = _worker(backend)
    w.stdin.write(json.dumps({"fn": fn_name, "cases": cases}) + "\n")
    w.stdin.flush()
    line = w.stdout.readline()
    if not line:
        raise RuntimeError(f"worker for backend {backend!r} died")
    ans = json.loads(line)
    if "error" in ans:
        raise RuntimeError("worker: " + ans["error"])
    return ans["obs"]


def run_split(fn_name, cases):
    """Run `fn_name` in-process for the cases without a "backend" member and in the worker of that backend for the others; the
    observations come back in the order of the cases."""
    here = [c for c in cases if not c.get("backend")]
    fn = globals()[fn_name]
    by_backend = {}
    for c in cases:
        if c.get("backend"):
            by_backend.setdefault(c["backend"], []).append(c)
    for b, cs in by_backend.items():  # the workers start on their share while this process does its own
        w = _worker(b)
        w.stdin.write(json.dumps({"fn": fn_name, "cases": cs}) + "\n")
        w.stdin.flush()
    obs_here = iter(fn(here) if here else [])
    obs_there = {}
    for b in by_backend:
        line = _WORKERS[b].stdout.readline()
        if not line:
            raise RuntimeError(f"worker for backend {b!r} died")
        ans = json.loads(line)
        if "error" in ans:
            raise RuntimeError("worker: " + ans["error"])
        obs_there[b] = iter(ans["obs"])
    return [next(obs_there[c["backend"]]) if c.get("backend") else next(obs_here) for c in cases]


# ---------------------------------------------------------------------------------- stdio_client_with_initialize
def run_stdio_init(cases):
    """The convenience entry point `stdio_client_with_initialize` (spawns the server, initializes, tracks the version) through the
    `anyio.open_process` seam with the scripted child of stdio_h: the child answers the initialize request with the case's version
    (or never).  case = {"sup", "sup_kind", "pref", "ans": {"k": "version", "s"} | {"k": "silence"}}.  Observed: outcome class,
    returned version, the initialize request and the initialized notifications the child received, the client's batching state."""
    from . import stdio_h as S

    mod = S.stdio_module()
    holder = {}

    async def one(loop, c):
        import anyio
        from chuk_mcp.transports.stdio.parameters import StdioParameters

        loop.tie = "events"
        script = [("reply_init", c["ans"]["s"])] if c["ans"]["k"] == "version" else []
        script += [("sleep", 4000)]
        proc = S.FakeProcess(script)
        proc.t0 = loop.ticks
        holder["proc"] = proc
        obs = {}
        kwargs = {"timeout": 1.0}
        if c.get("sup") is not None:
            kwargs["supported_versions"] = as_sequence(c["sup"], c.get("sup_kind"))
        if c.get("pref") is not None:
            kwargs["preferred_version"] = c["pref"]
        try:
            async with mod.stdio_client_with_initialize(StdioParameters(command="verif-fake-child", args=[]), **kwargs) as (_r, _w, res):
                obs["outcome"] = "ok"
                obs["v"] = _json_safe(getattr(res, "protocolVersion", None))
                obs["type"] = type(res).__name__
                await anyio.sleep(5 * S.STEP)  # let the writer task hand the notification to the child
        except BaseException as ex:  # noqa
            if isinstance(ex, BaseExceptionGroup):
                leaves = []

                def walk(e):
                    for x in getattr(e, "exceptions", [e]):
                        (walk(x) if isinstance(x, BaseExceptionGroup) else leaves.append(x))

                walk(ex)
                ex = next((x for x in leaves if isinstance(x, Exception)), ex)
            if not isinstance(ex, Exception):
                raise
            obs.update(_classify(ex))
        trace = []
        for b in proc.stdin.sends:
            try:
                d = json.loads(b.decode("utf-8"))
            except Exception:
                continue
            w, _ = _wire(d)
            if w is not None:
                trace.append(w)
        obs["trace"] = trace
        return obs

    saved = S._patched(mod, holder)
    try:
        return _run_on_vloop(one, cases)
    finally:
        S._restore(saved)
