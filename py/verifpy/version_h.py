"""Harness for the version-negotiation properties (C03 client, C04 server + end-to-end).

* `run_server(cases)`   — real `ProtocolHandler.handle_message` on an initialize request carrying
                          the case's `protocolVersion` value; observes the answer and the session.
* `run_client(cases)`   — real `send_initialize` / `send_initialize_with_client_tracking` over anyio
                          memory streams with a scripted peer, under the virtual-time loop (silence
                          costs no wall-clock).
* `run_handshake(cases)`— real client against the real handler over an in-memory pipe (each
                          message crosses the pipe as JSON text).
All cases of one batch run sequentially on ONE virtual loop (the clock just keeps counting),
each with fresh streams / handler / client objects.
"""
from __future__ import annotations

import json
import math

from . import vloop

# ---------------------------------------------------------------------------------- universe
REAL = ["2025-06-18", "2025-03-26", "2024-11-05"]
INVENTED = ["2026-01-01", "1999-12-31", "draft-7"]
UNIVERSE = REAL + INVENTED
OUTSIDE = "2000-01-01"  # a preferred version that is in no generated list

CAPS = {"tools": {"listChanged": True}}
SINFO = {"name": "scripted-peer", "version": "1.0"}

MALFORMED = {
    # name -> result member of the response
    "no-version": {"capabilities": CAPS, "serverInfo": SINFO},
    "version-int": {"protocolVersion": 20250618, "capabilities": CAPS, "serverInfo": SINFO},
    "version-null": {"protocolVersion": None, "capabilities": CAPS, "serverInfo": SINFO},
    "version-list": {"protocolVersion": ["2025-06-18"], "capabilities": CAPS, "serverInfo": SINFO},
    "version-bool": {"protocolVersion": True, "capabilities": CAPS, "serverInfo": SINFO},
    "version-object": {"protocolVersion": {"v": "2025-06-18"}, "capabilities": CAPS, "serverInfo": SINFO},
    "no-capabilities": {"protocolVersion": "2025-06-18", "serverInfo": SINFO},
    "capabilities-str": {"protocolVersion": "2025-06-18", "capabilities": "all", "serverInfo": SINFO},
    "no-serverinfo": {"protocolVersion": "2025-06-18", "capabilities": CAPS},
    "serverinfo-int": {"protocolVersion": "2025-06-18", "capabilities": CAPS, "serverInfo": 7},
    "empty-object": {},
    "result-list": ["2025-06-18"],
    "result-string": "2025-06-18",
    "result-int": 5,
}


def named_error_codes():
    """Every integer constant and every ERROR_MESSAGES key of types/errors.py (read from the
    real module), plus samples outside them."""
    from chuk_mcp.protocol.types import errors as E

    named = {v for k, v in vars(E).items() if k.isupper() and isinstance(v, int) and not isinstance(v, bool)}
    named |= {k for k in getattr(E, "ERROR_MESSAGES", {}) if isinstance(k, int)}
    return sorted(named) + [-32050, -1, 0, 1, 401, 2**31, -(2**63)]


ERROR_MESSAGES = [
    "boom",
    None,  # no message member
    "Unsupported protocol version",
    "UNSUPPORTED PROTOCOL VERSION 1.0",
    "bad Protocol  Version",  # two spaces: no mention
    "protocol_version rejected",
    "protocolversion",
    "the protocol versio",
    "Unsupported prÖtocol version / protocol versiİon",
    "xprotocol versionx",
]


# ---------------------------------------------------------------------------------- server
def _new_handler():
    from chuk_mcp.server.protocol_handler import ProtocolHandler
    from chuk_mcp.protocol.types.info import ServerInfo
    from chuk_mcp.protocol.types.capabilities import ServerCapabilities

    return ProtocolHandler(ServerInfo(name="verif-server", version="1.0"), ServerCapabilities())


def init_request_dict(req, msg_id=1):
    """The initialize request for a `Requested` description.
    req = {"k":"str","s":..} | {"k":"json","v":<non-string JSON>} | {"k":"absent","shape":..}"""
    d = {"jsonrpc": "2.0", "id": msg_id, "method": "initialize"}
    base = {"capabilities": {}, "clientInfo": {"name": "verif-client", "version": "1.0"}}
    k = req["k"]
    if k == "str":
        d["params"] = dict(base, protocolVersion=req["s"])
    elif k == "json":
        d["params"] = dict(base, protocolVersion=req["v"])
    elif k == "absent":
        shape = req.get("shape", "no-member")
        if shape == "no-member":
            d["params"] = base
        elif shape == "empty-params":
            d["params"] = {}
        elif shape == "null-params":
            d["params"] = None
        elif shape == "no-params":
            pass
        else:
            raise ValueError(shape)
    else:
        raise ValueError(k)
    return d


def _json_safe(v):
    try:
        json.dumps(v)
        return v
    except Exception:
        return {"__repr__": repr(v)[:80]}


async def _serve_one(handler, d, session_id=None):
    """One message through the real handler; observation of the answer and of the session."""
    from chuk_mcp.protocol.messages.json_rpc_message import parse_message

    obs = {}
    try:
        msg = parse_message(d)
    except Exception as ex:
        return {"kind": "unparsable", "exc": type(ex).__name__}, None
    try:
        resp, sid = await (handler.handle_message(msg) if session_id is None else handler.handle_message(msg, session_id))
    except Exception as ex:
        return {"kind": "raised", "exc": type(ex).__name__}, None
    out = None
    if resp is None:
        obs["kind"] = "none"
    else:
        out = resp.model_dump(exclude_none=True) if hasattr(resp, "model_dump") else resp
        if isinstance(out, dict) and "error" in out and out.get("error") is not None:
            obs["kind"] = "error"
            obs["code"] = (out["error"] or {}).get("code")
        else:
            obs["kind"] = "result"
            # exclude_none drops a null member: read the member off the object itself
            res = getattr(resp, "result", None)
            if isinstance(res, dict):
                obs["has_version"] = "protocolVersion" in res
                obs["answered"] = _json_safe(res.get("protocolVersion"))
            else:
                obs["has_version"] = False
                obs["answered"] = None
    obs["has_session"] = False
    obs["sid"] = sid
    if sid is not None:
        s = handler.session_manager.get_session(sid)
        if s is not None:
            obs["has_session"] = True
            obs["session"] = _json_safe(s.protocol_version)
    return obs, out


def run_server(cases):
    import asyncio

    async def main():
        out = []
        for c in cases:
            handler = _new_handler()
            o, _ = await _serve_one(handler, init_request_dict(c["req"]))
            o.pop("sid", None)
            o["sessions"] = handler.session_manager.get_session_count()
            out.append(o)
        return out

    return asyncio.run(main())


def run_server_seq(cases):
    """case = {"steps": [{"req": .., "carry": None | "prev" | "first" | "bogus"}, ..]}: the initialize
    requests go to ONE handler in order; `carry` says which session id accompanies the message (as a
    transport does for a peer that already holds one).  Between two steps a ping travels on the carried
    session.  Per step: the answer, and what the store holds under the session id returned for that
    step, read right after the step."""
    import asyncio

    async def main():
        out = []
        for c in cases:
            handler = _new_handler()
            sids, steps = [], []
            for i, st in enumerate(c["steps"]):
                carry = st.get("carry")
                sid_in = None
                if carry == "prev" and sids:
                    sid_in = sids[-1]
                elif carry == "first" and sids:
                    sid_in = sids[0]
                elif carry == "bogus":
                    sid_in = "0" * 32
                if sid_in is not None:
                    try:
                        await handler.handle_message(
                            __import__("chuk_mcp.protocol.messages.json_rpc_message", fromlist=["parse_message"]).parse_message(
                                {"jsonrpc": "2.0", "id": f"ping-{i}", "method": "ping"}), sid_in)
                    except Exception:
                        pass
                before = handler.session_manager.get_session_count()
                o, _ = await _serve_one(handler, init_request_dict(st["req"], msg_id=f"init-{i}"), session_id=sid_in)
                o["carried"] = carry if sid_in is not None else None
                o["new_sessions"] = handler.session_manager.get_session_count() - before
                sid = o.pop("sid", None)
                o["reused_carried"] = sid is not None and sid == sid_in
                if sid is not None:
                    sids.append(sid)
                steps.append(o)
            out.append({"steps": steps})
        return out

    return asyncio.run(main())


# ---------------------------------------------------------------------------------- client
def _answer_message(ans, msg_id):
    """Scripted peer's answer as the object a transport puts on the read stream."""
    from chuk_mcp.protocol.messages.json_rpc_message import JSONRPCMessage, parse_message

    k = ans["k"]
    if k == "version":
        res = {"protocolVersion": ans["s"], "capabilities": CAPS, "serverInfo": SINFO}
        if ans.get("extra"):
            res["instructions"] = "be nice"
            res["_meta"] = {"x": None}
        return parse_message({"jsonrpc": "2.0", "id": msg_id, "result": res})
    if k == "malformed":
        return parse_message({"jsonrpc": "2.0", "id": msg_id, "result": MALFORMED[ans["shape"]]})
    if k == "rpc":
        if ans.get("msg") is None:
            return JSONRPCMessage(id=msg_id, error={"code": ans["code"]})
        return parse_message({"jsonrpc": "2.0", "id": msg_id, "error": {"code": ans["code"], "message": ans["msg"]}})
    raise ValueError(k)


FILLER = {"jsonrpc": "2.0", "method": "notifications/verif-filler"}  # somebody else's message occupying the write buffer


def _wire(m):
    """Written message -> the transcript vocabulary of the model."""
    d = m.model_dump(exclude_none=True) if hasattr(m, "model_dump") else m
    if isinstance(d, dict) and d.get("method") == FILLER["method"]:
        return None, d
    if isinstance(d, dict) and d.get("method") == "initialize" and "id" in d:
        pv = (d.get("params") or {}).get("protocolVersion")
        return {"w": "initialize", "v": pv}, d
    if isinstance(d, dict) and d.get("method") == "notifications/initialized" and d.get("id") is None:
        return {"w": "initialized"}, d
    return {"w": "other", "d": _json_safe(d)}, d


def _classify(ex):
    from chuk_mcp.protocol.types.errors import RetryableError, NonRetryableError, VersionMismatchError

    if isinstance(ex, VersionMismatchError):
        return {"outcome": "mismatch"}
    if isinstance(ex, TimeoutError):
        return {"outcome": "timeout"}
    if isinstance(ex, (RetryableError, NonRetryableError)):
        return {"outcome": "rpc", "code": ex.code}
    if isinstance(ex, IndexError):
        return {"outcome": "noversions"}
    return {"outcome": "invalid", "exc": type(ex).__name__}


def _tracked_client():
    from chuk_mcp.transports.stdio.stdio_client import StdioClient
    from chuk_mcp.transports.stdio.parameters import StdioParameters

    return StdioClient(StdioParameters(command="verif-no-such-command", args=[]))


def _tracked_obs(client):
    info = client.get_batching_info()
    pv = info.get("protocol_version")
    o = None if pv is None else {"v": pv, "batching": bool(info.get("batching_enabled"))}
    return o, {"enabled": bool(info.get("batching_enabled")), "processor": bool(client.batch_processor.batching_enabled),
               "can_batch": bool(client.batch_processor.can_process_batch([1]))}


async def _client_case(loop, c):
    import anyio
    from chuk_mcp.protocol.messages.initialize.send_messages import (
        send_initialize, send_initialize_with_client_tracking,
    )

    loop.tie = c.get("tie", "events")
    # write side: unbounded by default; `wbuf` = buffer size of the write stream (0 = rendezvous),
    # `filler` = a foreign message occupies the buffer right after the answer, `take` = ticks after
    # the answer at which the peer reads the write stream again (None = never)
    backpressure = "wbuf" in c
    wbuf = c.get("wbuf")
    in_send, in_recv = anyio.create_memory_object_stream(math.inf)
    out_send, out_recv = anyio.create_memory_object_stream(math.inf if wbuf is None else wbuf)
    trace, raw = [], []
    obs = {}

    def drain():
        while True:
            try:
                m = out_recv.receive_nowait()
            except Exception:
                break
            w, d = _wire(m)
            if w is not None:
                trace.append(w)
            raw.append(d)

    def fire():
        drain()
        rid = next((d.get("id") for d in raw if isinstance(d, dict) and d.get("method") == "initialize"), None)
        if rid is None:
            obs.setdefault("harness", []).append("no initialize request on the wire when the answer was due")
            return
        if c["ans"]["k"] == "silence":
            return
        try:
            in_send.send_nowait(_answer_message(c["ans"], rid))
            trace.append({"w": "answered"})
        except Exception as ex:
            obs.setdefault("harness", []).append("answer not built: " + repr(ex)[:120])
        if c.get("filler"):
            try:
                out_send.send_nowait(FILLER)
            except Exception as ex:
                obs.setdefault("harness", []).append("filler not placed: " + repr(ex)[:120])

    if c["ans"]["k"] != "silence" or backpressure:
        loop.at(loop.ticks + c.get("at", 10), fire)
    if backpressure and c.get("take") is not None:
        loop.at(loop.ticks + c.get("at", 10) + c["take"], drain)
    kwargs = {}
    if c.get("sup") is not None:
        kwargs["supported_versions"] = list(c["sup"])
    if c.get("pref") is not None:
        kwargs["preferred_version"] = c["pref"]
    if c.get("D") is not None:
        kwargs["timeout"] = c["D"] * vloop.TICK
    client = _tracked_client() if c.get("track") else None
    t0 = loop.ticks
    # a call that is still pending long after everything scripted has happened is reported as
    # "blocked" (only possible with a write side that does not take what the client sends)
    horizon = (c.get("at", 10) + 4 * (c.get("D") or 61440) + 64) * vloop.TICK if backpressure else math.inf
    with anyio.move_on_after(horizon):
        try:
            if c.get("track"):
                res = await send_initialize_with_client_tracking(in_recv, out_send, client=client, **kwargs)
            else:
                res = await send_initialize(in_recv, out_send, **kwargs)
            obs["outcome"] = "ok"
            obs["v"] = _json_safe(getattr(res, "protocolVersion", None))
            obs["type"] = type(res).__name__
        except BaseException as ex:  # noqa
            if not isinstance(ex, Exception):
                raise  # the horizon's cancellation
            obs.update(_classify(ex))
    if "outcome" not in obs:
        obs["outcome"] = "blocked"
    obs["t"] = loop.ticks - t0
    drain()
    obs["trace"] = trace
    if client is not None:
        obs["tracked"], obs["batch"] = _tracked_obs(client)
    for s in (in_send, in_recv, out_send, out_recv):
        s.close()
    return obs


def _run_on_vloop(fn, cases):
    out = []

    async def main():
        loop = __import__("asyncio").get_running_loop()
        for c in cases:
            out.append(await fn(loop, c))

    vloop.run(main)
    return out


def run_client(cases):
    return _run_on_vloop(_client_case, cases)


# ---------------------------------------------------------------------------------- end to end
async def _handshake_case(loop, c):
    """Real client <-> real handler.  Both directions cross the pipe as JSON text."""
    import anyio
    from chuk_mcp.protocol.messages.initialize.send_messages import send_initialize
    from chuk_mcp.protocol.messages.json_rpc_message import parse_message

    loop.tie = "events"
    handler = _new_handler()
    to_client_send, to_client_recv = anyio.create_memory_object_stream(math.inf)
    from_client_send, from_client_recv = anyio.create_memory_object_stream(math.inf)
    trace = []
    obs = {"server": []}
    sids = []

    async def server():
        async for m in from_client_recv:
            w, d = _wire(m)
            trace.append(w)
            text = json.dumps(d)
            try:
                resp, sid = await handler.handle_message(parse_message(json.loads(text)))
            except Exception as ex:
                obs["server"].append("raised:" + type(ex).__name__)
                continue
            if sid is not None:
                sids.append(sid)
            if resp is not None:
                rd = resp.model_dump(exclude_none=True)
                if w["w"] == "initialize":
                    trace.append({"w": "answered"})
                    obs["answered"] = _json_safe((rd.get("result") or {}).get("protocolVersion")) if isinstance(rd.get("result"), dict) else None
                await to_client_send.send(parse_message(json.loads(json.dumps(rd))))

    kwargs = {"timeout": c.get("D", 2048) * vloop.TICK}
    if c.get("sup") is not None:
        kwargs["supported_versions"] = list(c["sup"])
    if c.get("pref") is not None:
        kwargs["preferred_version"] = c["pref"]
    async with anyio.create_task_group() as tg:
        tg.start_soon(server)
        try:
            res = await send_initialize(to_client_recv, from_client_send, **kwargs)
            obs["outcome"] = "ok"
            obs["v"] = _json_safe(getattr(res, "protocolVersion", None))
        except Exception as ex:
            obs.update(_classify(ex))
        # let the server task consume what the client wrote last (the notification)
        for _ in range(3):
            await anyio.sleep(0)
        from_client_send.close()
    obs["trace"] = trace
    obs["sessions"] = len(sids)
    if sids:
        s = handler.session_manager.get_session(sids[0])
        obs["session"] = _json_safe(s.protocol_version) if s is not None else None
    else:
        obs["session"] = None
    for s in (to_client_send, to_client_recv, from_client_recv):
        s.close()
    return obs


def run_handshake(cases):
    return _run_on_vloop(_handshake_case, cases)


def server_supported():
    """The server's supported list as the library itself states it (oracle side)."""
    from chuk_mcp.protocol.types.versioning import SUPPORTED_VERSIONS

    return list(SUPPORTED_VERSIONS)


def real_supports_batching(v):
    from chuk_mcp.protocol.features.batching import supports_batching

    return bool(supports_batching(v))
