"""Translator for the pure transport-selection logic next to C15 (re-read from /repo on every run):

  transports/http/http_client.py   is_streamable_http_url, detect_transport_type, try_http_with_sse_fallback
  transports/sse/sse_client.py     is_sse_url
  transports/http/parameters.py, transports/sse/parameters.py     the `url` validators

-> lean/Verif/Gen/UrlRules.lean: the literal tables of these functions (indicator lists, accepted
statuses / content types, the probe-URL constructions, the result names, the fallback rule).  The
control structure around the tables is hand-modelled in `Verif/Model/Detect.lean`; this translator
re-reads the tables when the functions have the SHAPES it recognises (checked on the AST, modulo
variable names).  A function rewritten into another shape keeps the tables of the verified commit
(`PINNED`), `translatable := false` and `report["not_reread"]` say so, and it is the correspondence
run that decides whether model and code still agree (the theorems hold for whatever the tables are,
except the two consistency facts `results_distinct` / `chosen_iff`, which are about the tables).
"""
from __future__ import annotations

import ast
import json
from pathlib import Path

from . import translate


class No(Exception):
    pass


def _fn(tree, name):
    for n in ast.walk(tree):
        if isinstance(n, (ast.FunctionDef, ast.AsyncFunctionDef)) and n.name == name:
            return n
    raise No(f"function {name} not found")


def _body(fn):
    b = list(fn.body)
    if b and isinstance(b[0], ast.Expr) and isinstance(getattr(b[0], "value", None), ast.Constant) and isinstance(b[0].value.value, str):
        b = b[1:]
    return b


def _str_list(e):
    if not isinstance(e, (ast.List, ast.Tuple)) or not all(isinstance(x, ast.Constant) and isinstance(x.value, str) for x in e.elts):
        raise No("expected a list of string literals")
    return [x.value for x in e.elts]


def _is_name(e, n):
    return isinstance(e, ast.Name) and e.id == n


def _any_in(e, lower_name, lists):
    """`any(x in <lower> for x in <L>)` -> L's literal list"""
    if not (isinstance(e, ast.Call) and _is_name(e.func, "any") and len(e.args) == 1 and isinstance(e.args[0], ast.GeneratorExp)):
        raise No("expected any(<x> in <lowered url> for <x> in <list>)")
    g = e.args[0]
    if len(g.generators) != 1 or g.generators[0].ifs or not isinstance(g.generators[0].target, ast.Name):
        raise No("unexpected generator")
    var = g.generators[0].target.id
    it = g.generators[0].iter
    c = g.elt
    if not (isinstance(c, ast.Compare) and len(c.ops) == 1 and isinstance(c.ops[0], ast.In) and _is_name(c.left, var)
            and _is_name(c.comparators[0], lower_name)):
        raise No("expected <x> in <lowered url>")
    if isinstance(it, ast.Name) and it.id in lists:
        return lists[it.id]
    return _str_list(it)


def _url_predicate(fn, negated: bool):
    """is_*_url: `if not url: return False; low = url.lower(); L… = [...]; [x = any(...)…]; return <combination>`
    -> (positive list, negative list)"""
    arg = fn.args.args[0].arg
    b = _body(fn)
    if not b:
        raise No("empty body")
    g = b[0]
    if not (isinstance(g, ast.If) and isinstance(g.test, ast.UnaryOp) and isinstance(g.test.op, ast.Not) and _is_name(g.test.operand, arg)
            and len(g.body) == 1 and isinstance(g.body[0], ast.Return) and isinstance(g.body[0].value, ast.Constant)
            and g.body[0].value.value is False and not g.orelse):
        raise No("expected `if not url: return False` first")
    lower, lists, bools = None, {}, {}
    ret = None
    for st in b[1:]:
        if isinstance(st, ast.Return):
            ret = st.value
            break
        if not (isinstance(st, ast.Assign) and len(st.targets) == 1 and isinstance(st.targets[0], ast.Name)):
            raise No("unexpected statement " + type(st).__name__)
        name, v = st.targets[0].id, st.value
        if isinstance(v, ast.Call) and isinstance(v.func, ast.Attribute) and v.func.attr == "lower" and _is_name(v.func.value, arg) and not v.args:
            lower = name
        elif isinstance(v, (ast.List, ast.Tuple)):
            lists[name] = _str_list(v)
        else:
            if lower is None:
                raise No("url is not lowered before it is searched")
            bools[name] = _any_in(v, lower, lists)
    if ret is None or lower is None:
        raise No("no return / no lowered url")

    def val(e):
        if isinstance(e, ast.Name) and e.id in bools:
            return bools[e.id]
        return _any_in(e, lower, lists)
    if not negated:
        return val(ret), []
    if not (isinstance(ret, ast.BoolOp) and isinstance(ret.op, ast.And) and len(ret.values) == 2
            and isinstance(ret.values[1], ast.UnaryOp) and isinstance(ret.values[1].op, ast.Not)):
        raise No("expected `return <has indicator> and not <has excluded pattern>`")
    return val(ret.values[0]), val(ret.values[1].operand)


def _parents(tree):
    par = {}
    for n in ast.walk(tree):
        for c in ast.iter_child_nodes(n):
            par[c] = n
    return par


def _guards(fn, flag):
    """tests of the `if`s enclosing the single `flag = True`, innermost last; and whether a `break`
    follows the assignment in its block"""
    par = _parents(fn)
    sites = [n for n in ast.walk(fn) if isinstance(n, ast.Assign) and len(n.targets) == 1 and _is_name(n.targets[0], flag)
             and isinstance(n.value, ast.Constant) and n.value.value is True]
    if len(sites) != 1:
        raise No(f"expected exactly one `{flag} = True`")
    site = sites[0]
    tests, n = [], site
    block = par[site]
    brk = isinstance(block, ast.If) and any(isinstance(s, ast.Break) for s in block.body[block.body.index(site) + 1:])
    while n in par and par[n] is not fn:
        p = par[n]
        if isinstance(p, ast.If):
            if n not in p.body:
                raise No(f"`{flag} = True` in an else branch")
            tests.append(p.test)
        n = p
    return list(reversed(tests)), brk


def _status_and_types(tests):
    statuses, needles = None, None
    for t in tests:
        if isinstance(t, ast.Compare) and len(t.ops) == 1 and isinstance(t.left, ast.Attribute) and t.left.attr == "status_code":
            if isinstance(t.ops[0], ast.In) and isinstance(t.comparators[0], (ast.List, ast.Tuple, ast.Set)):
                statuses = [ast.literal_eval(x) for x in t.comparators[0].elts]
            elif isinstance(t.ops[0], ast.Eq):
                statuses = [ast.literal_eval(t.comparators[0])]
            else:
                raise No("unexpected status test")
        else:
            parts = t.values if isinstance(t, ast.BoolOp) and isinstance(t.op, ast.Or) else [t]
            ns = []
            for p in parts:
                if not (isinstance(p, ast.Compare) and len(p.ops) == 1 and isinstance(p.ops[0], ast.In) and isinstance(p.left, ast.Constant)
                        and isinstance(p.left.value, str) and isinstance(p.comparators[0], ast.Name)):
                    raise No("unexpected content-type test")
                ns.append(p.left.value)
            needles = ns
    if not statuses or not needles or not all(isinstance(s, int) and not isinstance(s, bool) and s >= 0 for s in statuses):
        raise No("status / content-type tests not located")
    return statuses, needles


def _probe_ops(fn, arg):
    lists = [n for n in ast.walk(fn) if isinstance(n, ast.Assign) and len(n.targets) == 1 and isinstance(n.targets[0], ast.Name)
             and isinstance(n.value, ast.List) and n.value.elts and not all(isinstance(x, ast.Constant) for x in n.value.elts)]
    if len(lists) != 1:
        raise No("the list of SSE probe URLs not located")
    ops = []
    for e in lists[0].value.elts:
        if (isinstance(e, ast.Call) and isinstance(e.func, ast.Attribute) and e.func.attr == "replace" and _is_name(e.func.value, arg)
                and len(e.args) == 2 and all(isinstance(a, ast.Constant) and isinstance(a.value, str) for a in e.args)):
            ops.append(("replace", e.args[0].value, e.args[1].value))
        elif isinstance(e, ast.JoinedStr) and len(e.values) == 2 and isinstance(e.values[0], ast.FormattedValue) and isinstance(e.values[1], ast.Constant):
            v, suffix = e.values[0].value, e.values[1].value
            if _is_name(v, arg):
                ops.append(("append", suffix))
            elif (isinstance(v, ast.Call) and isinstance(v.func, ast.Attribute) and v.func.attr == "rstrip" and _is_name(v.func.value, arg)
                  and len(v.args) == 1 and isinstance(v.args[0], ast.Constant) and isinstance(v.args[0].value, str)):
                ops.append(("rstripAppend", v.args[0].value, suffix))
            else:
                raise No("unexpected probe URL construction")
        else:
            raise No("unexpected probe URL construction")
    return lists[0].targets[0].id, ops


def _result_chain(fn, a, b):
    for n in ast.walk(fn):
        if (isinstance(n, ast.If) and isinstance(n.test, ast.BoolOp) and isinstance(n.test.op, ast.And) and len(n.test.values) == 2
                and _is_name(n.test.values[0], a) and _is_name(n.test.values[1], b)):
            def ret(block):
                if len(block) == 1 and isinstance(block[0], ast.Return) and isinstance(block[0].value, ast.Constant) and isinstance(block[0].value.value, str):
                    return block[0].value.value
                raise No("unexpected result branch")
            both = ret(n.body)
            e1 = n.orelse
            if not (len(e1) == 1 and isinstance(e1[0], ast.If) and _is_name(e1[0].test, a)):
                raise No("unexpected result chain")
            only_a = ret(e1[0].body)
            e2 = e1[0].orelse
            if not (len(e2) == 1 and isinstance(e2[0], ast.If) and _is_name(e2[0].test, b)):
                raise No("unexpected result chain")
            return both, only_a, ret(e2[0].body), ret(e2[0].orelse)
    raise No("result chain not located")


def _validator(tree, cls):
    for n in ast.walk(tree):
        if isinstance(n, ast.ClassDef) and n.name == cls:
            fn = _fn(n, "validate_url")
            b = _body(fn)
            v = fn.args.args[-1].arg
            if len(b) != 3:
                raise No(f"{cls}.validate_url: unexpected body")
            g0, g1, r = b
            if not (isinstance(g0, ast.If) and isinstance(g0.test, ast.UnaryOp) and isinstance(g0.test.op, ast.Not) and _is_name(g0.test.operand, v)
                    and isinstance(g0.body[0], ast.Raise)):
                raise No(f"{cls}.validate_url: expected `if not v: raise`")
            t = g1.test if isinstance(g1, ast.If) else None
            if not (t is not None and isinstance(t, ast.UnaryOp) and isinstance(t.op, ast.Not) and isinstance(t.operand, ast.Call)
                    and isinstance(t.operand.func, ast.Attribute) and t.operand.func.attr == "startswith" and _is_name(t.operand.func.value, v)
                    and isinstance(g1.body[0], ast.Raise)):
                raise No(f"{cls}.validate_url: expected `if not v.startswith(...): raise`")
            a = t.operand.args[0]
            prefixes = _str_list(a) if isinstance(a, (ast.Tuple, ast.List)) else [ast.literal_eval(a)]
            if not (isinstance(r, ast.Return) and isinstance(r.value, ast.Call) and isinstance(r.value.func, ast.Attribute) and r.value.func.attr == "rstrip"
                    and _is_name(r.value.func.value, v) and len(r.value.args) == 1 and isinstance(r.value.args[0], ast.Constant)):
                raise No(f"{cls}.validate_url: expected `return v.rstrip(<chars>)`")
            return prefixes, r.value.args[0].value
    raise No(f"class {cls} not found")


def extract(src: Path):
    vals, bad = {}, []
    http = ast.parse((src / "transports/http/http_client.py").read_text())
    sse = ast.parse((src / "transports/sse/sse_client.py").read_text())

    def attempt(key, f):
        try:
            vals[key] = f()
        except Exception as ex:  # noqa
            bad.append(f"{key}: {ex}")
    attempt("http_url", lambda: _url_predicate(_fn(http, "is_streamable_http_url"), True))
    attempt("sse_url", lambda: _url_predicate(_fn(sse, "is_sse_url"), False))

    def detect():
        fn = _fn(http, "detect_transport_type")
        arg = fn.args.args[0].arg
        t_post, _ = _guards(fn, "streamable_http_works")
        t_get, brk = _guards(fn, "sse_works")
        if not brk:
            raise No("the probe loop does not stop at the first SSE endpoint found")
        name, ops = _probe_ops(fn, arg)
        loops = [n for n in ast.walk(fn) if isinstance(n, ast.For) and _is_name(n.iter, name)]
        if len(loops) != 1:
            raise No("probe loop not located")
        res = _result_chain(fn, "streamable_http_works", "sse_works")
        outer = [h for n in fn.body if isinstance(n, ast.Try) for h in n.handlers]
        on_err = None
        for h in outer:
            rets = [s for s in h.body if isinstance(s, ast.Return)]
            if len(rets) == 1 and isinstance(rets[0].value, ast.Constant):
                on_err = rets[0].value.value
        if on_err != res[3]:
            raise No("the outer exception handler does not return the `unknown` result")
        return {"post": _status_and_types(t_post), "get": _status_and_types(t_get), "ops": ops, "res": res}
    attempt("detect", detect)

    def fallback():
        fn = _fn(http, "try_http_with_sse_fallback")
        arg = fn.args.args[0].arg
        chosen = [n for n in ast.walk(fn) if isinstance(n, ast.Compare) and len(n.ops) == 1 and isinstance(n.ops[0], ast.In)
                  and isinstance(n.comparators[0], (ast.List, ast.Tuple)) and isinstance(n.left, ast.Name)]
        if len(chosen) != 1:
            raise No("`transport_type in [...]` not located")
        conv = [n for n in ast.walk(fn) if isinstance(n, ast.Call) and isinstance(n.func, ast.Attribute) and n.func.attr == "rstrip"
                and isinstance(n.func.value, ast.Call) and isinstance(n.func.value.func, ast.Attribute) and n.func.value.func.attr == "replace"
                and _is_name(n.func.value.func.value, arg)]
        if len(conv) != 1:
            raise No("`url.replace(a, b).rstrip(c)` not located")
        rep = conv[0].func.value
        calls = {n.func.id for n in ast.walk(fn) if isinstance(n, ast.Return) and isinstance(n.value, ast.Call) and isinstance(n.value.func, ast.Name)
                 for n in [n.value]}
        if calls != {"http_client", "sse_client"}:
            raise No(f"unexpected return values {sorted(calls)}")
        return {"chosen": _str_list(chosen[0].comparators[0]), "replace": (ast.literal_eval(rep.args[0]), ast.literal_eval(rep.args[1])),
                "rstrip": ast.literal_eval(conv[0].args[0])}
    attempt("fallback", fallback)
    def try_sse():
        fn = _fn(sse, "try_sse_with_fallback")
        groups = []
        for n in ast.walk(fn):
            if isinstance(n, ast.If):
                t = n.test
                parts = t.values if isinstance(t, ast.BoolOp) and isinstance(t.op, ast.Or) else [t]
                if all(isinstance(p, ast.Compare) and len(p.ops) == 1 and isinstance(p.ops[0], ast.In) and isinstance(p.left, ast.Constant)
                       and isinstance(p.left.value, str) and isinstance(p.comparators[0], ast.Name) for p in parts):
                    if not any(isinstance(b, ast.Raise) and b.exc is not None and b.cause is not None for b in n.body):
                        raise No("a guidance branch does not `raise … from e`")
                    groups.append([p.left.value for p in parts])
        if len(groups) != 2:
            raise No("the two guidance tests on the error text not located")
        lowered = [n for n in ast.walk(fn) if isinstance(n, ast.Call) and isinstance(n.func, ast.Attribute) and n.func.attr == "lower"]
        if not lowered:
            raise No("the error text is not lowered")
        rets = [n for n in ast.walk(fn) if isinstance(n, ast.Return) and isinstance(n.value, ast.Call) and _is_name(n.value.func, "sse_client")]
        if len(rets) != 1:
            raise No("`return sse_client(params)` not located")
        return groups[0] + groups[1]
    attempt("try_sse", try_sse)
    attempt("http_validator", lambda: _validator(ast.parse((src / "transports/http/parameters.py").read_text()), "StreamableHTTPParameters"))
    attempt("sse_validator", lambda: _validator(ast.parse((src / "transports/sse/parameters.py").read_text()), "SSEParameters"))
    return vals, bad


# The tables of the verified commit.  A group whose function is not found in a recognised shape (a rewrite
# with loops, helper coroutines, lookup tables …) keeps these: the model then still says what the code did
# at the verified commit, `translatable := false` and the evidence note say that the tables were NOT re-read,
# and the correspondence run (the real functions against the model on generated servers) decides whether they
# still describe the code.  No theorem depends on `translatable`.
PINNED = {
    "http_url": (["/mcp", "/api/mcp", "/v1/mcp", "mcp."], ["/sse", "/events", "/stream"]),
    "sse_url": (["/sse", "events", "stream", ":8080", ":3000"], []),
    "detect": {"post": ([200, 202], ["application/json", "text/event-stream"]), "get": ([200], ["text/event-stream"]),
               "ops": [("replace", "/mcp", "/sse"), ("rstripAppend", "/mcp", "/sse"), ("append", "/sse")],
               "res": ("both", "streamable_http", "sse", "unknown")},
    "fallback": {"chosen": ["streamable_http", "both"], "replace": ("/mcp", ""), "rstrip": "/"},
    "http_validator": (["http://", "https://"], "/"), "sse_validator": (["http://", "https://"], "/"),
    "try_sse": ["not found", "404", "method not allowed", "405"],
}


def _s(x):
    return json.dumps(x, ensure_ascii=False)


def _sl(xs):
    return "[" + ", ".join(_s(x) for x in xs) + "]"


@translate.register("UrlRules")
def gen(src: Path):
    vals, bad = extract(src)
    for k, v in PINNED.items():
        vals.setdefault(k, v)
    d, f = vals["detect"], vals["fallback"]

    def op(o):
        if o[0] == "replace":
            return f"UrlOp.replace {_s(o[1])} {_s(o[2])}"
        if o[0] == "append":
            return f"UrlOp.append {_s(o[1])}"
        return f"UrlOp.rstripAppend {_s(o[1])} {_s(o[2])}"
    lean = f"""-- GENERATED by verifpy/translate_url.py from transports/http/http_client.py, transports/sse/sse_client.py,
-- transports/http/parameters.py, transports/sse/parameters.py. Do not edit.
namespace Verif.Gen.UrlRules

/-- every function was found in a shape the translator recognises and its tables were re-read from the
source; `false`: some group keeps the tables of the verified commit (informational — the correspondence
run compares the model with the running code either way) -/
def translatable : Bool := {"true" if not bad else "false"}

/-- `is_streamable_http_url`: some indicator and none of the excluded patterns occurs in the lowered URL -/
def httpIndicators : List String := {_sl(vals["http_url"][0])}
def httpExcluded : List String := {_sl(vals["http_url"][1])}

/-- `is_sse_url`: some indicator occurs in the lowered URL -/
def sseIndicators : List String := {_sl(vals["sse_url"][0])}

/-- how `detect_transport_type` derives the URLs it probes with GET, in order -/
inductive UrlOp where
  /-- `url.replace(a, b)` -/
  | replace (a b : String)
  /-- `url.rstrip(chars) + suffix` -/
  | rstripAppend (chars suffix : String)
  /-- `url + suffix` -/
  | append (suffix : String)
  deriving Repr, DecidableEq

def probeOps : List UrlOp := [{", ".join(op(o) for o in d["ops"])}]

/-- the POST probe counts when its status is one of these and its content type contains one of these -/
def postStatuses : List Nat := [{", ".join(map(str, d["post"][0]))}]
def postTypes : List String := {_sl(d["post"][1])}
/-- a GET probe counts likewise -/
def getStatuses : List Nat := [{", ".join(map(str, d["get"][0]))}]
def getTypes : List String := {_sl(d["get"][1])}

def resBoth : String := {_s(d["res"][0])}
def resHttp : String := {_s(d["res"][1])}
def resSse : String := {_s(d["res"][2])}
def resUnknown : String := {_s(d["res"][3])}

/-- `try_http_with_sse_fallback`: Streamable HTTP is used for these detection results; otherwise
the SSE URL is `url.replace(a, b).rstrip(chars)` -/
def httpChosenFor : List String := {_sl(f["chosen"])}
def fallbackReplace : String × String := ({_s(f["replace"][0])}, {_s(f["replace"][1])})
def fallbackRstrip : String := {_s(f["rstrip"])}

/-- `try_sse_with_fallback`: when `SSEParameters(...)` raises and the lowered text of the exception contains
one of these, an exception with migration guidance is raised from it; otherwise it is re-raised -/
def guidanceNeedles : List String := {_sl(vals["try_sse"])}

/-- `validate_url` of the two parameter classes: non-empty, one of the prefixes; stored `rstrip`ped -/
def httpUrlPrefixes : List String := {_sl(vals["http_validator"][0])}
def httpUrlRstrip : String := {_s(vals["http_validator"][1])}
def sseUrlPrefixes : List String := {_sl(vals["sse_validator"][0])}
def sseUrlRstrip : String := {_s(vals["sse_validator"][1])}

end Verif.Gen.UrlRules
"""
    report = {"file": "Gen/UrlRules.lean", "untranslatable": [], "not_reread": bad, "values": {k: vals[k] for k in ("http_url", "sse_url", "fallback")}}
    return lean, report
