"""Line coverage of the anchored functions during the in-process implementation runs of C05 / C06 /
C13 (HARDEN.md class 7: make rarely taken branches visible).  Uses `sys.monitoring` (each line
reports once, then its event is disabled, so the cost is negligible).  The result goes into the
evidence file's notes; it never influences a verdict."""
from __future__ import annotations

import sys
import types

ANCHORS = {
    "chuk_mcp.transports.stdio.stdio_client": [
        "_route_message", "_stdout_reader", "_process_message_data", "_send_error_response", "_stdin_writer",
        "new_request_stream", "send_json", "set_protocol_version", "get_protocol_version", "is_batching_enabled",
        "get_batching_info", "get_streams", "__init__", "_ensure_streams_initialized",
    ],
    "chuk_mcp.transports.stdio.transport": ["get_streams", "set_protocol_version", "__aenter__", "__aexit__"],
    "chuk_mcp.protocol.features.batching": [
        "supports_batching", "should_reject_batch", "__init__", "update_protocol_version", "can_process_batch",
        "create_batch_rejection_error", "process_message_data", "_supports_batch_processing",
    ],
    "chuk_mcp.protocol.types.versioning": ["validate_format", "compare", "is_older", "is_newer"],
}

_state = {"on": False, "codes": {}, "hit": {}}


def _codes_of(obj, names, out, prefix):
    for name, val in list(vars(obj).items()):
        f = val
        if isinstance(f, (staticmethod, classmethod)):
            f = f.__func__
        if isinstance(f, types.FunctionType) and name in names and f.__module__ == (obj.__module__ if isinstance(obj, type) else obj.__name__):
            out[prefix + name] = f.__code__
        elif isinstance(val, type) and val.__module__ == getattr(obj, "__name__", None):
            _codes_of(val, names, out, prefix + val.__name__ + ".")


def _all_codes(code):
    yield code
    for c in code.co_consts:
        if isinstance(c, types.CodeType):
            yield from _all_codes(c)


def start():
    if _state["on"] or not hasattr(sys, "monitoring"):
        return
    import importlib

    mon = sys.monitoring
    tid = None
    for cand in (mon.COVERAGE_ID, 3, 4):
        if mon.get_tool(cand) is None:
            tid = cand
            break
    if tid is None:
        return
    mon.use_tool_id(tid, "verif-stdio-cov")
    hit = _state["hit"]

    def on_line(code, line):
        hit.setdefault(code, set()).add(line)
        return mon.DISABLE

    mon.register_callback(tid, mon.events.LINE, on_line)
    for modname, names in ANCHORS.items():
        try:
            mod = importlib.import_module(modname)
        except Exception:  # noqa
            continue
        found = {}
        _codes_of(mod, set(names), found, modname.rsplit(".", 1)[1] + ".")
        for label, code in found.items():
            cs = list(_all_codes(code))
            _state["codes"][label] = cs
            for c in cs:
                mon.set_local_events(tid, c, mon.events.LINE)
    _state["on"] = True


def report():
    """[(label, executed, total, missing lines)]"""
    out = []
    for label, cs in sorted(_state["codes"].items()):
        total, got = set(), set()
        for c in cs:
            first = c.co_firstlineno
            lines = {ln for (_, _, ln) in c.co_lines() if ln is not None and ln != first}
            total |= lines
            got |= _state["hit"].get(c, set()) & lines
        out.append((label, len(got), len(total), sorted(total - got)))
    return out


def notes(only_prefixes=None):
    res = []
    for label, n, t, missing in report():
        if only_prefixes and not any(p in label for p in only_prefixes):
            continue
        if t == 0:
            continue
        res.append(f"line coverage of {label}: {n}/{t}" + (f", not reached: lines {missing}" if missing else ""))
    return res
