"""Harness + generators for the transport-selection logic next to C15: the REAL
`is_streamable_http_url`, `is_sse_url`, `detect_transport_type`, `try_http_with_sse_fallback`
(and the two `create_*_parameters_from_url` helpers) against a scripted server reached through
`httpx.MockTransport` (the seam of `http_h._MockPatch`).

A case: {"url": str, "post": P, "gets": [[url, P] …], "token": str|None}
        P = "exc" | {"status": int, "ct": str|None}     (a GET of an unlisted URL: 404 without content type)
Observation: the heuristics' verdicts, the detection result with the requests it made (method, URL), the
fallback's choice (which client context manager for which URL, or the exception class) with its requests.
"""
from __future__ import annotations

import json

from . import http_h, vloop

SCHEMES = ["http://", "https://", "HTTP://", "ftp://", "", "ws://"]
HOSTS = ["h.test", "example.com", "mcp.example.com", "EXAMPLE.com", "host:3000", "host:8080", "p.m.c", "api.test/x"]
PATHS = ["/mcp", "/mcp/", "/api/mcp", "/v1/mcp", "/MCP", "", "/", "/sse", "/mcp/sse", "/events", "/stream/mcp", "/x/mcp/y", "/mcpmcp",
         "/mcp?session_id=1", "/cmp", "/m", "/mcp//", "/a%20b/mcp"]
CTS = ["application/json", "text/event-stream", "application/json; charset=utf-8", "text/event-stream;charset=utf-8", "text/html",
       "Application/JSON", "", None, "text/plain, application/json"]
STATUSES = [200, 202, 201, 204, 301, 400, 404, 405, 500]


def norm(u: str):
    """the URL as httpx puts it on the wire (None: httpx refuses it)"""
    import httpx
    try:
        x = httpx.URL(u)
        if x.scheme not in ("http", "https") or not x.host:
            return None
        return str(x)
    except Exception:  # noqa
        return None


def probe(rng):
    r = rng.random()
    if r < 0.2:
        return "exc"
    return {"status": rng.choice(STATUSES if r < 0.5 else [200, 202]), "ct": rng.choice(CTS)}


def candidates(url):
    """URLs a probe might go to (only used to place interesting answers; unlisted URLs answer 404)"""
    out = [url, url + "/sse", url.replace("/mcp", "/sse"), url.rstrip("/mcp") + "/sse", url.rstrip("/") + "/sse", url.replace("/mcp", "") + "/sse"]
    seen, res = set(), []
    for u in out:
        if u not in seen:
            seen.add(u)
            res.append(u)
    return res


def case(rng):
    url = rng.choice(SCHEMES[:2] if rng.random() < 0.85 else SCHEMES) + rng.choice(HOSTS) + rng.choice(PATHS)
    if rng.random() < 0.03:
        url = ""
    gets = []
    for u in candidates(url):
        if rng.random() < 0.45:
            p = probe(rng)
            if rng.random() < 0.5:
                p = {"status": 200, "ct": rng.choice(["text/event-stream", "text/event-stream; charset=utf-8", "text/html"])}
            gets.append([u, p])
    c = {"url": url, "post": probe(rng), "gets": gets, "token": rng.choice([None, None, "tok", "Bearer t"])}
    if rng.random() < 0.04:
        c["client_fails"] = True   # the HTTP client cannot even be created
    if rng.random() < 0.3:
        c["debug"] = True   # the host has logging configured at DEBUG
    if rng.random() < 0.25:
        # URLs for try_sse_with_fallback: text of the guidance tests inside an invalid URL ends up in the exception text
        c["sse_try"] = rng.choice(["ftp://h/404", "h.test/Not Found", "ws://h/405/x", "ftp://h/method not allowed", "ftp://h/x", "", "http://h.test/404/"])
    return c


def directed():
    out = []
    for post in ("exc", {"status": 200, "ct": "application/json"}, {"status": 202, "ct": "text/event-stream"}, {"status": 200, "ct": "text/html"},
                 {"status": 404, "ct": "application/json"}, {"status": 200, "ct": None}):
        for which in (None, 0, 1, 2):
            url = "http://example.com/mcp"
            c = candidates(url)
            gets = [] if which is None else [[[c[2], c[3], c[1]][which], {"status": 200, "ct": "text/event-stream"}]]
            out.append({"url": url, "post": post, "gets": gets, "token": None})
    out.append({"url": "http://h.test/mcp", "post": {"status": 200, "ct": "application/json"}, "gets": [], "token": None, "client_fails": True})
    for u in ("ftp://h/404", "ftp://h/METHOD NOT ALLOWED", "ftp://h/x", "http://h.test/sse/"):
        out.append({"url": "http://h.test/mcp", "post": "exc", "gets": [], "token": None, "sse_try": u})
    out += [dict(c, debug=True) for c in out[::3]]
    for url in ("", "ftp://h/mcp", "h.test/mcp", "http://h.test/mcp/", "https://h.test", "http://h.test/MCP", "http://mcp.h.test/events"):
        out.append({"url": url, "post": {"status": 200, "ct": "application/json"}, "gets": [], "token": None})
    return out


def shrink_candidates(c):
    import copy
    for i in range(len(c["gets"])):
        d = copy.deepcopy(c)
        del d["gets"][i]
        yield d
    if c["post"] != "exc":
        d = copy.deepcopy(c)
        d["post"] = "exc"
        yield d
    if c.get("token"):
        d = copy.deepcopy(c)
        d["token"] = None
        yield d


def _response(p):
    import httpx
    if p == "exc":
        raise httpx.ConnectError("scripted")
    headers = [] if p.get("ct") is None else [("content-type", p["ct"])]
    return httpx.Response(p["status"], headers=headers, content=b"{}")


async def _run(case):
    from chuk_mcp.transports.http import http_client as hc
    from chuk_mcp.transports.http.http_client import (
        is_streamable_http_url, detect_transport_type, try_http_with_sse_fallback, create_http_parameters_from_url)
    from chuk_mcp.transports.sse.sse_client import is_sse_url, create_sse_parameters_from_url

    url = case["url"]
    table = {}
    for u, p in case["gets"]:
        n = norm(u)
        if n is not None and n not in table:
            table[n] = p
    log = []

    async def handler(request):
        import httpx
        if request.url.scheme not in ("http", "https") or not request.url.host:
            # what httpx's own transport does with such a URL (MockTransport would let it through)
            raise httpx.UnsupportedProtocol("Request URL is missing an 'http://' or 'https://' protocol.")
        log.append([request.method, str(request.url), request.headers.get("authorization")])
        if request.method == "POST":
            return _response(case["post"])
        return _response(table.get(str(request.url), {"status": 404, "ct": None}))

    obs = {"streamable": bool(is_streamable_http_url(url)), "sse_url": bool(is_sse_url(url))}
    for name, f in (("http_params", create_http_parameters_from_url), ("sse_params", create_sse_parameters_from_url)):
        try:
            obs[name] = f(url, timeout=5.0).url
        except Exception as ex:  # noqa
            obs[name] = {"raises": type(ex).__name__}
    obs["factory"] = await factory_probe()
    su = case.get("sse_try", url)
    try:
        from chuk_mcp.transports.sse.sse_client import try_sse_with_fallback
        cm = await try_sse_with_fallback(su, timeout=5.0)
        args = getattr(cm, "args", None) or ()
        obs["try_sse"] = {"k": "client", "url": getattr(args[0], "url", None) if args else None}
        if getattr(cm, "gen", None) is not None:
            await cm.gen.aclose()
    except Exception as ex:  # noqa
        cause = ex.__cause__
        obs["try_sse"] = {"k": "guidance" if cause is not None and type(ex) is Exception else "reraise", "url": None}
        obs["try_sse_err"] = str(cause if (cause is not None and type(ex) is Exception) else ex)
    with (FailingClient() if case.get("client_fails") else http_h._MockPatch(handler)):
        try:
            obs["detect"] = await detect_transport_type(url, case.get("token"), timeout=5.0)
        except Exception as ex:  # noqa
            obs["detect"] = {"raises": type(ex).__name__}
        obs["detect_requests"] = list(log)
        del log[:]
        try:
            cm = await try_http_with_sse_fallback(url, case.get("token"), timeout=5.0)
            fn = getattr(getattr(cm, "func", None), "__name__", None) or getattr(getattr(getattr(cm, "gen", None), "gi_code", None), "co_name", "?")
            args = getattr(cm, "args", None) or ()
            obs["fallback"] = {"k": {"http_client": "http", "sse_client": "sse"}.get(fn, fn), "url": getattr(args[0], "url", None) if args else None}
            gen = getattr(cm, "gen", None)
            if gen is not None:
                await gen.aclose()
        except Exception as ex:  # noqa
            obs["fallback"] = {"k": "fail", "url": None, "exc": type(ex).__name__}
        obs["fallback_requests"] = list(log)
    return obs


class FailingClient:
    """`httpx.AsyncClient(...)` raises"""

    def __enter__(self):
        import httpx
        self.orig = httpx.AsyncClient

        def boom(*a, **k):
            raise RuntimeError("scripted: no HTTP client")
        httpx.AsyncClient = boom
        return self

    def __exit__(self, *exc):
        import httpx
        httpx.AsyncClient = self.orig
        return False


async def factory_probe():
    """the transport factory and the not-started guards of the three Transport classes"""
    import chuk_mcp.transports as T
    from chuk_mcp.transports.stdio.parameters import StdioParameters
    from chuk_mcp.transports.http.parameters import StreamableHTTPParameters
    from chuk_mcp.transports.sse.parameters import SSEParameters
    from chuk_mcp.transports.http.transport import StreamableHTTPTransport
    params = {"stdio": StdioParameters(command="x", args=[]), "http": StreamableHTTPParameters(url="http://h.test/mcp"),
              "sse": SSEParameters(url="http://h.test")}
    out = {"available": list(T.get_available_transports()), "has": {"http": bool(T.HAS_HTTP), "sse": bool(T.HAS_SSE)}, "made": {}, "guards": {}}
    for t in ("stdio", "http", "sse", "bogus", ""):
        for fname in ("create_transport", "create_client"):
            try:
                v = getattr(T, fname)(t, params.get(t))
                out["made"][f"{fname}:{t}"] = type(v).__name__ if fname == "create_transport" else getattr(getattr(v, "func", None), "__name__", type(v).__name__)
                if fname == "create_client" and getattr(v, "gen", None) is not None:
                    await v.gen.aclose()
            except ValueError:
                out["made"][f"{fname}:{t}"] = "ValueError"
    for name, tr in (("stdio", T.StdioTransport(params["stdio"])), ("http", StreamableHTTPTransport(params["http"])), ("sse", T.SSETransport(params["sse"]))):
        try:
            await tr.get_streams()
            g = "streams"
        except RuntimeError:
            g = "RuntimeError"
        tr.set_protocol_version("2025-06-18")
        out["guards"][name] = g
    st = T.StdioTransport(params["stdio"])
    out["guards"]["stdio_exit_unstarted"] = await st.__aexit__(None, None, None)
    return out


def factory_expected(obs):
    """what the factory must do given which transports it declares available (model-free)"""
    cls = {"stdio": "StdioTransport", "http": "StreamableHTTPTransport", "sse": "SSETransport"}
    cm = {"stdio": "stdio_client", "http": "http_client", "sse": "sse_client"}
    avail = ["stdio"] + [t for t in ("http", "sse") if obs["has"][t]]
    made = {}
    for t in ("stdio", "http", "sse", "bogus", ""):
        made[f"create_transport:{t}"] = cls[t] if t in avail else "ValueError"
        made[f"create_client:{t}"] = cm[t] if t in avail else "ValueError"
    return {"available": avail, "has": obs["has"], "made": made,
            "guards": {"stdio": "RuntimeError", "http": "RuntimeError", "sse": "RuntimeError", "stdio_exit_unstarted": False}}


def run_case(case):
    restore = None
    try:
        if case.get("debug"):
            from .await_h import _debug_logging
            restore = _debug_logging()
        return vloop.run(_run, case)
    except BaseException as ex:  # noqa
        if isinstance(ex, (KeyboardInterrupt, SystemExit)):
            raise
        return {"harness_error": repr(ex)[:300]}
    finally:
        if restore is not None:
            restore()


def wire_table(case):
    table = {}
    for u, p in case["gets"]:
        n = norm(u)
        if n is not None and n not in table:
            table[n] = p
    return table


def model_line(case, obs=None):
    """what the network answers, as the model's parameters.  The model derives raw URL strings; on the
    wire they appear as httpx normalises them and a URL httpx refuses makes the probe raise, so the
    model is given that mapping (`norm`) for every URL a probe might go to and the answers keyed by wire URL."""
    if any(ord(ch) > 127 for ch in case["url"] + case.get("sse_try", "")) or (obs or {}).get("harness_error"):
        return None

    def P(p):
        return "exc" if p == "exc" else {"status": p["status"], "ct": p.get("ct") or ""}
    raws = candidates(case["url"]) + [u for u, _ in case["gets"]]
    return {"m": "detect", "url": case["url"], "client_ok": not case.get("client_fails"),
            "sse_try_url": case.get("sse_try", case["url"]), "err_text": (obs or {}).get("try_sse_err", ""),
            "post": P(case["post"]) if (norm(case["url"]) is not None and not case.get("client_fails")) else "exc",
            "gets": [[n, P(p)] for n, p in wire_table(case).items()], "norm": [[u, norm(u)] for u in dict.fromkeys(raws)]}


def expected(case, m):
    """the model's answer in the observation's vocabulary"""
    posted = [["POST", norm(case["url"])]] if norm(case["url"]) is not None else []
    gets = [["GET", norm(u)] for u in m["probe_urls"][: m["gets"]] if norm(u) is not None]
    if case.get("client_fails"):
        posted, gets = [], []
    out = {"streamable": m["streamable"], "sse_url": m["sse_url"], "detect": m["detect"], "detect_requests": posted + gets,
           "fallback": {"k": m["fallback"]["k"], "url": m["fallback"]["url"]},
           "fallback_requests": (posted + gets) if m["probed"] else [],
           "try_sse": {"k": m["try_sse"]["k"], "url": m["try_sse"]["url"]}}
    return out


def shape(obs):
    return {"streamable": obs["streamable"], "sse_url": obs["sse_url"], "detect": obs["detect"],
            "detect_requests": [r[:2] for r in obs["detect_requests"]],
            "fallback": {"k": obs["fallback"]["k"], "url": obs["fallback"]["url"]},
            "fallback_requests": [r[:2] for r in obs["fallback_requests"]], "try_sse": obs["try_sse"]}
