"""Outbound items of the stdio writer check (C06): JSON-able specs -> the real objects put on the
write stream, and the value each of them must reach the child as (independent of the model)."""
from __future__ import annotations

import json


PATTERN = "0123456789abcdef" * 4 + "\n\"\u00e9\u2028\\ \r\n"


def big_value(item):
    """the JSON value of a `big` item: a tools/call whose argument is a text of about `size`
    characters containing line breaks, quotes, non-ASCII"""
    n = int(item["size"])
    text = (PATTERN * (n // len(PATTERN) + 1))[:n]
    return {"jsonrpc": "2.0", "id": item.get("id", 7), "method": "tools/call",
            "params": {"name": "store", "arguments": {"blob": text}}}


def build(item):
    """spec -> object handed to `write_stream.send(...)`"""
    k = item["k"]
    if k == "big":
        v = big_value(item)
        if item["shape"] == "dict":
            return v
        if item["shape"] == "raw":
            return json.dumps(v, ensure_ascii=False, separators=(",", ":"))
        from chuk_mcp.protocol.messages import json_rpc_message as J

        return J.JSONRPCRequest(id=v["id"], method=v["method"], params=v["params"])
    if k == "dict":
        return item["v"]
    if k == "raw":
        return item["s"]
    if k == "typed":
        from chuk_mcp.protocol.messages import json_rpc_message as J

        cls = {
            "request": J.JSONRPCRequest, "notification": J.JSONRPCNotification, "response": J.JSONRPCResponse,
            "error": J.JSONRPCError, "legacy": J.JSONRPCMessage,
        }[item["cls"]]
        return cls(**item["f"])
    if k == "unser":
        how = item["how"]
        if how == "object":
            return object()
        if how == "dict-object":
            return {"jsonrpc": "2.0", "method": "m", "params": {"x": object()}}
        if how == "dict-set":
            return {"jsonrpc": "2.0", "id": 1, "result": {"s": {1, 2}}}
        if how == "dict-bytes":
            return {"jsonrpc": "2.0", "id": 1, "result": {"b": b"\xff"}}
        if how == "tuple-key":
            return {"jsonrpc": "2.0", "method": "m", "params": {(1, 2): 3}}
        if how == "typed-object":
            from chuk_mcp.protocol.messages import json_rpc_message as J

            return J.JSONRPCRequest(id=1, method="m", params={"x": object()})
        if how == "lone-surrogate":
            return '{"jsonrpc":"2.0","method":"\ud800"}'
        raise ValueError(how)
    raise ValueError(k)


def expected_line(item):
    """None (dropped) | {"json": value} | {"text": exact line}  — the property's reading:
    the message with absent optional members omitted; a pre-serialised string verbatim."""
    k = item["k"]
    if k == "big":
        v = big_value(item)
        if item["shape"] == "raw":
            return {"text": json.dumps(v, ensure_ascii=False, separators=(",", ":"))}
        return {"json": v}
    if k == "dict":
        return {"json": item["v"]}
    if k == "raw":
        return {"text": item["s"]}
    if k == "typed":
        v = {"jsonrpc": "2.0"}
        v.update({f: x for f, x in item["f"].items() if x is not None})
        return {"json": v}
    return None


def canon(v) -> str:
    return json.dumps(v, sort_keys=True, ensure_ascii=True, separators=(",", ":"))


def decode_lines(data: bytes):
    """bytes at the child's stdin -> {"lines": [{"json": v} | {"text": str} | {"hex": …}], "tail": hex of
    what follows the last LF, "cr": a raw CR occurs inside some line}"""
    parts = data.split(b"\n")
    tail = parts.pop()
    lines = []
    cr = False
    for p in parts:
        if b"\r" in p:
            cr = True
        try:
            t = p.decode("utf-8")
        except UnicodeDecodeError:
            lines.append({"hex": p.hex()})
            continue
        try:
            lines.append({"json": json.loads(t), "text": t})
        except ValueError:
            lines.append({"text": t})
    return {"lines": lines, "tail": tail.hex(), "cr": cr}


def is_rejection(v) -> bool:
    """a complete batch-rejection error as the client's reader task writes it back"""
    return (isinstance(v, dict) and "method" not in v and v.get("id") is None and isinstance(v.get("error"), dict)
            and v["error"].get("code") == -32600 and not isinstance(v["error"].get("code"), bool))


def line_key(line, raw=False):
    """comparable identity of a line (decoded value for JSON lines; exact text for raw / non-JSON)"""
    import hashlib

    if not raw and "json" in line:
        k = "J:" + canon(line["json"])
    elif "text" in line:
        k = "T:" + line["text"]
    else:
        k = "X:" + line.get("hex", "")
    return k if len(k) <= 400 else k[:40] + "...sha1:" + hashlib.sha1(k.encode("utf-8", "surrogatepass")).hexdigest() + f"...len:{len(k)}"


def run_duplex(cases):
    """real StdioClient, both directions: the writer task and the reader task (batch rejections)
    write to a slow stdin.  Observation per case: the lines the child received (small ones in full,
    large ones by key), whether each is JSON, the close flags."""
    from . import stdio_h

    out = []
    for c, o in zip(cases, stdio_h.run_duplex_cases(cases, build)):
        if "harness_error" in o:
            out.append(o)
            continue
        data = b"".join(o["sends"])
        d = decode_lines(data)
        lines = []
        for ln in d["lines"]:
            e = {"is_json": "json" in ln, "key": line_key(ln), "text_key": line_key(ln, raw=True)}
            if "json" in ln and len(ln.get("text", "")) <= 2000:
                e["json"] = ln["json"]
            lines.append(e)
        out.append({
            "lines": lines, "tail": d["tail"][:200], "nsends": len(o["sends"]), "nbytes": len(data),
            "closed_before": o["before_close"]["closed"], "closed_after": o["after_close"]["closed"],
            "sends_at_close": o["after_close"]["sends_at_close"], "delivered": o["delivered"],
        })
    return out


def run_cases(cases):
    """real StdioClient writer on every case -> observations"""
    from . import stdio_h
    from chuk_mcp.protocol import fast_json
    import chuk_mcp.protocol.mcp_pydantic_base as B

    backend = {"orjson": bool(getattr(fast_json, "HAS_ORJSON", False)), "pydantic": bool(getattr(B, "PYDANTIC_AVAILABLE", True))}
    out = []
    for o in stdio_h.run_writer_cases(cases, build):
        if "harness_error" in o:
            out.append(dict(o, backend=backend))
            continue
        d = decode_lines(bytes.fromhex(o["bytes"]))
        out.append({
            "lines": d["lines"], "tail": d["tail"], "cr": d["cr"], "sends": o["sends"],
            "closed_before": o["before_close"]["closed"], "closed_after": o["after_close"]["closed"],
            "sends_at_close": o["after_close"]["sends_at_close"], "backend": backend,
        })
    return out
