"""Outbound items of the stdio writer check (C06): JSON-able specs -> the real objects put on the
write stream, and the value each of them must reach the child as (independent of the model)."""
from __future__ import annotations

import json


PATTERN = "0123456789abcdef" * 4 + "\n\"\u00e9\u2028\\ \r\n"


def big_value(item):
    """the JSON value of a `big` item: a tools/call whose argument is a text of about `size`
    characters containing line breaks, quotes, non-ASCII; or (`line_bytes`) an ASCII text sized so
    that the compact line including its newline has exactly that many bytes"""
    def val(text):
        return {"jsonrpc": "2.0", "id": item.get("id", 7), "method": "tools/call",
                "params": {"name": "store", "arguments": {"blob": text}}}
    if "line_bytes" in item:
        overhead = len(json.dumps(val(""), separators=(",", ":"))) + 1
        return val("a" * max(0, int(item["line_bytes"]) - overhead))
    n = int(item["size"])
    return val((PATTERN * (n // len(PATTERN) + 1))[:n])


class Duck:
    """an object that is neither str, dict nor a library model but offers `model_dump` (the writer's
    second-to-last resort)"""

    def __init__(self, v):
        self._v = v

    def model_dump(self, exclude_none=False, **kw):
        return {k: x for k, x in self._v.items() if not (exclude_none and x is None)}


class DuckJson:
    """… or only `model_dump_json`"""

    def __init__(self, v):
        self._v = v

    def model_dump_json(self, exclude_none=False, **kw):
        return json.dumps({k: x for k, x in self._v.items() if not (exclude_none and x is None)}, separators=(",", ":"))


class _BadStr(Exception):
    """an exception whose str() / repr() raise"""

    def __str__(self):
        raise RuntimeError("str() of this exception raises")

    __repr__ = __str__


EXC_CLASSES = {
    "TypeError": TypeError, "ValueError": ValueError, "KeyError": KeyError, "IndexError": IndexError,
    "AttributeError": AttributeError, "RuntimeError": RuntimeError, "RecursionError": RecursionError, "OSError": OSError,
    "Exception": Exception, "ZeroDivisionError": ZeroDivisionError, "UnicodeError": UnicodeError,
    "AssertionError": AssertionError, "LookupError": LookupError, "BrokenPipeError": BrokenPipeError, "BadStr": _BadStr,
}
RAISE_WHERE = ["model_dump_json", "model_dump", "getattr", "dict-get"]


def raising_object(cls_name, where):
    """an outbound object whose serialisation raises the given exception class at the given place"""
    exc = EXC_CLASSES[cls_name]

    def boom(*a, **k):
        raise exc("%s {0} cannot serialise")

    if where == "model_dump_json":
        return type("RaisesInModelDumpJson", (), {"model_dump_json": boom})()
    if where == "model_dump":
        return type("RaisesInModelDump", (), {"model_dump": boom})()
    if where == "getattr":
        return type("RaisesInGetattr", (), {"__getattr__": lambda self, name: boom()})()
    # a dict (sub)class instance: serialised natively, then `.get("method")` raises
    return type("RaisesInGet", (dict,), {"get": boom})({"jsonrpc": "2.0", "method": "m"})


def build(item):
    """spec -> object handed to `write_stream.send(...)`"""
    k = item["k"]
    if k == "big":
        v = big_value(item)
        if item["shape"] == "dict":
            return v
        if item["shape"] == "raw":
            return json.dumps(v, ensure_ascii=False, separators=(",", ":"))
        from chuk_mcp.protocol.messages import json_rpc_message as J

        return J.JSONRPCRequest(id=v["id"], method=v["method"], params=v["params"])
    if k == "dict":
        return item["v"]
    if k == "raw":
        return item["s"]
    if k == "subclass":  # str / dict SUBCLASSES where the writer tests isinstance
        import collections

        how = item["how"]
        if how == "str":
            return type("WireText", (str,), {})(item["s"])
        if how == "ordered":
            return collections.OrderedDict(item["v"])
        if how == "defaultdict":
            d = collections.defaultdict(list)
            d.update(item["v"])
            return d
        return type("Envelope", (dict,), {"__repr__": lambda self: "Envelope(...)"})(item["v"])
    if k == "duck":
        return Duck(item["v"])
    if k == "duckjson":
        return DuckJson(item["v"])
    if k == "other":  # JSON-able objects of other types reach the writer's last resort `json.dumps(message)`
        return tuple(item["v"]) if item.get("tuple") else item["v"]
    if k == "typed":
        from chuk_mcp.protocol.messages import json_rpc_message as J

        cls = {
            "request": J.JSONRPCRequest, "notification": J.JSONRPCNotification, "response": J.JSONRPCResponse,
            "error": J.JSONRPCError, "legacy": J.JSONRPCMessage,
        }[item["cls"]]
        return cls(**item["f"])
    if k == "unser":
        how = item["how"]
        if how == "object":
            return object()
        if how == "dict-object":
            return {"jsonrpc": "2.0", "method": "m", "params": {"x": object()}}
        if how == "dict-set":
            return {"jsonrpc": "2.0", "id": 1, "result": {"s": {1, 2}}}
        if how == "dict-bytes":
            return {"jsonrpc": "2.0", "id": 1, "result": {"b": b"\xff"}}
        if how == "tuple-key":
            return {"jsonrpc": "2.0", "method": "m", "params": {(1, 2): 3}}
        if how == "typed-object":
            from chuk_mcp.protocol.messages import json_rpc_message as J

            return J.JSONRPCRequest(id=1, method="m", params={"x": object()})
        if how == "lone-surrogate":
            return '{"jsonrpc":"2.0","method":"\ud800"}'
        if how == "deep-dict":  # nested deeper than any serialiser's (and repr's) recursion limit
            d = cur = {}
            for _ in range(3000):
                cur["a"] = {}
                cur = cur["a"]
            return {"jsonrpc": "2.0", "method": "m", "params": d}
        if how == "deep-list":
            d = cur = []
            for _ in range(3000):
                cur.append([])
                cur = cur[0]
            return {"jsonrpc": "2.0", "id": 1, "result": {"l": d}}
        if how == "repr-raises":  # unserialisable AND its repr() raises
            return {"jsonrpc": "2.0", "method": "m", "params": {"x": type("NoRepr", (), {"__repr__": lambda self: 1 / 0})()}}
        if how == "self-reference":
            d = {"jsonrpc": "2.0", "method": "m", "params": {}}
            d["params"]["self"] = d
            return d
        # the MESSAGE ITSELF is a hostile dict: keys that are not strings and not mutually orderable, a dict subclass whose
        # iteration raises (anything an error handler might do with the failed message - sort it, list it, print it)
        if how == "top-mixed-keys":
            return {"jsonrpc": "2.0", "method": "m", ("a", 1): object()}
        if how == "top-tuple-keys":
            return {("a",): 1, ("b", 2): object()}
        if how == "top-int-none-keys":
            return {1: object(), None: 2, "jsonrpc": "2.0", 2.5: 1, b"k": 3}
        if how in ("items-raises", "iter-raises"):
            def _boom(self, *a, **k):
                raise RuntimeError("%s {0} no iteration")
            D = type("HostileDict", (dict,), {"items": _boom, "keys": _boom, "values": _boom} if how == "items-raises" else {"__iter__": _boom})
            return D({"jsonrpc": "2.0", "method": "m", "params": {"x": object()}})
        if how.startswith("raises:"):
            _, cls_name, where = how.split(":")
            return raising_object(cls_name, where)
        raise ValueError(how)
    raise ValueError(k)


def deep_list(n):
    d = cur = []
    for _ in range(n - 1):
        cur.append([])
        cur = cur[0]
    return d


def edge_values():
    """values one JSON encoder refuses and another writes (all have a UTF-8 JSON text that decodes back equal): lone
    surrogates in values and keys (what os.fsdecode gives for an undecodable file name, half of an emoji cut by a UI),
    integers beyond 64 bits, nesting beyond 254 levels"""
    return {
        "surrogate-value": {"text": "cut \ud83d", "name": "file-\udcff.txt", "ok": "\U0001f600"},
        "surrogate-key": {"k\udc80": 1, "\ud800": {"\udfff": "v"}},
        "surrogate-pair-reversed": {"t": "\ude00\ud83d"},
        "int-beyond-64-bits": {"n": 2 ** 64, "m": -(2 ** 63) - 1, "big": 10 ** 40, "l": [2 ** 64 + 1]},
        "nesting-255": {"d": deep_list(255)},
        "nesting-300": {"d": deep_list(300)},
        "mixed": {"t": "\udc00", "n": 2 ** 65, "d": deep_list(260)},
    }


def expected_line(item):
    """None (dropped) | {"json": value} | {"text": exact line}  — the property's reading:
    the message with absent optional members omitted; a pre-serialised string verbatim."""
    k = item["k"]
    if k == "big":
        v = big_value(item)
        if item["shape"] == "raw":
            return {"text": json.dumps(v, ensure_ascii=False, separators=(",", ":"))}
        return {"json": v}
    if k == "dict":
        return {"json": item["v"]}
    if k == "raw":
        return {"text": item["s"]}
    if k == "subclass":
        return {"text": item["s"]} if item["how"] == "str" else {"json": item["v"]}
    if k in ("duck", "duckjson"):
        return {"json": {f: x for f, x in item["v"].items() if x is not None}}
    if k == "other":  # not one of the three accepted shapes: the property does not say whether it is sent
        return {"json": item["v"], "optional": True}
    if k == "typed":
        v = {"jsonrpc": "2.0"}
        v.update({f: x for f, x in item["f"].items() if x is not None})
        # a typed message holding a value at the edge of the encoders' domains (a lone surrogate, nesting beyond 254): whether
        # the VALIDATION backend can write it is that backend's business (one refuses, the other does not) - it may be dropped
        # alone; a plain dict with the same value has a UTF-8 JSON text (reference: stdlib json) and must arrive
        return {"json": v, "optional": True} if item.get("edge") else {"json": v}
    return None


def canon(v) -> str:
    return json.dumps(v, sort_keys=True, ensure_ascii=True, separators=(",", ":"))


def decode_lines(data: bytes):
    """bytes at the child's stdin -> {"lines": [{"json": v} | {"text": str} | {"hex": …}], "tail": hex of
    what follows the last LF, "cr": a raw CR occurs inside some line}"""
    parts = data.split(b"\n")
    tail = parts.pop()
    lines = []
    cr = False
    for p in parts:
        if b"\r" in p:
            cr = True
        try:
            t = p.decode("utf-8")
        except UnicodeDecodeError:
            lines.append({"hex": p.hex()})
            continue
        try:
            lines.append({"json": json.loads(t), "text": t})
        except ValueError:
            lines.append({"text": t})
    return {"lines": lines, "tail": tail.hex(), "cr": cr}


def expected_lines(items):
    """one entry per `repeat` of every item that must or may produce a line"""
    out = []
    for it in items:
        e = expected_line(it)
        if e is not None:
            out += [e] * int(it.get("repeat", 1))
    return out


def line_matches(line, want) -> bool:
    if "text" in want and "json" not in want:
        return line.get("text") == want["text"]
    return "json" in line and canon(line["json"]) == canon(want["json"])


def align(lines, want, skippable=lambda ln: False, line_matches=line_matches, roles=None):
    """Greedy alignment of the received lines with the expected ones (optional ones may be absent;
    `skippable` lines - complete rejection errors of the reader task - may sit anywhere).
    Returns (matched flags per expected entry, index of the first line that fits nothing or None, all consumed)."""
    used = [False] * len(want)
    i = 0
    for n, ln in enumerate(lines):
        j = i
        while j < len(want) and not line_matches(ln, want[j]) and want[j].get("optional"):
            j += 1
        if j < len(want) and line_matches(ln, want[j]):
            used[j] = True
            i = j + 1
            if roles is not None:
                roles.append(j)
            continue
        if skippable(ln):
            if roles is not None:
                roles.append("skipped")
            continue
        if roles is not None:
            roles.append("unmatched")
        return used, n, False
    rest_ok = all(w.get("optional") for w in want[i:])
    return used, None, rest_ok


def is_rejection(v) -> bool:
    """a complete batch-rejection error as the client's reader task writes it back"""
    return (isinstance(v, dict) and "method" not in v and v.get("id") is None and isinstance(v.get("error"), dict)
            and v["error"].get("code") == -32600 and not isinstance(v["error"].get("code"), bool))


def line_key(line, raw=False):
    """comparable identity of a line (decoded value for JSON lines; exact text for raw / non-JSON)"""
    import hashlib

    if not raw and "json" in line:
        k = "J:" + canon(line["json"])
    elif "text" in line:
        k = "T:" + line["text"]
    else:
        k = "X:" + line.get("hex", "")
    return k if len(k) <= 400 else k[:40] + "...sha1:" + hashlib.sha1(k.encode("utf-8", "surrogatepass")).hexdigest() + f"...len:{len(k)}"


def run_duplex(cases):
    """real StdioClient, both directions: the writer task and the reader task (batch rejections)
    write to a slow stdin.  Observation per case: the lines the child received (small ones in full,
    large ones by key), whether each is JSON, the close flags."""
    from . import stdio_h

    out = []
    for c, o in zip(cases, stdio_h.run_duplex_cases(cases, build)):
        if "harness_error" in o:
            out.append(o)
            continue
        data = b"".join(o["sends"])
        d = decode_lines(data)
        lines = []
        for ln in d["lines"]:
            e = {"is_json": "json" in ln, "key": line_key(ln), "text_key": line_key(ln, raw=True)}
            if "json" in ln and len(ln.get("text", "")) <= 2000:
                e["json"] = ln["json"]
            lines.append(e)
        out.append({
            "lines": lines, "tail": d["tail"][:200], "nsends": len(o["sends"]), "nbytes": len(data),
            "closed_before": o["before_close"]["closed"], "closed_after": o["after_close"]["closed"],
            "sends_at_close": o["after_close"]["sends_at_close"], "delivered": o["delivered"],
            "failed_sends": o.get("failed_sends", []),
        })
    return out


def run_cases(cases):
    """real StdioClient writer on every case -> observations"""
    from . import stdio_h
    from chuk_mcp.protocol import fast_json
    import chuk_mcp.protocol.mcp_pydantic_base as B

    backend = {"orjson": bool(getattr(fast_json, "HAS_ORJSON", False)), "pydantic": bool(getattr(B, "PYDANTIC_AVAILABLE", True))}
    out = []
    def one(o):
        d = decode_lines(bytes.fromhex(o["bytes"]))
        return {
            "lines": d["lines"], "tail": d["tail"], "cr": d["cr"], "sends": o["sends"],
            "closed_before": o["before_close"]["closed"], "closed_after": o["after_close"]["closed"],
            "sends_at_close": o["after_close"]["sends_at_close"], "backend": backend, "late": o.get("late"),
            "failed_sends": o.get("failed_sends", []),
        }

    for o in stdio_h.run_writer_cases(cases, build):
        if "harness_error" in o:
            out.append(dict(o, backend=backend))
            continue
        r = one(o)
        if o.get("earlier"):  # earlier connections on the same object
            r["earlier"] = [one(e) for e in o["earlier"]]
        out.append(r)
    return out
