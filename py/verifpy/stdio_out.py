"""Outbound items of the stdio writer check (C06): JSON-able specs -> the real objects put on the
write stream, and the value each of them must reach the child as (independent of the model)."""
from __future__ import annotations

import json


def build(item):
    """spec -> object handed to `write_stream.send(...)`"""
    k = item["k"]
    if k == "dict":
        return item["v"]
    if k == "raw":
        return item["s"]
    if k == "typed":
        from chuk_mcp.protocol.messages import json_rpc_message as J

        cls = {
            "request": J.JSONRPCRequest, "notification": J.JSONRPCNotification, "response": J.JSONRPCResponse,
            "error": J.JSONRPCError, "legacy": J.JSONRPCMessage,
        }[item["cls"]]
        return cls(**item["f"])
    if k == "unser":
        how = item["how"]
        if how == "object":
            return object()
        if how == "dict-object":
            return {"jsonrpc": "2.0", "method": "m", "params": {"x": object()}}
        if how == "dict-set":
            return {"jsonrpc": "2.0", "id": 1, "result": {"s": {1, 2}}}
        if how == "dict-bytes":
            return {"jsonrpc": "2.0", "id": 1, "result": {"b": b"\xff"}}
        if how == "tuple-key":
            return {"jsonrpc": "2.0", "method": "m", "params": {(1, 2): 3}}
        if how == "typed-object":
            from chuk_mcp.protocol.messages import json_rpc_message as J

            return J.JSONRPCRequest(id=1, method="m", params={"x": object()})
        if how == "lone-surrogate":
            return '{"jsonrpc":"2.0","method":"\ud800"}'
        raise ValueError(how)
    raise ValueError(k)


def expected_line(item):
    """None (dropped) | {"json": value} | {"text": exact line}  — the property's reading:
    the message with absent optional members omitted; a pre-serialised string verbatim."""
    k = item["k"]
    if k == "dict":
        return {"json": item["v"]}
    if k == "raw":
        return {"text": item["s"]}
    if k == "typed":
        v = {"jsonrpc": "2.0"}
        v.update({f: x for f, x in item["f"].items() if x is not None})
        return {"json": v}
    return None


def canon(v) -> str:
    return json.dumps(v, sort_keys=True, ensure_ascii=True, separators=(",", ":"))


def decode_lines(data: bytes):
    """bytes at the child's stdin -> {"lines": [{"json": v} | {"text": str} | {"hex": …}], "tail": hex of
    what follows the last LF, "cr": a raw CR occurs inside some line}"""
    parts = data.split(b"\n")
    tail = parts.pop()
    lines = []
    cr = False
    for p in parts:
        if b"\r" in p:
            cr = True
        try:
            t = p.decode("utf-8")
        except UnicodeDecodeError:
            lines.append({"hex": p.hex()})
            continue
        try:
            lines.append({"json": json.loads(t), "text": t})
        except ValueError:
            lines.append({"text": t})
    return {"lines": lines, "tail": tail.hex(), "cr": cr}


def run_cases(cases):
    """real StdioClient writer on every case -> observations"""
    from . import stdio_h
    from chuk_mcp.protocol import fast_json
    import chuk_mcp.protocol.mcp_pydantic_base as B

    backend = {"orjson": bool(getattr(fast_json, "HAS_ORJSON", False)), "pydantic": bool(getattr(B, "PYDANTIC_AVAILABLE", True))}
    out = []
    for o in stdio_h.run_writer_cases(cases, build):
        if "harness_error" in o:
            out.append(dict(o, backend=backend))
            continue
        d = decode_lines(bytes.fromhex(o["bytes"]))
        out.append({
            "lines": d["lines"], "tail": d["tail"], "cr": d["cr"], "sends": o["sends"],
            "closed_before": o["before_close"]["closed"], "closed_after": o["after_close"]["closed"],
            "sends_at_close": o["after_close"]["sends_at_close"], "backend": backend,
        })
    return out
