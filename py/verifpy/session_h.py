"""Harness of C19: drives the REAL InMemorySessionManager / ProtocolHandler through an operation
sequence with a controlled integer clock, and builds the line for the Lean session model.

case = {"ops": [op, …]}            (JSON; refs are resolved at run time)
  ["T", d]                          advance the clock by d ticks (no call)
  ["C", client, version]            create_session(client, version)
  ["G", ref] ["U", ref] ["D", ref]  get_session / update_activity / delete_session
  ["X", max_age]                    cleanup_expired(max_age)
  ["L", mut]                        d = list_sessions(); mutate d (mut in add|pop|clear|both|none)
  ["K"]  ["N"]                      clear_all_sessions / get_session_count
  ["I", ref|None, spec, msgid]      handle_message(initialize …, session_id=ref); spec = {"client"?:v,"version"?:v,"noparams"?:true}
  ["R", ref|None, method, msgid|None]  handle_message(method …, session_id=ref)
ref k>=0 = the k-th id the implementation handed out in this case (a never-issued id when there
are fewer), ref -1 = a never-issued id, a STRING ref = that literal string as session id (never
issued: "", "%s", …).  ["X", None] calls cleanup_expired() with its default max_age (read from
the signature).  ["C", client, version, metadata] passes the optional metadata argument.
["R", ref, None, id] dispatches a message WITHOUT a method (a response-shaped message).
["R", ref, method, id, env] chooses the envelope: "legacy" (the unified JSONRPCMessage, default), "typed" (JSONRPCRequest /
JSONRPCNotification / JSONRPCResponse), "parse" (parse_message); ["I", ref, spec, id, env] likewise.
["S", k] is random.seed(k): the application (a tool, a handler) re-seeds the process-wide generator between two operations.
The generator's state is saved before the case and restored after it.
["B", n, client, version] is n consecutive create_session(client, version) calls reported as ONE step (large stores).
["I", ref, spec, None] is an initialize WITHOUT id (the session it leaves behind is found by comparing
list_sessions() before and after).  case["supply"] = [k, …] replaces the id supply: the session manager
becomes a subclass of the real one whose generate_session_id() hands out "scripted-k" in that order
(repeats allowed: that is the point), then falls back to the inherited uuid4-based one.

The ids the implementation returns are numbered in order of first appearance; those numbers
are what the model receives as "the id supply's choices" (a repeated id gets its old number, so
a non-fresh supply would be seen by the model as what it is).
"""
from __future__ import annotations

import asyncio
import copy
import json

_LOOP = None


def _loop():
    global _LOOP
    if _LOOP is None or _LOOP.is_closed():
        _LOOP = asyncio.new_event_loop()
    return _LOOP


class Clock:
    """stands in for the `time` module (or the `time` function) inside session/memory.py"""

    def __init__(self):
        self.now = 0
        self.reads = 0

    def time(self):
        self.reads += 1
        return float(self.now)

    __call__ = time


class patched_clock:
    def __init__(self, clock):
        self.clock = clock

    def __enter__(self):
        import chuk_mcp.server.session.memory as M
        import types

        self.M = M
        self.old = getattr(M, "time", None)
        if self.old is None:
            raise RuntimeError("seam lost: session/memory.py has no name `time` to patch")
        if isinstance(self.old, types.ModuleType):
            M.time = self.clock  # `time.time()`
        else:
            M.time = self.clock.time  # `from time import time`
        return self.clock

    def __exit__(self, *a):
        self.M.time = self.old


def _num(x):
    """clock values come back as floats of integer value; anything else is shown as it is"""
    if isinstance(x, bool):
        return repr(x)
    if isinstance(x, (int, float)) and float(x) == int(x):
        return int(x)
    return repr(x)


def _rec(s):
    if s is None:
        return None
    return [getattr(s, "client_info", "<missing>"), getattr(s, "protocol_version", "<missing>"),
            _num(getattr(s, "created_at", None)), _num(getattr(s, "last_activity", None))]


_INFO = None


def new_handler():
    from chuk_mcp.server.protocol_handler import ProtocolHandler
    from chuk_mcp.protocol.types.info import ServerInfo
    from chuk_mcp.protocol.types.capabilities import ServerCapabilities

    global _INFO
    if _INFO is None:
        _INFO = (ServerInfo(name="verif", version="1"), ServerCapabilities())
    ph = ProtocolHandler(*_INFO)

    async def h_raises(message, session_id):
        raise RuntimeError("handler failed")

    async def h_raises_empty(message, session_id):
        raise ValueError("")

    async def h_nonsense(message, session_id):
        return None

    async def h_silent(message, session_id):
        return None, None

    async def h_answers(message, session_id):
        return ph.create_response(message.id, {"ok": 0}), None

    async def h_raises_key(message, session_id):
        raise KeyError()

    async def h_raises_unprintable(message, session_id):
        class E(Exception):
            def __str__(self):
                raise RuntimeError("no text")
        raise E()

    async def h_raises_recursion(message, session_id):
        raise RecursionError("deep")

    async def h_reenter(message, session_id):
        # re-entrancy: nested dispatches on the same handler with the same session id, then an answer
        from chuk_mcp.protocol.messages.json_rpc_message import JSONRPCMessage as Legacy

        await ph.handle_message(Legacy.model_validate({"jsonrpc": "2.0", "id": "nested", "method": "ping"}), session_id)
        await ph.handle_message(Legacy.model_validate({"jsonrpc": "2.0", "method": "notifications/cancelled"}), session_id)
        if getattr(message, "id", None) is None:
            return None, None
        return ph.create_response(message.id, {"ok": 1}), None

    async def h_reenter_raises(message, session_id):
        await h_reenter(message, session_id)
        raise RuntimeError("after nested dispatches")

    ph.register_method("verif/reenter", h_reenter)
    ph.register_method("verif/reenter-then-raises", h_reenter_raises)
    ph.register_method("verif/raises-keyerror", h_raises_key)
    ph.register_method("verif/raises-unprintable", h_raises_unprintable)
    ph.register_method("verif/raises-recursion", h_raises_recursion)
    for name, fn in {"verif/raises": h_raises, "verif/raises-empty": h_raises_empty, "verif/nonsense": h_nonsense,
                     "verif/silent": h_silent, "verif/answers": h_answers}.items():
        ph.register_method(name, fn)
    return ph


def scripted_manager(supply):
    from chuk_mcp.server.session.memory import InMemorySessionManager

    class Scripted(InMemorySessionManager):
        def generate_session_id(self):
            if supply:
                return "scripted-%d" % supply.pop(0)
            return super().generate_session_id()

    return Scripted()


def kind_of(method, msgid):
    """what the dispatcher of a bare ProtocolHandler (see new_handler) does with this method"""
    if method is None or method == "":
        return "noMethod"
    if isinstance(method, str) and method.startswith("verif/raises"):
        return "handlerRaised"
    if method == "verif/nonsense":
        return "handlerNonsense"
    if method == "verif/reenter-then-raises":
        return "handlerRaised"
    if method == "verif/reenter":
        return "handlerReturned"
    if method in ("ping", "verif/answers"):
        return "handlerReturned" if msgid is not None else "handlerRaised"  # no envelope for a null id
    if method in ("notifications/initialized", "verif/silent"):
        return "handlerReturned"
    return "unknownMethod"


# literal strings usable as (never issued) session ids: falsy, format-hostile, look-alikes
GHOSTS = ["", "%s", "{0}", "a\nb", "sessions", "0", "None", "\u2028", "x" * 1000, '{"id":1}', "[NaN]", "data: x", ":"]


def run_case(case):
    """case["debug"]: the root logger is at DEBUG during the case (a host that configured logging);
    case["twin"]: a SECOND ProtocolHandler is alive and busy next to the one observed — after every operation it gets a
    mirror operation (create / initialize / update / delete / cleanup(0) / clear on its own manager)."""
    from .dispatch_h import debug_logging

    import random

    restore = debug_logging() if case.get("debug") else None
    reseeds = any(op[0] == "S" for op in case["ops"])
    rstate = random.getstate() if reseeds else None
    try:
        return _run_case(case)
    finally:
        if reseeds:
            random.setstate(rstate)
        if restore:
            restore()


def envelope(msg, env):
    from chuk_mcp.protocol.messages import json_rpc_message as J

    if env == "parse":
        return J.parse_message(dict(msg))
    if env == "typed":
        if "method" not in msg:
            return J.JSONRPCResponse(jsonrpc="2.0", id=msg.get("id", 0), result=msg.get("result", {}))
        if "id" in msg:
            return J.JSONRPCRequest(jsonrpc="2.0", id=msg["id"], method=msg["method"], params=msg.get("params"))
        return J.JSONRPCNotification(jsonrpc="2.0", method=msg["method"], params=msg.get("params"))
    return J.JSONRPCMessage.model_validate(dict(msg))


def _mirror(twin, code, now):
    """keep the second handler busy with the same kind of operation"""
    from chuk_mcp.protocol.messages.json_rpc_message import JSONRPCMessage

    mgr = twin.session_manager
    live = list(mgr.list_sessions())
    if code == "C":
        mgr.create_session({"name": "twin"}, "2025-06-18")
    elif code == "I":
        m = JSONRPCMessage.model_validate({"jsonrpc": "2.0", "id": 1, "method": "initialize", "params": {"clientInfo": {"name": "twin"}}})
        _loop().run_until_complete(twin.handle_message(m, live[0] if live else None))
    elif code == "U" and live:
        mgr.update_activity(live[0])
    elif code == "D" and live:
        mgr.delete_session(live[-1])
    elif code == "X":
        mgr.cleanup_expired(0)
    elif code == "K":
        mgr.clear_all_sessions()
    elif code == "R":
        m = JSONRPCMessage.model_validate({"jsonrpc": "2.0", "id": 2, "method": "nosuch/method"})
        _loop().run_until_complete(twin.handle_message(m, live[0] if live else None))


def _run_case(case):
    from chuk_mcp.protocol.messages.json_rpc_message import JSONRPCMessage

    clock = Clock()
    ids: list[str] = []  # index = number handed to the model
    steps = []
    obs = {"steps": steps, "harness_error": None}

    index_of: dict = {}

    def number(sid):
        try:
            k = index_of.get(sid)
        except TypeError:  # an unhashable id: fall back to the list
            k = ids.index(sid) if sid in ids else None
        if k is not None:
            return k, False
        ids.append(sid)
        try:
            index_of[sid] = len(ids) - 1
        except TypeError:
            pass
        return len(ids) - 1, True

    def resolve(ref):
        if ref is None or isinstance(ref, str):
            return ref
        if 0 <= ref < len(ids):
            return ids[ref]
        return f"never-issued-{ref}"

    try:
        with patched_clock(clock):
            twin = new_handler() if case.get("twin") else None
            if twin is not None:
                twin.session_manager.create_session({"name": "already there"}, "2025-06-18")
            handler = new_handler()
            if case.get("supply") is not None:
                handler.session_manager = scripted_manager(list(case["supply"]))
            mgr = handler.session_manager
            envelopes = {}
            handed_out = []  # ids drawn through generate_session_id (when the manager draws them there)
            try:
                _orig_gen = mgr.generate_session_id

                def _recording_gen():
                    x = _orig_gen()
                    handed_out.append(x)
                    return x

                mgr.generate_session_id = _recording_gen
            except Exception:
                pass

            def snapshot():
                snap = []
                for k, sid in enumerate(ids):
                    r = mgr.get_session(sid)
                    if r is not None:
                        snap.append([k] + _rec(r))
                return {"sessions": snap, "count": mgr.get_session_count()}

            for op in case["ops"]:
                code = op[0]
                st = {"now": clock.now}
                if code == "T":
                    clock.now += int(op[1])
                    st = {"now": clock.now, "out": ["tick"]}
                elif code == "S":
                    import random

                    random.seed(op[1])
                    st["out"] = ["tick"]
                elif code == "C":
                    if len(op) > 3:
                        sid = mgr.create_session(copy.deepcopy(op[1]), op[2], copy.deepcopy(op[3]))
                    else:
                        sid = mgr.create_session(copy.deepcopy(op[1]), op[2])
                    k, fresh = number(sid)
                    st["out"] = ["sid", k]
                    st["fresh"] = fresh
                    st["idtype"] = type(sid).__name__
                elif code == "B":
                    first, all_fresh = len(ids), True
                    for _ in range(op[1]):
                        k, fresh = number(mgr.create_session(copy.deepcopy(op[2]), op[3]))
                        all_fresh = all_fresh and fresh and k == len(ids) - 1
                    st["out"] = ["bulk", op[1]]
                    st["first"] = first
                    st["fresh"] = all_fresh
                elif code == "G":
                    st["out"] = ["rec", _rec(mgr.get_session(resolve(op[1])))]
                elif code == "U":
                    st["out"] = ["flag", mgr.update_activity(resolve(op[1]))]
                elif code == "D":
                    st["out"] = ["flag", mgr.delete_session(resolve(op[1]))]
                elif code == "X":
                    if op[1] is None:
                        import inspect

                        d = inspect.signature(mgr.cleanup_expired).parameters["max_age"].default
                        st["default"] = d if isinstance(d, (int, float)) and not isinstance(d, bool) else repr(d)
                        st["out"] = ["count", mgr.cleanup_expired()]
                    else:
                        st["out"] = ["count", mgr.cleanup_expired(op[1])]
                elif code == "K":
                    st["out"] = ["count", mgr.clear_all_sessions()]
                elif code == "N":
                    st["out"] = ["count", mgr.get_session_count()]
                elif code == "L":
                    d = mgr.list_sessions()
                    listing = []
                    alien = 0
                    for sid, r in d.items():
                        if sid in ids:
                            listing.append([ids.index(sid)] + _rec(r))
                        else:
                            alien += 1
                    listing.sort(key=lambda e: e[0])
                    st["out"] = ["listing", listing]
                    st["alien"] = alien
                    mut = op[1]
                    if mut in ("add", "both"):
                        d["intruder"] = next(iter(d.values()), None)
                    if mut in ("pop", "both") and ids:
                        for sid in ids:
                            d.pop(sid, None)
                    if mut == "clear":
                        d.clear()
                    st["intruder_visible"] = mgr.get_session("intruder") is not None
                elif code == "I":
                    spec = op[2]
                    msg = {"jsonrpc": "2.0", "method": "initialize"}
                    if op[3] is not None:
                        msg["id"] = op[3]
                    else:
                        before = set(mgr.list_sessions())
                        drawn_before = len(handed_out)
                    if not spec.get("noparams"):
                        params = {"capabilities": {}}
                        if "client" in spec:
                            params["clientInfo"] = copy.deepcopy(spec["client"])
                        if "version" in spec:
                            params["protocolVersion"] = spec["version"]
                        msg["params"] = params
                    ckey = json.dumps(msg, sort_keys=True)
                    env = op[4] if len(op) > 4 else "legacy"
                    ckey = env + ckey
                    if spec.get("reuse") and ckey in envelopes:
                        m = envelopes[ckey]  # the very same envelope object dispatched again
                    else:
                        m = envelopes[ckey] = envelope(msg, env)
                    resp, new_sid = _loop().run_until_complete(handler.handle_message(m, resolve(op[1])))
                    rd = resp.model_dump(exclude_none=True) if resp is not None else None
                    st["resp_id"] = rd.get("id") if isinstance(rd, dict) else None
                    st["has_result"] = isinstance(rd, dict) and isinstance(rd.get("result"), dict)
                    answered = rd["result"].get("protocolVersion") if st["has_result"] else None
                    if op[3] is None:
                        born = [x for x in mgr.list_sessions() if x not in before]
                        if not born and len(handed_out) == drawn_before + 1 and mgr.get_session(handed_out[-1]) is not None:
                            born = [handed_out[-1]]  # a repeated id: the session replaced an existing one
                        st["answered"] = resp is not None
                        st["returned_sid"] = new_sid is not None
                        st["born"] = len(born)
                        if len(born) == 1 and isinstance(born[0], str):
                            k, fresh = number(born[0])
                            st["out"] = ["silent", k]
                            st["fresh"] = fresh
                        else:
                            st["out"] = ["silent", None]
                    elif isinstance(new_sid, str):
                        k, fresh = number(new_sid)
                        st["out"] = ["inited", k, answered]
                        st["fresh"] = fresh
                    else:
                        st["out"] = ["inited", None, answered]
                        st["fresh"] = None
                    st["idtype"] = type(new_sid).__name__
                elif code == "R":
                    msg = {"jsonrpc": "2.0"}
                    if op[2] is not None:
                        msg["method"] = op[2]
                    else:
                        msg["result"] = {}
                    if op[3] is not None:
                        msg["id"] = op[3]
                    m = envelope(msg, op[4] if len(op) > 4 else "legacy")
                    resp, new_sid = _loop().run_until_complete(handler.handle_message(m, resolve(op[1])))
                    st["out"] = ["unit"]
                    rd = resp.model_dump(exclude_none=True) if resp is not None else None
                    st["answer"] = None if rd is None else ("error" if "error" in rd else "result")
                    st["new_sid"] = new_sid if new_sid is None else "<sid>"
                else:
                    raise ValueError(f"unknown op {op!r}")
                if twin is not None:
                    _mirror(twin, code, clock.now)
                st["snap"] = snapshot()
                steps.append(st)
    except Exception as ex:  # the harness (or the code under it) raised: reported, never compared
        obs["harness_error"] = f"{type(ex).__name__}: {ex}"[:300]
    obs["issued"] = len(ids)
    obs["distinct_ids"] = len(set(ids))
    return obs


# ------------------------------------------------------------------------------------------
# model line / shapes


def _ref_num(ref, issued_before):
    """number the model sees for a ref: the k-th issued id, or a negative never-issued one"""
    if ref is None:
        return None
    if isinstance(ref, str):
        return -(2 + GHOSTS.index(ref)) if ref in GHOSTS else -900
    if 0 <= ref < issued_before:
        return ref
    return -1000 - ref if ref >= 0 else -1


def _jsame(a, b):
    """JSON equality with JSON types (True is not 1)"""
    return json.dumps(a, sort_keys=True) == json.dumps(b, sort_keys=True)


def model_line(case, obs):
    if obs.get("harness_error"):
        return None
    ops = []
    answers = []
    issued = 0
    for op, st in zip(case["ops"], obs["steps"]):
        code, now = op[0], st["now"]
        if code in ("T", "S"):
            continue
        if code == "C":
            ops.append([now, "C", st["out"][1], op[1], op[2]])
            issued = max(issued, st["out"][1] + 1)
        elif code == "B":
            if not st.get("fresh"):
                return None  # a repeated id inside a bulk step: the oracle reports it
            ops.append([now, "B", st["first"], op[1], op[2], op[3]])
            issued = max(issued, st["first"] + op[1])
        elif code in ("G", "U", "D"):
            ops.append([now, code, _ref_num(op[1], issued)])
        elif code == "X":
            a = st.get("default") if op[1] is None else op[1]
            if not isinstance(a, int) or isinstance(a, bool):
                return None  # fractional limits are outside the integer model: reference dict only
            ops.append([now, "X", a])
        elif code in ("L", "K", "N"):
            ops.append([now, code])
        elif code == "I" and op[3] is None:
            sid = _ref_num(op[1], issued)
            if st["out"][1] is None:
                ops.append([now, "M", sid, "handlerRaised"])  # no session was left behind
                continue
            spec = op[2]
            o = {"id": st["out"][1]}
            if sid is not None:
                o["sid"] = sid
            if not spec.get("noparams") and "client" in spec:
                o["client"] = spec["client"]
            ops.append([now, "IS", o])
            issued = max(issued, st["out"][1] + 1)
        elif code == "I":
            if st["out"][1] is None:
                return None  # no session id came back: nothing to feed the supply with (oracle reports it)
            spec = op[2]
            o = {"id": st["out"][1]}
            sid = _ref_num(op[1], issued)
            if sid is not None:
                o["sid"] = sid
            if not spec.get("noparams"):
                if "client" in spec:
                    o["client"] = spec["client"]
                if "version" in spec:
                    o["version"] = spec["version"]
            rq = [o["version"]] if "version" in o else []
            if not any(_jsame(a[0], rq) for a in answers):
                answers.append([rq, st["out"][2]])
            ops.append([now, "I", o])
            issued = max(issued, st["out"][1] + 1)
        elif code == "R":
            ops.append([now, "M", _ref_num(op[1], issued), kind_of(op[2], op[3])])
    return {"m": "session", "answers": answers, "ops": ops}


def _no_model_op(op):
    return op[0] in ("T", "S")


def masked_ids(case, obs):
    """sessions created by an initialize WITHOUT clientInfo: what is recorded for them is not
    fixed by the property, so their client field is masked on both sides"""
    out = set()
    for op, st in zip(case["ops"], obs["steps"]):
        if op[0] == "I" and (op[2].get("noparams") or "client" not in op[2]) and st["out"][1] is not None:
            out.add(st["out"][1])
    return out


def masked_versions(case, obs):
    """sessions left behind by an initialize WITHOUT id: there is no response to read the answered version from"""
    return {st["out"][1] for op, st in zip(case["ops"], obs["steps"])
            if op[0] == "I" and op[3] is None and st["out"][1] is not None}


def _mask_rows(rows, masked, mver=()):
    return sorted(([r[0], "<default>" if r[0] in masked else r[1], "<answered>" if r[0] in mver else r[2]] + r[3:] for r in rows),
                  key=lambda r: r[0])


def _mask_out(o, op, masked, mver):
    if o[0] == "listing":
        return ["listing", _mask_rows(o[1], masked, mver)]
    if o[0] == "rec" and o[1] is not None and (op[1] in masked or op[1] in mver):
        return ["rec", ["<default>" if op[1] in masked else o[1][0], "<answered>" if op[1] in mver else o[1][1]] + o[1][2:]]
    if o[0] == "silent":
        return ["unit"]
    return o


def impl_shape(case, obs):
    masked, mver = masked_ids(case, obs), masked_versions(case, obs)
    outs, snaps = [], []
    for op, st in zip(case["ops"], obs["steps"]):
        if _no_model_op(op):
            continue
        outs.append(_mask_out(st["out"], op, masked, mver))
        snaps.append(_mask_rows(st["snap"]["sessions"], masked, mver))
    return {"outs": outs, "snaps": snaps}


def model_shape(out, case, obs):
    if "driver_error" in out:
        return out
    masked, mver = masked_ids(case, obs), masked_versions(case, obs)
    outs = []
    real_ops = [op for op in case["ops"] if not _no_model_op(op)]
    for op, o in zip(real_ops, out["outs"]):
        outs.append(_mask_out(o, op, masked, mver))
    return {"outs": outs, "snaps": [_mask_rows(s, masked, mver) for s in out["snaps"]]}
