"""Worker process of the C09/C10 correspondence: runs the REAL library under ONE validation backend.

Started as a script by `schema_h.Pool` (env: VERIF_SRC=<repo>/src, MCP_FORCE_FALLBACK=1 for the
fallback).  Line protocol on stdin/stdout: one JSON request `{"op":…, "cases":[…]}` per line, one
JSON list of observations back.  Only observables named by the properties are reported:
accept/reject, `type(...).__name__` at every level, `model_dump(by_alias=True, exclude_none=True)`
as a JSON value, and the dict/message a library-side serialiser emits.
"""
from __future__ import annotations

import asyncio
import copy
import json
import os
import sys

sys.path.insert(0, os.path.dirname(os.path.abspath(__file__)))
import schema_introspect as SI  # noqa: E402

LAZY = os.environ.get("VERIF_LAZY") == "1"
if LAZY:
    # import-order dimension: nothing of the package is imported up front; a class's module is
    # imported when a case first names it (the case carries module and class name)
    src = os.environ.get("VERIF_SRC")
    if src:
        sys.path.insert(0, src)
    import importlib
    import logging as _logging

    _logging.disable(_logging.CRITICAL)
    from chuk_mcp.protocol import mcp_pydantic_base as B  # noqa: E402

    class _LazyIndex(dict):
        where = {}

        def get(self, k, default=None):
            if k not in self and k in self.where:
                m, n = self.where[k]
                self[k] = getattr(importlib.import_module(m), n)
            return dict.get(self, k, default)

        def __getitem__(self, k):
            v = self.get(k)
            if v is None:
                raise KeyError(k)
            return v

    INDEX, IDS = _LazyIndex(), {}
else:
    B, INDEX, IDS = SI.class_index()
BACKEND = "pydantic" if B.PYDANTIC_AVAILABLE else "fallback"


def canon(v):
    """JSON value with integral floats as ints (1.0 and 1 are the same JSON number)"""
    if isinstance(v, bool) or v is None or isinstance(v, (int, str)):
        return v
    if isinstance(v, float):
        if v == v and v not in (float("inf"), float("-inf")) and v == int(v) and abs(v) < 2 ** 53:
            return int(v)
        return v
    if isinstance(v, (list, tuple)):
        return [canon(x) for x in v]
    if isinstance(v, dict):
        return {str(k): canon(x) for k, x in v.items()}
    if isinstance(v, B.McpPydanticBase):
        return {"$model-instance": type(v).__name__}
    return {"$not-json": type(v).__name__}


def _try(fn):
    try:
        return canon(fn())
    except Exception as ex:  # noqa
        return {"$raised": type(ex).__name__}


def _quiet(fn):
    import warnings

    with warnings.catch_warnings():
        warnings.simplefilter("ignore")
        return fn()


def _first_field(o):
    """{name of the first declared field} (a set, as include= / exclude= take it)"""
    names = list(type(o).model_fields) if B.PYDANTIC_AVAILABLE else list(type(o).__model_fields__)
    return set(names[:1])


def _scribble(v, depth=0):
    """edit a dumped value IN PLACE the way a consumer / middleware does (add `_meta`-like members,
    append items): every nested container is touched"""
    if isinstance(v, dict):
        for x in list(v.values()):
            _scribble(x, depth + 1)
        v["verif_added_by_consumer"] = {"progressToken": depth}
        if "_meta" in v and isinstance(v["_meta"], dict):
            v["_meta"]["progressToken"] = "scribbled"
    elif isinstance(v, list):
        for x in v:
            _scribble(x, depth + 1)
        v.append("verif_appended_by_consumer")


def _scribble_instance(o, seen=None):
    """edit the VALUES an instance holds in place (containers and nested instances reachable from it):
    what a user of the typed object may do with one instance must not leak into another"""
    seen = seen if seen is not None else set()
    if id(o) in seen:
        return
    seen.add(id(o))
    if isinstance(o, B.McpPydanticBase):
        for k, v in list(SI.instance_items(o, B)):
            if isinstance(v, bool):
                try:
                    object.__setattr__(o, k, not v) if not B.PYDANTIC_AVAILABLE else o.__dict__.__setitem__(k, not v)
                except Exception:  # noqa
                    pass
            else:
                _scribble_instance(v, seen)
    elif isinstance(o, dict):
        for v in list(o.values()):
            _scribble_instance(v, seen)
        o["verif_added_to_instance"] = 1
    elif isinstance(o, list):
        for v in o:
            _scribble_instance(v, seen)
        o.append("verif_appended_to_instance")


class _S(str):
    """a caller's str subclass (marker types, enum.StrEnum members behave the same way)"""


class _I(int):
    pass


def _subclassed(v, enums=False):
    """the same value with every str / int leaf (and key) replaced by an instance of a SUBCLASS"""
    import enum

    if isinstance(v, bool) or v is None or isinstance(v, float):
        return v
    if isinstance(v, str):
        if enums:
            return enum.StrEnum("E", [("m", v)]).m if v != "" else _S(v)
        return _S(v)
    if isinstance(v, int):
        if enums:
            return enum.IntEnum("N", [("m", v)]).m
        return _I(v)
    if isinstance(v, list):
        return [_subclassed(x, enums) for x in v]
    if isinstance(v, dict):
        return {k: _subclassed(x, enums) for k, x in v.items()}
    return v


def _with_shared(v, depth=0):
    """the same kind of value, in which sub-objects are reachable TWICE (shared, not cyclic): every
    object (down to the third level: the tree copy doubles per level) gains a member that IS one of its
    container members, every list ends with its first container item once more (the same Python object)"""
    if depth > 3:
        return v
    if isinstance(v, dict):
        out = {k: _with_shared(x, depth + 1) for k, x in v.items()}
        for k, x in list(out.items()):
            if isinstance(x, (dict, list)):
                out["verif_same_object_again"] = x
                break
        return out
    if isinstance(v, list):
        out = [_with_shared(x, depth + 1) for x in v]
        for x in out:
            if isinstance(x, (dict, list)):
                out.append(x)
                break
        return out
    return v


def _tree(v):
    """a tree copy: every sub-object exactly once"""
    return json.loads(json.dumps(v))


def _dumps3(o):
    return {"wire": _try(lambda: o.model_dump(by_alias=True, exclude_none=True)), "plain": _try(lambda: o.model_dump()),
            "json": _try(lambda: json.loads(o.model_dump_json(by_alias=True, exclude_none=True)))}


def observe_instance(o, variants=False):
    out = {"ok": True, "type": type(o).__name__}
    try:
        out["tree"] = SI.type_tree(o, B)
        out["dump"] = canon(o.model_dump(by_alias=True, exclude_none=True))
    except Exception as ex:  # noqa
        out["dump_error"] = type(ex).__name__
        return out
    if variants:
        # the other argument combinations the library itself uses at its dump sites, the JSON text
        # form the stdio writer sends, and a second dump of the same instance (dumping must not
        # change the instance)
        out["variants"] = {
            "plain": _try(lambda: o.model_dump()),
            "exclude_none": _try(lambda: o.model_dump(exclude_none=True)),
            "by_alias": _try(lambda: o.model_dump(by_alias=True)),
            "json": _try(lambda: json.loads(o.model_dump_json(by_alias=True, exclude_none=True))),
            "json_plain": _try(lambda: json.loads(o.model_dump_json(exclude_none=True))),
            "mcp": _try(lambda: o.model_dump_mcp(by_alias=True, exclude_none=True)),
            "again": _try(lambda: o.model_dump(by_alias=True, exclude_none=True)),
            # ALIASING: what was dumped is the caller's to edit; a later dump must not see the edits
            "after_edit_of_dump": _try(lambda: (_scribble(o.model_dump(by_alias=True, exclude_none=True)),
                                                 o.model_dump(by_alias=True, exclude_none=True))[1]),
            "after_edit_of_plain_dump": _try(lambda: (_scribble(o.model_dump()), o.model_dump(by_alias=True, exclude_none=True))[1]),
            "info_include_first": _try(lambda: o.model_dump(include=_first_field(o), by_alias=True)),
            "info_exclude_first": _try(lambda: o.model_dump(exclude=_first_field(o), by_alias=True, exclude_none=True)),
            "info_exclude_dict": _try(lambda: o.model_dump(exclude={k: True for k in _first_field(o)}, exclude_none=True)),
            "json_indent": _try(lambda: json.loads(o.model_dump_json(by_alias=True, exclude_none=True, indent=2))),
            "v1_dict": _try(lambda: _quiet(lambda: o.dict(by_alias=True, exclude_none=True))),
            "v1_json": _try(lambda: _quiet(lambda: json.loads(o.json(by_alias=True, exclude_none=True)))),
        }
    return out


def op_validate(case):
    cls = INDEX.get(case["cls"])
    if cls is None:
        return {"ok": False, "exc": "no-such-class"}
    wire = copy.deepcopy(case["wire"])
    try:
        o = cls.model_validate(wire)
    except Exception as ex:  # noqa
        return {"ok": False, "exc": type(ex).__name__}
    if not case.get("forms", True):
        return observe_instance(o)
    out = observe_instance(o, variants=True)
    # REUSE: the caller's dict is not modified by validation, the same dict validates a second time
    # to the same view, and an instance is accepted as input of its own class
    out["input_intact"] = (canon(wire) == canon(case["wire"]))
    try:
        o2 = cls.model_validate(wire)
        out["second"] = canon(o2.model_dump(by_alias=True, exclude_none=True))
        o3 = cls.model_validate(o)
        out["from_instance"] = canon(o3.model_dump(by_alias=True, exclude_none=True))
        # INDEPENDENCE: edit everything the first two instances hold, then validate the wire object anew
        seen = set()  # one set for both: an object the two instances share is edited once
        _scribble_instance(o, seen)
        _scribble_instance(o2, seen)
        o4 = cls.model_validate(copy.deepcopy(case["wire"]))
        out["fresh_after_instances_edited"] = canon(o4.model_dump(by_alias=True, exclude_none=True))
        # SHARED SUB-OBJECTS: an object whose members share sub-objects dumps like its tree copy
        shared = _with_shared(copy.deepcopy(case["wire"]))
        try:
            out["shared_subobjects"] = _dumps3(cls.model_validate(shared))
            out["tree_of_the_same"] = _dumps3(cls.model_validate(_tree(shared)))
        except Exception as ex:  # noqa
            out["shared_subobjects"] = {"$raised": type(ex).__name__}
            try:
                out["tree_of_the_same"] = _dumps3(cls.model_validate(_tree(shared)))
            except Exception as ex2:  # noqa
                out["tree_of_the_same"] = {"$raised": type(ex2).__name__}
        # SUBCLASSES: the same object with every str / int value given as an instance of a str / int
        # subclass (marker types), and as StrEnum / IntEnum members: same typed view
        for nm, en in (("value_subclasses", False), ("enum_members", True)):
            try:
                o5 = cls.model_validate(_subclassed(copy.deepcopy(case["wire"]), en))
                out[nm] = canon(json.loads(json.dumps(o5.model_dump(by_alias=True, exclude_none=True), default=str)))
            except Exception as ex:  # noqa
                out[nm] = {"$raised": type(ex).__name__}
        # informational: value equality of typed objects (not named by the property)
        other = cls.model_validate({**copy.deepcopy(case["wire"]), "verif_eq_probe": 1})
        out.setdefault("variants", {})["info_eq_different_value"] = bool(o4 == other)
        out["variants"]["info_eq_same_value"] = bool(o4 == cls.model_validate(copy.deepcopy(case["wire"])))
    except Exception as ex:  # noqa
        out["reuse_error"] = type(ex).__name__
    return out


def op_parse(case):
    from chuk_mcp.protocol.messages.json_rpc_message import parse_message

    try:
        o = parse_message(copy.deepcopy(case["wire"]))
    except Exception as ex:  # noqa
        return {"ok": False, "exc": type(ex).__name__}
    if isinstance(o, list):
        return {"ok": True, "type": "list", "items": [observe_instance(x) for x in o]}
    out = observe_instance(o, variants=True)
    # the legacy unified class converts to the specific message classes and back
    if hasattr(o, "to_specific_type"):
        def conv():
            sp = o.to_specific_type()
            back = type(o).from_specific_type(sp)
            return {"type": type(sp).__name__, "dump": sp.model_dump(by_alias=True, exclude_none=True),
                    "back": back.model_dump(by_alias=True, exclude_none=True)}
        out.setdefault("variants", {})["specific"] = _try(conv)
    # the wrapper class and the kind predicates of the legacy class
    from chuk_mcp.protocol.messages.json_rpc_message import JSONRPCMessageWrapper

    def wrapped():
        w = JSONRPCMessageWrapper(o)
        return {"fields": [w.jsonrpc, w.id, w.method, w.params, w.result, w.error],
                "is": [w.is_request(), w.is_notification(), w.is_response(), w.is_error_response(), w.is_batch()],
                "dump": w.model_dump(by_alias=True, exclude_none=True),
                "json": json.loads(w.model_dump_json(exclude_none=True))}
    out["variants"]["wrapper"] = _try(wrapped)
    if hasattr(o, "is_request"):
        out["variants"]["legacy_is"] = _try(lambda: [o.is_request(), o.is_notification(), o.is_response(), o.is_error_response()])
    # kind by member presence (the legacy unified class is returned for most inputs)
    has = lambda n: getattr(o, n, None) is not None  # noqa: E731
    out["kind"] = (
        "request" if has("method") and has("id") else
        "notification" if has("method") else
        "error" if has("error") else
        "response" if has("id") else "other"
    )
    return out


# ------------------------------------------------------------------ library-side serialisers
def aliased_fields(cls):
    """[(attribute name, wire name)] of the aliased fields of a model class"""
    if B.PYDANTIC_AVAILABLE:
        return [(n, f.alias) for n, f in cls.model_fields.items() if f.alias and f.alias != n]
    return [(n, a) for n, a in cls.__field_aliases__.items() if a != n]


def leaks(o, d, path="$"):
    """Where does the emitted JSON `d` carry a Python attribute name in place of the wire name of
    an aliased member of the typed object `o` it was produced from?"""
    out = []
    if isinstance(o, B.McpPydanticBase):
        if not isinstance(d, dict):
            return out
        items = dict(SI.instance_items(o, B))
        al = dict(aliased_fields(type(o)))
        for n, v in items.items():
            if v is None:
                continue
            if n in al:
                if al[n] not in d:
                    out.append({"path": path, "class": type(o).__name__, "attr": n, "wire": al[n],
                                "emitted_as": n if n in d else None})
                    sub = d.get(n)
                else:
                    sub = d.get(al[n])
            else:
                sub = d.get(n)
            out += leaks(v, sub, f"{path}.{al.get(n, n)}")
    elif isinstance(o, (list, tuple)) and isinstance(d, list):
        for i, (x, y) in enumerate(zip(o, d)):
            out += leaks(x, y, f"{path}[{i}]")
    elif isinstance(o, dict) and isinstance(d, dict):
        for k, x in o.items():
            out += leaks(x, d.get(k), f"{path}.{k}")
    return out


def _patched_send(modname):
    """replace the `send_message` a helper module imported by name with a recorder"""
    mod = sys.modules[modname]
    rec = {}

    async def fake_send_message(*a, **kw):
        rec["method"] = str(kw.get("method"))
        rec["params"] = kw.get("params")
        return rec.get("reply", {})

    orig = mod.send_message
    mod.send_message = fake_send_message
    return mod, orig, rec


def helper_elicitation(case):
    from chuk_mcp.protocol.types import elicitation as E

    params = E.ElicitationParams.model_validate(copy.deepcopy(case["wire"]))
    sent = []

    async def main():
        handler = None

        async def send(msg):
            sent.append(msg)
            await handler.handle_elicitation_response({"id": msg.get("id"), "result": {"data": {}}})

        handler = E.ElicitationHandler(send)
        await handler.request_user_input(params, timeout=5)

    asyncio.run(main())
    emitted = sent[0]["params"]
    return params, emitted


def helper_tool_result(case):
    from chuk_mcp.protocol.types import tools as T

    r = T.ToolResult.model_validate(copy.deepcopy(case["wire"]))
    return r, T.tool_result_to_dict(r)


def helper_content(case):
    from chuk_mcp.protocol.types import content as C

    o = INDEX[case["cls"]].model_validate(copy.deepcopy(case["wire"]))
    return o, C.content_to_dict(o)


def helper_roots(case):
    from chuk_mcp.protocol.messages.roots import send_messages as R

    res = R.ListRootsResult.model_validate(copy.deepcopy(case["wire"]))
    msg = asyncio.run(R.handle_roots_list_request(list(res.roots), 7))
    return R.ListRootsResult(roots=list(res.roots)), msg.result


def helper_sampling(case):
    import chuk_mcp.protocol.messages.sampling.send_messages as S  # noqa

    mod, orig, rec = _patched_send("chuk_mcp.protocol.messages.sampling.send_messages")
    try:
        m = mod.SamplingMessage.model_validate(copy.deepcopy(case["wire"]))
        prefs = None
        if case.get("prefs") is not None:
            prefs = mod.ModelPreferences.model_validate(copy.deepcopy(case["prefs"]))
        asyncio.run(mod.send_sampling_create_message(None, None, [m], 10, model_preferences=prefs))
    finally:
        mod.send_message = orig
    typed = {"messages": [m]}
    if prefs is not None:
        typed["modelPreferences"] = prefs
    return typed, rec["params"]


def helper_completion(case):
    import chuk_mcp.protocol.messages.completions.send_messages as S  # noqa

    mod, orig, rec = _patched_send("chuk_mcp.protocol.messages.completions.send_messages")
    try:
        ref = INDEX[case["cls"]].model_validate(copy.deepcopy(case["wire"]))
        arg = mod.ArgumentInfo.model_validate(copy.deepcopy(case["arg"]))
        rec["reply"] = {"completion": {"values": []}}
        asyncio.run(mod.send_completion_complete(None, None, ref, arg))
    finally:
        mod.send_message = orig
    return {"ref": ref, "argument": arg}, rec["params"]


def helper_server_initialize(case):
    from chuk_mcp.server.protocol_handler import ProtocolHandler
    from chuk_mcp.protocol.types.info import ServerInfo
    from chuk_mcp.protocol.types.capabilities import ServerCapabilities
    from chuk_mcp.protocol.messages.json_rpc_message import JSONRPCMessage

    info = ServerInfo.model_validate(copy.deepcopy(case["wire"]))
    caps = ServerCapabilities.model_validate(copy.deepcopy(case["caps"]))
    h = ProtocolHandler(info, caps)
    req = JSONRPCMessage.model_validate({"jsonrpc": "2.0", "id": 1, "method": "initialize",
                                         "params": {"protocolVersion": "2025-06-18", "clientInfo": {"name": "c", "version": "1"}}})
    resp, _sid = asyncio.run(h.handle_message(req))
    result = resp.result if not isinstance(resp, dict) else resp.get("result")
    return {"serverInfo": info, "capabilities": caps}, {k: result[k] for k in ("serverInfo", "capabilities")}


HELPERS = {
    "elicitation-request": helper_elicitation,
    "tool-result-to-dict": helper_tool_result,
    "content-to-dict": helper_content,
    "roots-list-response": helper_roots,
    "sampling-request": helper_sampling,
    "completion-request": helper_completion,
    "server-initialize-result": helper_server_initialize,
}


def op_helper(case):
    fn = HELPERS.get(case["helper"])
    if fn is None:
        return {"ok": False, "exc": "no-such-helper"}
    try:
        typed, emitted = fn(case)
    except Exception as ex:  # noqa
        return {"ok": False, "exc": type(ex).__name__, "msg": str(ex)[:200]}
    return {"ok": True, "emitted": canon(emitted), "leaks": leaks(typed, emitted)}


_CTORS = None


def _ctor(module, qual):
    global _CTORS
    if _CTORS is None:
        _CTORS = {}
        for c in SI.find_constructors(B, IDS):
            mod = sys.modules[c["module"]]
            obj = mod
            for part in c["qual"].split("."):
                obj = getattr(obj, part)
            _CTORS[(c["module"], c["qual"])] = obj
    return _CTORS.get((module, qual))


_SHARE = {"on": False, "memo": {}}


def _instantiate(v):
    """argument tree -> Python values: {"$model": id, "wire": {...}} becomes an instance; with sharing on,
    equal markers / equal containers become ONE object referenced from every place"""
    if isinstance(v, dict):
        if "$model" in v:
            if _SHARE["on"]:
                key = json.dumps(v, sort_keys=True)
                if key not in _SHARE["memo"]:
                    _SHARE["memo"][key] = INDEX[v["$model"]].model_validate(copy.deepcopy(v["wire"]))
                return _SHARE["memo"][key]
            return INDEX[v["$model"]].model_validate(copy.deepcopy(v["wire"]))
        if "$tuple" in v:
            return tuple(_instantiate(x) for x in v["$tuple"])
        if "$sub" in v:
            return _subclassed(v["value"], enums=(v["$sub"] == "enum"))
        return {k: _instantiate(x) for k, x in v.items()}
    if isinstance(v, list):
        return [_instantiate(x) for x in v]
    return v


def op_construct(case):
    """a library-side constructor (create_* helper / classmethod) called with generated arguments;
    twice, with the same argument objects (REUSE)"""
    import uuid

    fn = _ctor(case["module"], case["qual"])
    if fn is None:
        return {"ok": False, "exc": "no-such-constructor"}
    orig = uuid.uuid4
    uuid.uuid4 = lambda: uuid.UUID(int=7)
    try:
        _SHARE["on"], _SHARE["memo"] = bool(case.get("share")), {}
        kwargs = _instantiate(case["kwargs"])
        _SHARE["on"] = False
        try:
            r = fn(**kwargs)
        except Exception as ex:  # noqa
            return {"ok": False, "exc": type(ex).__name__}
        if isinstance(r, B.McpPydanticBase):
            out = observe_instance(r, variants=True)
            out["dump"] = canon(json.loads(json.dumps(r.model_dump(by_alias=True, exclude_none=True), default=str)))
            try:
                again = type(r).model_validate(copy.deepcopy(r.model_dump(by_alias=True, exclude_none=True)))
                out["roundtrip"] = canon(again.model_dump(by_alias=True, exclude_none=True))
                out["roundtrip_tree"] = SI.type_tree(again, B)
            except Exception as ex:  # noqa
                out["roundtrip"] = {"$raised": type(ex).__name__}
        else:
            out = {"ok": True, "type": type(r).__name__, "dump": canon(r)}
        try:
            r2 = fn(**kwargs)
            out["second"] = canon(r2.model_dump(by_alias=True, exclude_none=True)) if isinstance(r2, B.McpPydanticBase) else canon(r2)
        except Exception as ex:  # noqa
            out["reuse_error"] = type(ex).__name__
        return out
    finally:
        uuid.uuid4 = orig


# ------------------------------------------------------------------ helper flows
def _exc(fn):
    try:
        return {"value": canon(fn())}
    except Exception as ex:  # noqa
        return {"raised": type(ex).__name__}


def _roundtrip(cls, emitted):
    """the typed view of an emitted wire object dumps back to it (by_alias, exclude_none)"""
    try:
        o = cls.model_validate(copy.deepcopy(emitted))
        return {"dump": canon(o.model_dump(by_alias=True, exclude_none=True)), "tree": SI.type_tree(o, B)}
    except Exception as ex:  # noqa
        return {"raised": type(ex).__name__}


class _BadStr(Exception):
    def __str__(self):
        raise RuntimeError("str() of this exception raises")


def _exc_class(name):
    import builtins

    if name == "BadStr":
        return _BadStr
    c = getattr(builtins, name or "ValueError", ValueError)
    return c if isinstance(c, type) and issubclass(c, BaseException) else ValueError


def flow_content_kind(case):
    from chuk_mcp.protocol.types import content as C

    cls = INDEX[case["cls"]]
    wire = copy.deepcopy(case["wire"])
    inst = cls.model_validate(copy.deepcopy(wire))
    preds = [C.is_text_content, C.is_image_content, C.is_audio_content, C.is_embedded_resource]
    return {
        "on_dict": [bool(f(wire)) for f in preds],
        "on_instance": [bool(f(inst)) for f in preds],
        "to_dict_instance": canon(C.content_to_dict(inst)),
        "to_dict_dict": canon(C.content_to_dict(wire)),
        "to_dict_other": _exc(lambda: C.content_to_dict(5)),
        "parse": _exc(lambda: C.parse_content(copy.deepcopy(wire)).model_dump(by_alias=True, exclude_none=True)),
        "parse_unknown": _exc(lambda: C.parse_content({**wire, "type": case.get("bad_tag", "nope")})),
        "leaks": leaks(inst, C.content_to_dict(inst)),
    }


def flow_tool_result(case):
    from chuk_mcp.protocol.types import tools as T

    wire = copy.deepcopy(case["wire"])
    inst = T.ToolResult.model_validate(copy.deepcopy(wire))
    return {
        "valid": bool(T.validate_tool_result(inst)),
        "valid_none": bool(T.validate_tool_result(None)),
        "to_dict_dict": canon(T.tool_result_to_dict(wire)),
        "to_dict_other": _exc(lambda: T.tool_result_to_dict(5)),
        "parse": canon(T.parse_tool_result(copy.deepcopy(wire)).model_dump(by_alias=True, exclude_none=True)),
        "emitted": canon(T.tool_result_to_dict(inst)),
        "leaks": leaks(inst, T.tool_result_to_dict(inst)),
    }


def flow_registry(case):
    """ToolRegistry.call_tool with a handler that returns / raises what the case says"""
    from chuk_mcp.protocol.types import tools as T

    ret = case["ret"]
    reg = T.ToolRegistry()

    async def handler(arguments):
        k = ret["kind"]
        if k == "result":
            return T.ToolResult.model_validate(copy.deepcopy(ret["value"]))
        if k == "raise":
            raise _exc_class(ret.get("exc"))(ret["value"])
        return copy.deepcopy(ret["value"])  # dict / str / other

    tool = T.Tool.model_validate({"name": "t", "inputSchema": {"type": "object"}})
    reg.register_tool(tool, handler)
    name = "missing" if ret["kind"] == "unknown" else "t"
    try:
        r1 = asyncio.run(reg.call_tool(name, {"q": 1}))
    except Exception as ex:  # noqa
        return {"propagated": type(ex).__name__}
    r2 = asyncio.run(reg.call_tool(name, {"q": 1}))  # REUSE: the registry and handler a second time
    emitted = T.tool_result_to_dict(r1)
    return {
        "type": type(r1).__name__, "valid": bool(T.validate_tool_result(r1)), "emitted": canon(emitted),
        "second": canon(T.tool_result_to_dict(r2)), "roundtrip": _roundtrip(T.ToolResult, emitted), "leaks": leaks(r1, emitted),
    }


def flow_elicit_client(case):
    from chuk_mcp.protocol.types import elicitation as E
    from chuk_mcp.protocol.messages.json_rpc_message import parse_message

    seen = []

    async def user(message, schema, title):
        seen.append([message, schema, title])
        if case.get("raise") is not None:
            raise _exc_class(case.get("exc", "RuntimeError"))(case["raise"])
        return copy.deepcopy(case["data"])

    client = E.ElicitationClient(user)
    try:
        resp = asyncio.run(client.handle_elicitation_request(copy.deepcopy(case["message"])))
    except Exception as ex:  # noqa
        return {"propagated": type(ex).__name__, "user_saw": canon(seen)}
    out = {"response": canon(resp), "user_saw": canon(seen)}
    out["envelope"] = _exc(lambda: parse_message(copy.deepcopy(resp)).model_dump(by_alias=True, exclude_none=True))
    if isinstance(resp, dict) and "result" in resp:
        out["roundtrip"] = _roundtrip(E.ElicitationResponse, resp["result"])
    return out


def flow_elicit_route(case):
    """ElicitationHandler: one request, answered by the message the case gives"""
    from chuk_mcp.protocol.types import elicitation as E

    params = E.ElicitationParams.model_validate(copy.deepcopy(case["wire"]))
    sent = []

    async def main():
        handler = None

        async def send(msg):
            sent.append(msg)
            reply = copy.deepcopy(case["reply"])
            if reply.get("id") == "$same":
                reply["id"] = msg["id"]
            await handler.handle_elicitation_response(reply)

        handler = E.ElicitationHandler(send)
        try:
            r = await handler.request_user_input(params, timeout=case.get("timeout", 0.05))
            out = {"outcome": "result", "value": canon(r.model_dump(by_alias=True, exclude_none=True))}
        except asyncio.TimeoutError:
            out = {"outcome": "timeout"}
        except Exception as ex:  # noqa
            out = {"outcome": "raised", "exc": type(ex).__name__, "text": str(ex) if type(ex) is Exception else None}
        out["pending_after"] = len(handler._pending_elicitations)
        return out

    out = asyncio.run(main())
    out["request_params"] = canon(sent[0]["params"]) if sent else None
    out["leaks"] = leaks(params, sent[0]["params"]) if sent else []
    return out


def flow_embedded_bytes(case):
    import base64
    from chuk_mcp.protocol.types import content as C

    raw = base64.b64decode(case["b64"])
    r = C.create_embedded_resource(case["uri"], raw, case.get("mime"))
    d = r.model_dump(by_alias=True, exclude_none=True)
    return {"emitted": canon(d), "tree": SI.type_tree(r, B), "roundtrip": _roundtrip(C.EmbeddedResource, d),
            "blob_decodes": base64.b64decode(d["resource"].get("blob", "")) == raw}


def flow_example_tool(case):
    from chuk_mcp.protocol.types import tools as T

    r = asyncio.run(T.example_structured_tool(copy.deepcopy(case["arguments"])))
    emitted = T.tool_result_to_dict(r)
    return {"emitted": canon(emitted), "valid": bool(T.validate_tool_result(r)), "roundtrip": _roundtrip(T.ToolResult, emitted),
            "leaks": leaks(r, emitted)}


def flow_roots_manager(case):
    """RootsManager (two managers alive, same uris): add / re-add / rename / remove / clear, with the
    list and the number of list_changed notifications after every step"""
    import anyio
    from chuk_mcp.protocol.messages.roots import send_messages as R

    async def main():
        sends, recvs, mgrs = [], [], []
        for _ in range(2):
            s_, r_ = anyio.create_memory_object_stream(1000)
            sends.append(s_)
            recvs.append(r_)
            mgrs.append(R.RootsManager(s_))
        trace = []
        for op in case["ops"]:
            m = mgrs[op.get("mgr", 0)]
            k = op["op"]
            res = None
            try:
                if k == "add":
                    m.add_root(R.Root.model_validate(copy.deepcopy(op["root"])))
                elif k == "add-same-object":
                    roots = m.get_roots()
                    if roots:
                        m.add_root(roots[0])
                elif k == "remove":
                    m.remove_root(op["uri"])
                elif k == "clear":
                    m.clear()
                elif k == "list":
                    msg = await m.handle_list_request(op.get("id", 1))
                    res = canon(msg.model_dump(by_alias=True, exclude_none=True))
            except Exception as ex:  # noqa
                res = {"raised": type(ex).__name__}
            for _ in range(3):
                await asyncio.sleep(0)
            counts = [r_.statistics().current_buffer_used for r_ in recvs]
            trace.append({"roots": [[canon(x.model_dump(by_alias=True, exclude_none=True)) for x in mm.get_roots()] for mm in mgrs],
                          "notifications": counts, "result": res})
        return trace

    return {"trace": asyncio.run(main())}


def flow_completion_provider(case):
    from chuk_mcp.protocol.messages.completions import send_messages as C

    prov = C.CompletionProvider()
    n = case["n"]

    async def h(name, value):
        return [f"{value}{i}" for i in range(n)]

    prov.register_resource_handler("file://", h)
    prov.register_prompt_handler("p", h)
    out = []
    for ref in case["refs"]:
        try:
            r = asyncio.run(prov.handle_completion_request(copy.deepcopy(ref), copy.deepcopy(case["argument"])))
            d = r.model_dump(by_alias=True, exclude_none=True)
            out.append({"emitted": canon(d), "roundtrip": _roundtrip(C.CompletionResult, d)})
        except Exception as ex:  # noqa
            out.append({"raised": type(ex).__name__})
    return {"results": out}


def flow_registry_reentrant(case):
    """a tool handler that calls back into the same registry (awaited directly), then returns / raises"""
    from chuk_mcp.protocol.types import tools as T

    reg = T.ToolRegistry()

    async def inner(arguments):
        if case.get("inner") == "raise":
            raise KeyError("inner")
        return copy.deepcopy(case.get("inner_value", {"v": 1}))

    async def outer(arguments):
        r = await reg.call_tool("inner", arguments)
        if case.get("outer") == "raise":
            raise RuntimeError("outer after inner")
        if case.get("outer") == "pass":
            return r
        return {"inner": T.tool_result_to_dict(r)}

    tool = T.Tool.model_validate({"name": "t", "inputSchema": {"type": "object"}})
    reg.register_tool(tool, outer)
    reg.register_tool(T.Tool.model_validate({"name": "inner", "inputSchema": {"type": "object"}}), inner)
    r1 = asyncio.run(reg.call_tool("t", {}))
    r2 = asyncio.run(reg.call_tool("inner", {}))
    e1, e2 = T.tool_result_to_dict(r1), T.tool_result_to_dict(r2)
    return {"emitted": canon(e1), "second": canon(e2), "roundtrip": _roundtrip(T.ToolResult, e1), "leaks": leaks(r1, e1)}


def flow_file_root(case):
    """create_file_root / parse_file_root (roots/send_messages.py): path -> Root -> path"""
    import os as _os
    from chuk_mcp.protocol.messages.roots import send_messages as R

    out = {}
    prev = _os.name
    try:
        if case.get("os_name"):
            _os.name = case["os_name"]  # the functions branch on os.name only
        if "path" in case:
            r = R.create_file_root(case["path"], case.get("name"))
            out["root"] = canon(r.model_dump(by_alias=True, exclude_none=True))
            out["abspath"] = _os.path.abspath(case["path"])
            out["back"] = _exc(lambda: R.parse_file_root(r))
        if "uri" in case:
            def parse():
                return R.parse_file_root(R.Root.model_validate({"uri": case["uri"]}))
            out["parsed"] = _exc(parse)
    finally:
        _os.name = prev
    return out


def flow_complete_path(case):
    """complete_file_path / complete_enum_value (completions/send_messages.py) in a scratch directory"""
    import os as _os
    import shutil
    import tempfile
    from chuk_mcp.protocol.messages.completions import send_messages as C

    d = tempfile.mkdtemp(prefix="verif-complete-")
    cwd = _os.getcwd()
    try:
        for rel in case["files"]:
            pth = _os.path.join(d, rel)
            if rel.endswith("/"):
                _os.makedirs(pth, exist_ok=True)
            else:
                _os.makedirs(_os.path.dirname(pth), exist_ok=True)
                open(pth, "w").close()
        res = []
        for q in case["queries"]:
            cur = q["current"].replace("$D", d)
            base = q.get("base")
            base = base.replace("$D", d) if isinstance(base, str) else base
            if q.get("chdir"):
                _os.chdir(d)
            try:
                got = asyncio.run(C.complete_file_path(cur, base, q.get("extensions"), q.get("max_results", 50)))
            finally:
                _os.chdir(cwd)
            res.append(sorted(x.replace(d, "$D") for x in got))
        enums = [asyncio.run(C.complete_enum_value(e["current"], e["allowed"], e.get("case_sensitive", False))) for e in case.get("enums", [])]
        return {"results": res, "enums": enums}
    finally:
        shutil.rmtree(d, ignore_errors=True)


def flow_elicit_example(case):
    """the example user-input function of types/elicitation.py behind an ElicitationClient"""
    import contextlib
    import io
    from chuk_mcp.protocol.types import elicitation as E

    buf = io.StringIO()
    with contextlib.redirect_stdout(buf):
        data = asyncio.run(E.example_user_input_function(case["message"], copy.deepcopy(case["schema"]), case.get("title")))
        client = E.ElicitationClient(E.example_user_input_function)
        resp = asyncio.run(client.handle_elicitation_request(
            {"jsonrpc": "2.0", "id": 1, "method": "elicitation/create",
             "params": {"message": case["message"], "schema": copy.deepcopy(case["schema"]), "title": case.get("title")}}))
        wf = asyncio.run(E.example_elicitation_workflow())
    return {"data": canon(data), "response": canon(resp), "workflow": wf, "printed_title": ("Title:" in buf.getvalue()),
            "roundtrip": _roundtrip(E.ElicitationResponse, resp.get("result", {})) if "result" in resp else None}


def flow_alias_strategies(case):
    """`_resolve_type_alias` on annotations that are NOT classes but carry a `__name__` (typing.NewType):
    the name is looked up in the model's module, the annotation's module, any module.  Host models."""
    import types
    import typing

    def module(name, **attrs):
        m = types.ModuleType(name)
        for k, v in attrs.items():
            setattr(m, k, v)
        sys.modules[name] = m
        return m

    res = {}
    for where in ("class-module", "annotation-module", "any-module", "nowhere"):
        nm = "VerifAlias_" + where.replace("-", "_")
        alias = typing.Union[int, str]
        nt = typing.NewType(nm, str)
        mod_models = module("verif_alias_models_" + where.replace("-", "_"))
        if where == "class-module":
            setattr(mod_models, nm, alias)
        elif where == "annotation-module":
            other = module("verif_alias_defs_" + where.replace("-", "_"), **{nm: alias})
            nt.__module__ = other.__name__
        elif where == "any-module":
            module("verif_alias_third_" + where.replace("-", "_"), **{nm: alias})
            nt.__module__ = "verif_no_such_module"
        ns = {"__annotations__": {"v": nt, "w": typing.Optional[nt]}, "__module__": mod_models.__name__, "w": None}
        cls = type("VerifAliasProbe", (B.McpPydanticBase,), ns)
        setattr(mod_models, "VerifAliasProbe", cls)
        row = []
        for val in case["values"]:
            row.append(_exc(lambda: cls.model_validate({"v": val, "w": val}).model_dump(exclude_none=True)))
        res[where] = row
    return {"by_place": res}


FLOWS = {
    "content-kind": flow_content_kind, "tool-result": flow_tool_result, "registry": flow_registry,
    "elicit-client": flow_elicit_client, "elicit-route": flow_elicit_route, "embedded-bytes": flow_embedded_bytes,
    "example-tool": flow_example_tool,
    "roots-manager": flow_roots_manager,
    "completion-provider": flow_completion_provider,
    "registry-reentrant": flow_registry_reentrant,
    "file-root": flow_file_root,
    "complete-path": flow_complete_path,
    "elicit-example": flow_elicit_example,
    "alias-strategies": flow_alias_strategies,
}


def op_flow(case):
    fn = FLOWS.get(case["flow"])
    if fn is None:
        return {"ok": False, "exc": "no-such-flow"}
    try:
        return {"ok": True, **fn(case)}
    except Exception as ex:  # noqa
        return {"ok": False, "exc": type(ex).__name__, "msg": str(ex)[:200]}


def _typing_of(t):
    import typing

    k = t["k"]
    if k in ("str", "int", "float", "bool"):
        return {"str": str, "int": int, "float": float, "bool": bool}[k]
    if k == "any":
        return typing.Any
    if k == "lit":
        return typing.Literal[tuple(t["vals"])]
    if k == "opt":
        return typing.Optional[_typing_of(t["t"])]
    if k == "list":
        return typing.List[_typing_of(t["t"])]
    if k == "dict":
        return typing.Dict[str, _typing_of(t["t"])]
    if k == "union":
        return typing.Union[tuple(_typing_of(m) for m in t["ts"])]
    if k == "ref":
        return INDEX[t["cls"]]
    raise ValueError(k)


def _plain(v):
    """validated value -> JSON (model instances by their dump), and the type tree"""
    if isinstance(v, B.McpPydanticBase):
        return v.model_dump(by_alias=True, exclude_none=True)
    if isinstance(v, (list, tuple)):
        return [_plain(x) for x in v]
    if isinstance(v, dict):
        return {k: _plain(x) for k, x in v.items()}
    return v


def op_deep(case):
    """the fallback's `_deep_validate` on ANY value (conforming or not) against a type expression"""
    if B.PYDANTIC_AVAILABLE:
        return {"ok": None}
    if case.get("field"):
        import typing
        T = typing.get_type_hints(INDEX[case["field"][0]], include_extras=True)[case["field"][1]]
    else:
        T = _typing_of(case["ty"])
    try:
        r = B._deep_validate("x", copy.deepcopy(case["value"]), T)
    except B.ValidationError:
        return {"ok": False}
    except Exception as ex:  # noqa
        return {"ok": False, "other": type(ex).__name__}
    return {"ok": True, "dump": canon(_plain(r)), "tree": SI.type_tree(r, B), "pytype": type(r).__name__}


def op_setup(case):
    """what a HOST application may legitimately do in the same process before using the library"""
    import types
    import typing

    k = case["kind"]
    if k == "host-aliases":
        # a host module with typing aliases that happen to be named like model classes
        m = types.ModuleType("verif_host_types")
        for i, n in enumerate(case["names"]):
            setattr(m, n, [typing.Union[int, str], typing.List[int], typing.Dict[str, int], typing.Optional[bool]][i % 4])
        sys.modules["verif_host_types"] = m
        return {"ok": True}
    if k == "probe-classes":
        # host models named like the library's, with the same attribute names, other types, other aliases
        m = types.ModuleType("verif_host_models")
        sys.modules["verif_host_models"] = m
        made = 0
        for c in case["classes"]:
            ns = {"__annotations__": {}, "__module__": "verif_host_models"}
            for j, a in enumerate(c["fields"]):
                if not a.isidentifier() or a.startswith("_"):
                    continue
                ns["__annotations__"][a] = int
                ns[a] = B.Field(default=j, alias=("h_" + a) if j % 2 else None)
            cls = type(c["name"], (B.McpPydanticBase,), ns)
            setattr(m, c["name"], cls)
            o = cls.model_validate({("h_" + a if j % 2 else a): j + 1 for j, a in enumerate(ns["__annotations__"])})
            o.model_dump(by_alias=True, exclude_none=True)
            made += 1
        return {"ok": True, "made": made}
    if k == "env":
        for kk, v in case["set"].items():
            os.environ[kk] = v
        return {"ok": True}
    return {"ok": False, "exc": "no-such-setup"}


def _dump_mode(o, mode):
    from chuk_mcp.protocol.types import tools as T

    if mode == "plain":
        return o.model_dump()
    if mode == "exclude_none":
        return o.model_dump(exclude_none=True)
    if mode == "names_json":
        return json.loads(o.model_dump_json(exclude_none=True))
    if mode == "wire":
        return o.model_dump(by_alias=True, exclude_none=True)
    if mode == "wire_all":
        return o.model_dump(by_alias=True)
    if mode == "wire_json":
        return json.loads(o.model_dump_json(by_alias=True, exclude_none=True))
    if mode == "mcp":
        return o.model_dump_mcp(by_alias=True, exclude_none=True)
    if mode == "site":
        # the library's own serialisation site for this class, where there is one
        if isinstance(o, T.ToolResult):
            return T.tool_result_to_dict(o)
        if type(o).__name__ == "ElicitationParams":
            return helper_elicitation({"wire": o.model_dump(by_alias=True, exclude_none=True)})[1]
        return o.model_dump(by_alias=True, exclude_none=True)
    raise ValueError(mode)


def op_history(case):
    """one instance, dumped in several modes in the ORDER the case gives (the first dump of a class in a
    process may leave something behind for the later ones)"""
    cls = INDEX.get(case["cls"])
    try:
        o = cls.model_validate(copy.deepcopy(case["wire"]))
    except Exception as ex:  # noqa
        return {"ok": False, "exc": type(ex).__name__}
    return {"ok": True, "dumps": [[m, _try(lambda m=m: _dump_mode(o, m))] for m in case["modes"]]}


def op_step(case):
    """heterogeneous sequences: each step names its own operation"""
    if LAZY and "where" in case:
        INDEX.where[case["cls"]] = tuple(case["where"])
    return OPS[case["op"]](case)


def op_info(_case):
    return {"backend": BACKEND, "classes": len(INDEX)}


OPS = {"validate": op_validate, "parse": op_parse, "helper": op_helper, "construct": op_construct, "flow": op_flow, "deep": op_deep, "setup": op_setup, "step": op_step, "history": op_history, "info": op_info}


def _debug_logging():
    import logging

    root = logging.getLogger()
    prev_disable, prev_level, prev_handlers = root.manager.disable, root.level, list(root.handlers)
    class _Formatting(logging.Handler):
        """formats every record (as a real handler does) and drops the text: %-argument mismatches and
        failing __repr__/__str__ of logged arguments surface exactly as they would in a host application"""

        def emit(self, record):
            self.format(record)

    h = _Formatting()
    h.setFormatter(logging.Formatter("%(asctime)s %(name)s %(levelname)s %(message)s"))
    root.handlers[:] = [h]
    root.setLevel(logging.DEBUG)
    logging.disable(logging.NOTSET)

    def restore():
        logging.disable(prev_disable)
        root.setLevel(prev_level)
        root.handlers[:] = prev_handlers
    return restore


def main():
    out = sys.stdout
    for line in sys.stdin:
        line = line.strip()
        if not line:
            continue
        req = json.loads(line)
        fn = OPS[req["op"]]
        res = []
        every = req.get("debug_every", 0)
        for i, c in enumerate(req["cases"]):
            # a share of the cases runs as under a host that configured logging at DEBUG (NullHandler):
            # every logging.debug(...) / isEnabledFor(DEBUG) branch of the library is live there
            restore = _debug_logging() if every and i % every == 0 else None
            try:
                res.append(fn(c))
            except Exception as ex:  # noqa  (harness error, reported as such)
                res.append({"ok": False, "exc": "worker:" + type(ex).__name__, "msg": str(ex)[:200]})
            finally:
                if restore:
                    restore()
        out.write(json.dumps(res, ensure_ascii=True, allow_nan=True) + "\n")
        out.flush()


if __name__ == "__main__":
    import logging

    logging.disable(logging.CRITICAL)
    main()
