"""Worker process for the JSON backend checks (C17, C02 thorough tier).

Started as `python -m verifpy.json_worker` with
  VERIF_BLOCK_ORJSON=1   -> `sys.modules['orjson'] = None` before chuk_mcp is first imported
  MCP_FORCE_FALLBACK=1   -> the library's own switch for the non-Pydantic backend
Line protocol on stdin/stdout: one JSON request per line, one JSON answer per line.

  {"op":"info"}                       -> {"has_orjson":bool, "orjson_importable":bool}
  {"op":"dumps","values":[T…]}        -> {"out":[{"text":str}|{"exc":str} …], "tokens":{hex: token}}
  {"op":"loads","texts":[str…]}       -> {"out":[{"v":T}|{"exc":str} …]}

T = transport form of a JSON value (see json_h.py): the worker rebuilds the exact Python value
(ints of any size, floats from their hex form, str from code points) and hands it to the real
`chuk_mcp.protocol.fast_json`.
"""
from __future__ import annotations

import json
import os
import sys


DUMPS_KW = {
    "plain": {}, "indent2": {"indent": 2}, "indent0": {"indent": 0}, "indent4": {"indent": 4}, "indentNone": {"indent": None},
    "compact-seps": {"separators": (",", ":")}, "utf8": {"ensure_ascii": False}, "sort_keys": {"sort_keys": True},
    "default-str": {"default": str}, "pydantic-base": {"indent": None, "separators": (",", ":"), "default": str},
}


def dumps_variant(fast_json, v, how):
    """the encoder entry points: dumps with the keyword arguments callers pass, dump() to a text stream"""
    import io

    try:
        if how == "file":
            fp = io.StringIO()
            fast_json.dump(v, fp)
            return {"text": fp.getvalue()}
        if how.startswith("file@"):
            enc = how.split("@", 1)[1]
            raw = io.BytesIO()
            fp = io.TextIOWrapper(raw, encoding=enc, newline="")
            fast_json.dump(v, fp)
            fp.flush()
            return {"hex": raw.getvalue().hex(), "enc": enc}
        if how == "file-indent2":
            fp = io.StringIO()
            fast_json.dump(v, fp, indent=2)
            return {"text": fp.getvalue()}
        return {"text": fast_json.dumps(v, **DUMPS_KW[how])}
    except Exception as ex:  # noqa: BLE001
        return {"exc": type(ex).__name__}


def loads_variant(fast_json, json_h, text, how):
    """the decoder entry points: loads of str / bytes / bytearray, load() from a text / binary stream"""
    import io

    try:
        if how.startswith("file@"):  # `text` is the hex of a file written by dump() in that encoding
            enc = how.split("@", 1)[1]
            r = fast_json.load(io.TextIOWrapper(io.BytesIO(bytes.fromhex(text)), encoding=enc, newline=""))
            return {"v": json_h.of_py(r)}
        if how == "str":
            r = fast_json.loads(text)
        elif how == "bytes":
            r = fast_json.loads(text.encode("utf-8"))
        elif how == "bytearray":
            r = fast_json.loads(bytearray(text.encode("utf-8")))
        elif how == "file-text":
            r = fast_json.load(io.StringIO(text))
        elif how == "file-bytes":
            r = fast_json.load(io.BytesIO(text.encode("utf-8")))
        elif how == "file-noseek":
            class ReadOnly:  # a stream that can only be read once (a pipe, a socket file)
                def __init__(self, s):
                    self._s = s

                def read(self):
                    s, self._s = self._s, ""
                    return s

            r = fast_json.load(ReadOnly(text))
        else:
            raise ValueError(how)
        return {"v": json_h.of_py(r)}
    except Exception as ex:  # noqa: BLE001
        return {"exc": type(ex).__name__}


class FormattingHandler(__import__("logging").Handler):
    """what a host's handler does: format every record (a NullHandler never does, which hides %-style argument
    mismatches and failing __str__/__repr__ of arguments)"""

    def emit(self, record):
        self.format(record)

    def handleError(self, record):  # a formatting failure is the library's bug: make it visible to the harness
        import sys
        FormattingHandler.errors.append(repr(sys.exc_info()[1])[:200])


FormattingHandler.errors = []


class debug_logging:
    """as a host application with logging configured at DEBUG: every logger.debug(...) branch is live; records go to
    a NullHandler"""

    def __enter__(self):
        import logging

        root = logging.getLogger()
        self.prev = (root.manager.disable, root.level, list(root.handlers))
        root.handlers[:] = [FormattingHandler()]
        root.setLevel(logging.DEBUG)
        logging.disable(logging.NOTSET)

    def __exit__(self, *exc):
        import logging

        root = logging.getLogger()
        logging.disable(self.prev[0])
        root.setLevel(self.prev[1])
        root.handlers[:] = self.prev[2]
        return False


def maybe_debug(i, every):
    import contextlib

    return debug_logging() if every and i % every == 0 else contextlib.nullcontext()


def mutate_deep(x, depth=0):
    """edit every container reachable from x in place (what a consumer of a decoded message may do)"""
    if isinstance(x, dict):
        for k in list(x):
            mutate_deep(x[k], depth + 1)
        if x:
            x.pop(next(iter(x)))
        x["_meta"] = {"edited": depth}
    elif isinstance(x, list):
        for y in x:
            mutate_deep(y, depth + 1)
        x.append({"edited": depth})
        if len(x) > 1:
            x.pop(0)


def repair_check(fast_json, v, deep=False):
    """an encode that fails half-way (a set leaf, a real cycle), the SAME objects repaired in place, encoded again: must
    succeed and give the text a fresh equal value gives - through every dumps form; `deep`: below a chain longer than
    orjson's encoder accepts, so that the orjson configuration takes its stdlib fall-back"""
    import copy

    out = {}

    def wrap(x):
        if deep:
            for i in range(300):
                x = [x] if i % 2 else {"k": x}
        return x

    for name, kw in (("plain", {}), ("indent", {"indent": 2}), ("seps", {"separators": (",", ":")}), ("sort", {"sort_keys": True})):
        try:
            inner = {"keep": copy.deepcopy(v), "bad": {1, 2}, "list": [1, [2, {"leaf": object()}]]}
            w = wrap({"outer": [inner, "x"]})
            for _ in range(2):  # the same failure twice
                try:
                    fast_json.dumps(w, **kw)
                    out[name] = "encoded a set"
                except Exception:  # noqa: BLE001
                    pass
            inner["bad"] = [1, 2]
            inner["list"][1][1]["leaf"] = None
            good = wrap({"outer": [{"keep": copy.deepcopy(v), "bad": [1, 2], "list": [1, [2, {"leaf": None}]]}, "x"]})
            out.setdefault(name, fast_json.dumps(w, **kw) == fast_json.dumps(good, **kw))
            cyc = {"a": [1]}
            cyc["a"].append(cyc)
            try:
                fast_json.dumps(wrap(cyc), **kw)
            except Exception:  # noqa: BLE001
                pass
            cyc["a"][1] = {"fixed": True}
            if fast_json.loads(fast_json.dumps(wrap(cyc), **kw)) != wrap({"a": [1, {"fixed": True}]}):
                out[name] = False
        except Exception as ex:  # noqa: BLE001
            out[name] = "raises " + type(ex).__name__
    return out


def reuse_check(fast_json, v, index=0):
    """the same object encoded again after the caller changed it, the same text decoded twice with the
    first result changed in between: each call must stand on its own"""
    import copy

    out = {}
    try:
        if isinstance(v, (list, dict)):
            t1 = fast_json.dumps(v)
            w = copy.deepcopy(v)
            if isinstance(v, list):
                v.append("sentinel")
                w.append("sentinel")
            else:
                v["sentinel"] = [None]
                w["sentinel"] = [None]
            # `w` is an independent, equal object: a stale (memoised) encoding of `v` would differ from its text
            out["dumps_sees_mutation"] = fast_json.dumps(v) == fast_json.dumps(w) != t1
            a = fast_json.loads(t1)
            b0 = copy.deepcopy(a)
            if isinstance(a, list):
                a.append("sentinel")
            else:
                a["sentinel"] = 1
            b = fast_json.loads(t1)
            out["loads_independent"] = (b == b0) and (b is not a)
            # ... and with every NESTED container of the first results edited, for str and bytes input alike
            for inp in (t1, t1.encode("utf-8"), t1):
                first = fast_json.loads(inp)
                mutate_deep(first)
                second = fast_json.loads(inp)
                if second != b0:
                    out["loads_independent"] = False
                mutate_deep(second)
            if fast_json.loads(t1) != b0:
                out["loads_independent"] = False
            # the object handed to dumps is edited deep inside between two encodes
            w2 = copy.deepcopy(v)
            mutate_deep(v)
            mutate_deep(w2)
            if fast_json.dumps(v) != fast_json.dumps(w2):
                out["dumps_sees_mutation"] = False
        t = fast_json.dumps(v)
        out["dumps_repeatable"] = fast_json.dumps(v) == t
        if index % 8 == 0 and len(t) < 20000:
            out["repair"] = repair_check(fast_json, v, deep=(index % 40 == 0))
        # a pretty print, failing encodes and failing decodes (the same failure 1..4 times) in between
        fast_json.dumps(v, indent=2)
        for k in range(1, 5):
            for _ in range(k):
                try:
                    fast_json.dumps({"x": {1, 2}})
                except Exception:  # noqa: BLE001
                    pass
                try:
                    fast_json.loads('{"a": [1, 2')
                except Exception:  # noqa: BLE001
                    pass
            if fast_json.dumps(v) != t or fast_json.loads(t) != fast_json.loads(t):
                out["dumps_repeatable"] = False
    except Exception as ex:  # noqa: BLE001
        out["exc"] = type(ex).__name__
    return out


def bigtwins(fast_json, spec):
    """one very large value (far above every buffer) in the two spellings the two encoders give it - the orjson one
    (raw UTF-8, compact) and the stdlib one (\\uXXXX escapes, 6 or 12 characters per non-ASCII character) - decoded as str
    and as bytes.  The texts are built here with the stdlib encoder in both styles (for these values they are exactly what
    the two backends write, as the main correspondence establishes on smaller sizes), so nothing huge crosses a pipe."""
    import json as stdjson

    unit, count, wrap = "".join(map(chr, spec["unit"])), spec["count"], spec.get("wrap", True)
    big = unit * count
    v = {"k": [big, None]} if wrap else big
    out = {"chars": len(big)}
    texts = {"raw": stdjson.dumps(v, ensure_ascii=False, separators=(",", ":")), "escaped": stdjson.dumps(v)}
    out["text_chars"] = {k: len(t) for k, t in texts.items()}
    try:
        own = fast_json.dumps(v)
        out["own_is"] = "raw" if own == texts["raw"] else ("escaped" if own == texts["escaped"] else "other")
        out["own_roundtrip"] = fast_json.loads(own) == v
    except Exception as ex:  # noqa: BLE001
        out["own_exc"] = type(ex).__name__
    for spelling, t in texts.items():
        for form, inp in (("str", t), ("bytes", t.encode("utf-8"))):
            try:
                out[f"{spelling}/{form}"] = (fast_json.loads(inp) == v)
            except Exception as ex:  # noqa: BLE001
                out[f"{spelling}/{form}"] = "raises " + type(ex).__name__
    return out


def churn(fast_json):
    """a long session: 1500 distinct short documents (more than any cache holds), each decoded, edited and decoded
    again later, then the first ones once more; and the 1000th encode of one object"""
    import json as stdjson

    bad = []
    docs = [stdjson.dumps({"jsonrpc": "2.0", "id": i, "result": {"content": [{"n": i}], "_meta": {"k": [i]}}}) for i in range(1500)]
    for rnd in range(2):
        for i, t in enumerate(docs):
            a = fast_json.loads(t if i % 2 else t.encode("utf-8"))
            if a != stdjson.loads(t):
                bad.append(["loads", rnd, i])
            mutate_deep(a)
    for i in (0, 1, 2, 1499):
        if fast_json.loads(docs[i]) != stdjson.loads(docs[i]):
            bad.append(["loads-again", i])
    obj = {"a": [1, {"b": None}], "c": "x"}
    t0 = fast_json.dumps(obj)
    for i in range(1000):
        if fast_json.dumps(obj) != t0:
            bad.append(["dumps", i])
            break
    return {"bad": bad[:5], "log_format_errors": FormattingHandler.errors[:3]}


def measure_limits(fast_json):
    """deepest nesting for which dumps AND loads of this configuration work, per container kind
    (beyond it both real decoders / encoders run into the interpreter's recursion limit), and what the
    decoder does with a duplicate key"""

    def value(kind, d):
        v = 1
        for i in range(d):
            v = [v] if kind == "arr" or (kind == "alt" and i % 2) else {"k": v}
        return v

    def text(kind, d):
        s = "1"
        for i in range(d):
            s = "[" + s + "]" if kind == "arr" or (kind == "alt" and i % 2) else '{"k":' + s + "}"
        return s

    import json as stdjson

    def ok(kind, d, codec):
        try:
            codec.loads(codec.dumps(value(kind, d)))
            codec.loads(text(kind, d))
            return True
        except BaseException as ex:  # noqa: BLE001
            if isinstance(ex, (KeyboardInterrupt, SystemExit)):
                raise
            return False

    def deepest(kind, codec):
        lo, hi = 0, 6000
        if ok(kind, hi, codec):
            return hi
        while hi - lo > 1:
            m = (lo + hi) // 2
            if ok(kind, m, codec):
                lo = m
            else:
                hi = m
        return lo

    # `interpreter`: what the stdlib json module (not the library under test) manages in this process:
    # the deepest nesting any Python JSON codec can be asked to handle here.  `library`: fast_json itself.
    out = {"interpreter": {k: deepest(k, stdjson) for k in ("arr", "obj", "alt")},
           "library": {k: deepest(k, fast_json) for k in ("arr", "obj", "alt")}}
    try:
        dup = fast_json.loads('{"a":1,"b":2,"a":3}')
        out["duplicate_key"] = "last wins" if dup == {"a": 3, "b": 2} else repr(dup)
    except Exception as ex:  # noqa: BLE001
        out["duplicate_key"] = "raises " + type(ex).__name__
    return out


def main():
    if os.environ.get("VERIF_BLOCK_ORJSON") == "1":
        sys.modules["orjson"] = None  # `import orjson` now raises ImportError
    import logging

    logging.disable(logging.CRITICAL)
    from verifpy import core, json_h

    core.use_repo_source()
    from chuk_mcp.protocol import fast_json

    out = sys.stdout
    for line in sys.stdin:
        line = line.strip()
        if not line:
            continue
        req = json.loads(line)
        op = req.get("op")
        if op == "info":
            try:
                import orjson  # noqa: F401

                imp = True
            except ImportError:
                imp = False
            ans = {"has_orjson": bool(fast_json.HAS_ORJSON), "orjson_importable": imp}
        elif op == "dumps2":
            ans = {"out": []}
            for i, it in enumerate(req["items"]):
                with maybe_debug(i, req.get("debug_every")):
                    ans["out"].append(dumps_variant(fast_json, json_h.to_py(it["v"]), it.get("how", "plain")))
        elif op == "loads2":
            ans = {"out": []}
            for i, it in enumerate(req["items"]):
                with maybe_debug(i, req.get("debug_every")):
                    ans["out"].append(loads_variant(fast_json, json_h, it["t"], it.get("how", "str")))
        elif op == "reuse":
            ans = {"out": [reuse_check(fast_json, json_h.to_py(t), i) for i, t in enumerate(req["values"])]}
        elif op == "bigtwins":
            ans = {"out": [bigtwins(fast_json, sp) for sp in req["specs"]]}
        elif op == "churn":
            ans = churn(fast_json)
        elif op == "limits":
            ans = measure_limits(fast_json)
        elif op == "dumps":
            res, tokens = [], {}
            for i, t in enumerate(req["values"]):
                v = json_h.to_py(t)
                try:
                    with maybe_debug(i, req.get("debug_every")):
                        res.append({"text": fast_json.dumps(v)})
                except Exception as ex:  # noqa: BLE001
                    res.append({"exc": type(ex).__name__})
                for x in json_h.floats_of(v):
                    h = x.hex()
                    if h not in tokens:
                        try:
                            tokens[h] = fast_json.dumps(x)
                        except Exception as ex:  # noqa: BLE001
                            tokens[h] = None
            ans = {"out": res, "tokens": tokens}
        elif op == "loads":
            res = []
            for i, s in enumerate(req["texts"]):
                try:
                    with maybe_debug(i, req.get("debug_every")):
                        res.append({"v": json_h.of_py(fast_json.loads(s))})
                except Exception as ex:  # noqa: BLE001
                    res.append({"exc": type(ex).__name__})
            ans = {"out": res}
        else:
            ans = {"error": f"unknown op {op}"}
        out.write(json.dumps(ans, ensure_ascii=True) + "\n")
        out.flush()


if __name__ == "__main__":
    main()
