"""Worker process for the JSON backend checks (C17, C02 thorough tier).

Started as `python -m verifpy.json_worker` with
  VERIF_BLOCK_ORJSON=1   -> `sys.modules['orjson'] = None` before chuk_mcp is first imported
  MCP_FORCE_FALLBACK=1   -> the library's own switch for the non-Pydantic backend
Line protocol on stdin/stdout: one JSON request per line, one JSON answer per line.

  {"op":"info"}                       -> {"has_orjson":bool, "orjson_importable":bool}
  {"op":"dumps","values":[T…]}        -> {"out":[{"text":str}|{"exc":str} …], "tokens":{hex: token}}
  {"op":"loads","texts":[str…]}       -> {"out":[{"v":T}|{"exc":str} …]}

T = transport form of a JSON value (see json_h.py): the worker rebuilds the exact Python value
(ints of any size, floats from their hex form, str from code points) and hands it to the real
`chuk_mcp.protocol.fast_json`.
"""
from __future__ import annotations

import json
import os
import sys


def measure_limits(fast_json):
    """deepest nesting for which dumps AND loads of this configuration work, per container kind
    (beyond it both real decoders / encoders run into the interpreter's recursion limit), and what the
    decoder does with a duplicate key"""

    def value(kind, d):
        v = 1
        for i in range(d):
            v = [v] if kind == "arr" or (kind == "alt" and i % 2) else {"k": v}
        return v

    def text(kind, d):
        s = "1"
        for i in range(d):
            s = "[" + s + "]" if kind == "arr" or (kind == "alt" and i % 2) else '{"k":' + s + "}"
        return s

    import json as stdjson

    def ok(kind, d, codec):
        try:
            codec.loads(codec.dumps(value(kind, d)))
            codec.loads(text(kind, d))
            return True
        except BaseException as ex:  # noqa: BLE001
            if isinstance(ex, (KeyboardInterrupt, SystemExit)):
                raise
            return False

    def deepest(kind, codec):
        lo, hi = 0, 6000
        if ok(kind, hi, codec):
            return hi
        while hi - lo > 1:
            m = (lo + hi) // 2
            if ok(kind, m, codec):
                lo = m
            else:
                hi = m
        return lo

    # `interpreter`: what the stdlib json module (not the library under test) manages in this process:
    # the deepest nesting any Python JSON codec can be asked to handle here.  `library`: fast_json itself.
    out = {"interpreter": {k: deepest(k, stdjson) for k in ("arr", "obj", "alt")},
           "library": {k: deepest(k, fast_json) for k in ("arr", "obj", "alt")}}
    try:
        dup = fast_json.loads('{"a":1,"b":2,"a":3}')
        out["duplicate_key"] = "last wins" if dup == {"a": 3, "b": 2} else repr(dup)
    except Exception as ex:  # noqa: BLE001
        out["duplicate_key"] = "raises " + type(ex).__name__
    return out


def main():
    if os.environ.get("VERIF_BLOCK_ORJSON") == "1":
        sys.modules["orjson"] = None  # `import orjson` now raises ImportError
    import logging

    logging.disable(logging.CRITICAL)
    from verifpy import core, json_h

    core.use_repo_source()
    from chuk_mcp.protocol import fast_json

    out = sys.stdout
    for line in sys.stdin:
        line = line.strip()
        if not line:
            continue
        req = json.loads(line)
        op = req.get("op")
        if op == "info":
            try:
                import orjson  # noqa: F401

                imp = True
            except ImportError:
                imp = False
            ans = {"has_orjson": bool(fast_json.HAS_ORJSON), "orjson_importable": imp}
        elif op == "limits":
            ans = measure_limits(fast_json)
        elif op == "dumps":
            res, tokens = [], {}
            for t in req["values"]:
                v = json_h.to_py(t)
                try:
                    res.append({"text": fast_json.dumps(v)})
                except Exception as ex:  # noqa: BLE001
                    res.append({"exc": type(ex).__name__})
                for x in json_h.floats_of(v):
                    h = x.hex()
                    if h not in tokens:
                        try:
                            tokens[h] = fast_json.dumps(x)
                        except Exception as ex:  # noqa: BLE001
                            tokens[h] = None
            ans = {"out": res, "tokens": tokens}
        elif op == "loads":
            res = []
            for s in req["texts"]:
                try:
                    res.append({"v": json_h.of_py(fast_json.loads(s))})
                except Exception as ex:  # noqa: BLE001
                    res.append({"exc": type(ex).__name__})
            ans = {"out": res}
        else:
            ans = {"error": f"unknown op {op}"}
        out.write(json.dumps(ans, ensure_ascii=True) + "\n")
        out.flush()


if __name__ == "__main__":
    main()
