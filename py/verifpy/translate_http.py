"""Translator for the field validators of `StreamableHTTPParameters`
(`transports/http/parameters.py`) -> `lean/Verif/Gen/HttpParams.lean`, regenerated on every run.

Translated: every `@field_validator("<field>")` method of the class whose body (after the
docstring) is a sequence of `if <cond>: raise ...` statements, `assert <cond>` statements, or calls
`helper(<cond>, ...)` of a module-level helper of the shape `def helper(c, ...): if c: raise ...`,
followed by
`return v` or `return v.rstrip("<one char>")`.  Conditions of the supported subset:

  not v                                   (str field: empty; numeric field: zero)
  v.startswith("lit") / v.startswith(("a", "b", ...))
  v <op> <int literal>   with <op> in  <  <=  >  >=  ==  !=   (for a float field only against 0,
                                          so that the scaled-integer reading is exact); also literal <op> v
  v == "" / v != "" / len(v) == 0 / len(v) > 0
  literals may be module-level constants
  not <cond>,  <cond> and <cond>,  <cond> or <cond>

Anything else is NOT guessed: the field gets a placeholder, `translatable := false`, and the
fragment is listed in report["untranslatable"] (the property theorem `c11_params_translated`
then fails to build).

Generated, per validated field `f` (camel-cased):  `fAccept : <T> -> Bool` (true = the
validator returns, false = it raises) and, for string fields, `fNormalize`.  String fields are
`List Char`, numeric fields `Int` (a float value x is passed as the integer x*1024; only
comparisons with 0 are accepted for float fields, which are scale-invariant).
"""
from __future__ import annotations

import ast

from . import translate

FIELDS = ["url", "timeout", "max_retries", "retry_delay", "max_concurrent_requests"]


class No(Exception):
    pass


def camel(name):
    parts = name.split("_")
    return parts[0] + "".join(p.capitalize() for p in parts[1:])


def lean_str(s):
    return '"' + s.replace("\\", "\\\\").replace('"', '\\"').replace("\n", "\\n").replace("\r", "\\r").replace("\t", "\\t") + '".toList'


CTX = {"consts": {}, "rejecters": set()}


def _resolve(e):
    """a literal, or a module-level name bound to a literal (constants pulled out by a refactor)"""
    if isinstance(e, ast.Name) and e.id in CTX["consts"]:
        return CTX["consts"][e.id]
    return e


FLIP = {ast.Lt: ast.Gt, ast.LtE: ast.GtE, ast.Gt: ast.Lt, ast.GtE: ast.LtE, ast.Eq: ast.Eq, ast.NotEq: ast.NotEq}


def cond(e, kind):
    """Lean Bool expression for a Python condition on `v` (kind: 'str' | 'int' | 'float')"""
    if isinstance(e, ast.Compare) and len(e.ops) == 1 and not (isinstance(e.left, ast.Name) and e.left.id == "v") \
            and isinstance(e.comparators[0], ast.Name) and e.comparators[0].id == "v" and type(e.ops[0]) in FLIP:
        # literal <op> v  ==  v <flipped op> literal
        e = ast.Compare(left=e.comparators[0], ops=[FLIP[type(e.ops[0])]()], comparators=[e.left])
    if isinstance(e, ast.Compare) and len(e.ops) == 1 and isinstance(e.left, ast.Name) and e.left.id == "v" and kind == "str" \
            and isinstance(e.ops[0], (ast.Eq, ast.NotEq)) and isinstance(_resolve(e.comparators[0]), ast.Constant) \
            and _resolve(e.comparators[0]).value == "":
        return "(decide (v = []))" if isinstance(e.ops[0], ast.Eq) else "(!(decide (v = [])))"
    if isinstance(e, ast.Compare) and len(e.ops) == 1 and kind == "str" and isinstance(e.left, ast.Call) \
            and getattr(e.left.func, "id", None) == "len" and len(e.left.args) == 1 and getattr(e.left.args[0], "id", None) == "v" \
            and isinstance(e.comparators[0], ast.Constant) and e.comparators[0].value == 0 and isinstance(e.ops[0], (ast.Eq, ast.NotEq, ast.Gt)):
        return "(decide (v = []))" if isinstance(e.ops[0], ast.Eq) else "(!(decide (v = [])))"
    if isinstance(e, ast.UnaryOp) and isinstance(e.op, ast.Not):
        if isinstance(e.operand, ast.Name) and e.operand.id == "v":
            return "(decide (v = []))" if kind == "str" else "(decide (v = 0))"
        return f"(!{cond(e.operand, kind)})"
    if isinstance(e, ast.BoolOp):
        op = " && " if isinstance(e.op, ast.And) else " || "
        return "(" + op.join(cond(x, kind) for x in e.values) + ")"
    if isinstance(e, ast.Call) and isinstance(e.func, ast.Attribute) and e.func.attr == "startswith" \
            and isinstance(e.func.value, ast.Name) and e.func.value.id == "v" and kind == "str" and len(e.args) == 1 and not e.keywords:
        a = _resolve(e.args[0])
        lits = [_resolve(x) for x in a.elts] if isinstance(a, ast.Tuple) else [a]
        if not lits or not all(isinstance(x, ast.Constant) and isinstance(x.value, str) for x in lits):
            raise No("startswith argument is not a string literal / tuple of string literals")
        return "(" + " || ".join(f"({lean_str(x.value)}).isPrefixOf v" for x in lits) + ")"
    if isinstance(e, ast.Compare) and len(e.ops) == 1 and isinstance(e.left, ast.Name) and e.left.id == "v" and kind in ("int", "float"):
        c = _resolve(e.comparators[0])
        neg = False
        if isinstance(c, ast.UnaryOp) and isinstance(c.op, ast.USub):
            c, neg = c.operand, True
        if not (isinstance(c, ast.Constant) and isinstance(c.value, (int, float)) and not isinstance(c.value, bool)):
            raise No("comparison with a non-literal")
        val = -c.value if neg else c.value
        if kind == "float" and val != 0:
            raise No("float field compared with a non-zero literal")
        if int(val) != val:
            raise No("non-integral literal")
        ops = {ast.Lt: "<", ast.LtE: "≤", ast.Gt: ">", ast.GtE: "≥", ast.Eq: "=", ast.NotEq: "≠"}
        op = ops.get(type(e.ops[0]))
        if op is None:
            raise No("unsupported comparison operator")
        lit = f"({int(val)} : Int)"
        return f"(decide (v {op} {lit}))"
    raise No(f"unsupported condition: {ast.dump(e)[:120]}")


def translate_validator(fn, kind):
    body = list(fn.body)
    if body and isinstance(body[0], ast.Expr) and isinstance(body[0].value, ast.Constant) and isinstance(body[0].value.value, str):
        body = body[1:]
    if not body or not isinstance(body[-1], ast.Return):
        raise No("does not end with a return")
    guards = []
    for st in body[:-1]:
        if isinstance(st, ast.If) and not st.orelse and len(st.body) == 1 and isinstance(st.body[0], ast.Raise):
            guards.append(cond(st.test, kind))
        elif isinstance(st, ast.Expr) and isinstance(st.value, ast.Call) and isinstance(st.value.func, ast.Name) \
                and st.value.func.id in CTX["rejecters"] and st.value.args and not any(isinstance(a, ast.Starred) for a in st.value.args):
            # `_reject_if(<cond>, message)`: a module-level helper that raises when its first argument holds
            guards.append(cond(st.value.args[0], kind))
        elif isinstance(st, ast.Assert):
            guards.append(f"(!{cond(st.test, kind)})")
        else:
            raise No(f"statement at line {st.lineno} is not `if <cond>: raise ...` / a call of a raising helper")
    ret = body[-1].value
    norm = None
    if isinstance(ret, ast.Name) and ret.id == "v":
        norm = "v"
    elif isinstance(ret, ast.Call) and isinstance(ret.func, ast.Attribute) and ret.func.attr == "rstrip" and kind == "str" \
            and isinstance(ret.func.value, ast.Name) and ret.func.value.id == "v" and len(ret.args) == 1 \
            and isinstance(ret.args[0], ast.Constant) and isinstance(ret.args[0].value, str) and len(ret.args[0].value) == 1:
        ch = ret.args[0].value
        norm = f"(v.reverse.dropWhile (· == {ch!r})).reverse" if ch != "'" else None
        if norm is None:
            raise No("rstrip of a quote")
        norm = norm.replace("'", "'")
    else:
        raise No("return value is neither v nor v.rstrip(<char>)")
    accept = " && ".join(f"!{g}" for g in guards) if guards else "true"
    return accept, norm


@translate.register("HttpParams")
def gen(src):
    path = src / "transports" / "http" / "parameters.py"
    tree = ast.parse(path.read_text())
    CTX["consts"], CTX["rejecters"] = {}, set()
    for st in tree.body:
        if isinstance(st, ast.Assign) and len(st.targets) == 1 and isinstance(st.targets[0], ast.Name):
            try:
                ast.literal_eval(st.value)
                CTX["consts"][st.targets[0].id] = st.value
            except Exception:
                pass
        if isinstance(st, ast.FunctionDef) and st.args.args:
            b = list(st.body)
            if b and isinstance(b[0], ast.Expr) and isinstance(b[0].value, ast.Constant) and isinstance(b[0].value.value, str):
                b = b[1:]
            first = st.args.args[0].arg
            if len(b) == 1 and isinstance(b[0], ast.If) and not b[0].orelse and isinstance(b[0].test, ast.Name) and b[0].test.id == first \
                    and len(b[0].body) == 1 and isinstance(b[0].body[0], ast.Raise):
                CTX["rejecters"].add(st.name)
    cls = next((n for n in tree.body if isinstance(n, ast.ClassDef) and n.name == "StreamableHTTPParameters"), None)
    report = {"file": "Gen/HttpParams.lean", "source": str(path), "untranslatable": [], "validators": {}}
    kinds, validators = {}, {}
    if cls is None:
        report["untranslatable"].append(f"{path}: class StreamableHTTPParameters not found")
    else:
        for st in cls.body:
            if isinstance(st, ast.AnnAssign) and isinstance(st.target, ast.Name):
                ann = ast.unparse(st.annotation)
                kinds[st.target.id] = {"str": "str", "int": "int", "float": "float"}.get(ann)
            if isinstance(st, ast.FunctionDef):
                for d in st.decorator_list:
                    if isinstance(d, ast.Call) and getattr(d.func, "id", getattr(d.func, "attr", "")) == "field_validator":
                        names = [a.value for a in d.args if isinstance(a, ast.Constant)]
                        if d.keywords:
                            report["untranslatable"].append(f"{path}:{st.lineno}: field_validator with keywords ({ast.unparse(d)})")
                        for nme in names:
                            validators.setdefault(nme, []).append(st)
    lines = []
    ok = not report["untranslatable"]
    for f in sorted(set(FIELDS) | set(validators)):
        cam = camel(f)
        kind = kinds.get(f)
        fns = validators.get(f, [])
        ty = "List Char" if kind == "str" else "Int"
        try:
            if f in FIELDS and not fns:
                raise No("no validator found for this field")
            if kind is None:
                raise No(f"field type is not str/int/float ({f})")
            if len(fns) != 1:
                raise No("several validators for one field")
            accept, norm = translate_validator(fns[0], kind)
            report["validators"][f] = {"line": fns[0].lineno, "kind": kind}
            lines.append(f"/-- `{fns[0].name}` (line {fns[0].lineno}): true = returns, false = raises `ValueError` -/")
            lines.append(f"def {cam}Accept (v : {ty}) : Bool := {accept}")
            if kind == "str":
                lines.append(f"def {cam}Normalize (v : {ty}) : {ty} := {norm}")
            elif norm != "v":
                raise No("numeric validator does not return v")
        except No as ex:
            ok = False
            where = f"{path}:{fns[0].lineno}" if fns else str(path)
            report["untranslatable"].append(f"{where}: validator of `{f}`: {ex}")
            lines.append(f"/-- PLACEHOLDER: validator of `{f}` outside the translator's subset -/")
            lines.append(f"def {cam}Accept (_v : {ty if kind else 'Int'}) : Bool := true")
            if kind == "str":
                lines.append(f"def {cam}Normalize (v : {ty}) : {ty} := v")
    lean = (
        "-- GENERATED by py/verifpy/translate_http.py from transports/http/parameters.py. Do not edit.\n"
        "namespace Verif.Gen.HttpParams\n\n"
        f"def translatable : Bool := {'true' if ok else 'false'}\n\n"
        f"def validatedFields : List String := [{', '.join(chr(34) + f + chr(34) for f in sorted(validators))}]\n\n"
        + "\n".join(lines) + "\n\nend Verif.Gen.HttpParams\n"
    )
    return lean, report
