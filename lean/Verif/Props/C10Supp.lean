import Verif.Props.C10
import Verif.Gen.Builders

/-! # C10 — supplementary obligations (not stated by the property text)

Built and audited on every run like `Props/C10.lean`; a failure here is reported as INFO and in the
evidence, never as a verdict about C10 (DESIGN 9.9).  The property text speaks about validate-then-dump
of wire objects and about the library's dump sites (both in `Props/C10.lean`); what follows is about
the `create_*` / `parse_*` helpers next to them, regenerated into `Gen/Builders.lean`. -/
set_option linter.unusedSimpArgs false
namespace Verif.Props.C10
open Verif.Model.Schema Verif.Gen.Schemas Verif.Gen.Builders Verif.Lemmas.Schema Verif.Lemmas.SchemaGen

/-! ## Library-side constructors and parsers (`create_*` / `parse_*` helpers)

`Gen/Builders.lean` is REGENERATED from the AST of the helpers of `types/content.py`, `types/tools.py`,
`types/elicitation.py`, `types/errors.py`, `messages/json_rpc_message.py`, the completions and roots
modules: every helper whose body is straight-line construction becomes a `Builder` expression, every
`parse_*` that dispatches on a member becomes a `ParseTable`. -/

/-- Every generated helper fits the generated schemas: each constructor call names a discovered
class, passes declared attribute names only (each once), supplies every required field, and every
constant it passes fits the declared type of its field (`type="image"` for `Literal["image"]`, …). -/
theorem c10_builders_fit_schemas : ∀ b ∈ builders, builderOk classes b = true := by decide +kernel

/-- No attribute name of a discovered class is the wire name of another field of the class (so alias
processing cannot confuse a keyword argument with a wire member). -/
theorem c10_names_apart : ∀ c ∈ classes, namesApart c = true := by decide +kernel

/-- **Construction by attribute name = construction from the wire object**, for every discovered class
and EVERY object: renaming wire-named members to the Python attribute names (what the library's own
constructors pass as keyword arguments) does not change the typed value. -/
theorem c10_construct_by_attribute_names (inv : String → Obj → Bool) (cls : String) (c : Class)
    (hfind : (cfgOf inv).find cls = some c) (kvs : Obj)
    (hinv : inv c.id (kvs.map (fun p => (c.attrOf p.1, p.2))) = inv c.id kvs) :
    validate (cfgOf inv) (.ref cls) (.obj (kvs.map (fun p => (c.attrOf p.1, p.2))))
      = validate (cfgOf inv) (.ref cls) (.obj kvs) :=
  construct_by_attribute_names (classWF_sound (schemas_wellformed c (find_mem hfind)))
    (c10_names_apart c (find_mem hfind)) hfind kvs hinv

/-- **No `None` members**: with `exclude_none=True` no member of a dumped model object is `null` —
for every typed value, with or without aliases. -/
theorem c10_no_none_members (inv : String → Obj → Bool) (byAlias : Bool) (cls : String) (fs : List (String × TVal)) :
    ∀ m ∈ dumpFields (cfgOf inv) byAlias true cls fs, m.2.isNull = false :=
  dumpFields_no_null byAlias cls fs

/-- **What a helper builds dumps to exactly the wire form.**  For ANY builder expression (in
particular every generated `create_*` helper) and any arguments: if the helper hands keyword arguments
`a` (declared attribute names) to the constructor of `cls` and the same members under their wire names
are a spec-valid object `w`, the helper succeeds and
`model_dump(by_alias=True, exclude_none=True)` of its result is `expected w` — wire names (`schema`,
`_meta`), declared defaults, nothing else. -/
theorem c10_helpers_emit_wire_form (inv : String → Obj → Bool) (b : Builder) (cls : String) (c : Class)
    (args a : Obj) (hret : b.ret.retClass = some cls) (hfind : (cfgOf inv).find cls = some c)
    (heval : b.eval args = some (.obj a)) (hattr : ∀ p ∈ a, (c.byName p.1).isSome = true)
    (hinv : inv c.id a = inv c.id (a.map (fun p => (toWire c p.1, p.2))))
    (hc : conforms (cfgOf inv) (.ref cls) (.obj (a.map (fun p => (toWire c p.1, p.2)))) = true)
    (hu : unamb (cfgOf inv) (.ref cls) (.obj (a.map (fun p => (toWire c p.1, p.2)))) = true) :
    ∃ v, b.run (cfgOf inv) args = .ok v
      ∧ dump (cfgOf inv) true true v = expected (cfgOf inv) (.ref cls) (.obj (a.map (fun p => (toWire c p.1, p.2)))) :=
  builder_emits_wire_form (cfgOf_wf inv) b cls c args a hret hfind (c10_names_apart c (find_mem hfind)) heval hattr hinv hc hu

/-- non-vacuity (a literal copy of what the translator emits for `create_structured_tool_result`, so
that the example does not depend on the helper staying inside the translator's subset):
`create_structured_tool_result(data={}, schema={"a": 1})` dumps with the wire name `schema` (not
`schema_`) and without `None` members -/
private def demoBuilder : Builder :=
  { module := "m", name := "create_structured_tool_result",
    params := [("data", none), ("schema", some .null), ("mime_type", some (.str "application/json")), ("is_error", some (.bool false))],
    body := [.assign "structured_content" (.model "StructuredContent" [("type", .const (.str "structured")),
      ("data", .param "data"), ("schema_", .param "schema"), ("mimeType", .param "mime_type")])],
    ret := .model "ToolResult@protocol.types.tools" [("structuredContent", .list [.param "structured_content"]),
      ("isError", .param "is_error")] }

example :
    (demoBuilder.run (cfgOf docInv) [("data", .obj []), ("schema", .obj [("a", .int 1)])]).toOption.map (dump (cfgOf docInv) true true)
    = some (.obj [("structuredContent", .arr [.obj [("type", .str "structured"), ("data", .obj []),
        ("schema", .obj [("a", .int 1)]), ("mimeType", .str "application/json")]]), ("isError", .bool false)]) := by
  simp [demoBuilder, Builder.run, Builder.eval, bindParams, execBody, execStmt, evalB, evalBList, evalBKws, evalBDict, evalKey,
    BExpr.retClass, lookup, setKey, validate, validateList, validateVals, validateMembers, assemble, collapse, fieldValue,
    seqFields, cfgOf, Cfg.find, classes, Class.byName, Class.byWire, Class.attrOf, Class.hooked, validatePrim, exactAny,
    dump, dumpFields, dumpList, dumpVals, outKey, TVal.isNone, Except.toOption, Ty.isOpt, hasKey]

/-- Every generated dispatch table is sound: each tag's entry names a discovered class that declares
the dispatch member as `Literal[tag]`. -/
theorem c10_parse_tables_fit_schemas : ∀ p ∈ parsers, parseTableOk classes p = true := by decide +kernel

/-- **`parse ∘ wire form` loses nothing.**  For every generated `parse_*` dispatch table, every entry
`(tag, cls)` and EVERY spec-valid object of `cls`: the parser picks `cls` and the typed value dumps back
to the specified value, in which every member of the input is preserved. -/
theorem c10_parse_dispatch_lossless (inv : String → Obj → Bool) :
    ∀ p ∈ parsers, ∀ e ∈ p.table, ∀ j, conforms (cfgOf inv) (.ref e.2) j = true → unamb (cfgOf inv) (.ref e.2) j = true →
      ∃ v, p.run (cfgOf inv) j = .ok v ∧ dump (cfgOf inv) true true v = expected (cfgOf inv) (.ref e.2) j
        ∧ Preserved j (dump (cfgOf inv) true true v) := by
  intro p hp e he j hc hu
  have hok : parseEntryOk classes p (e.1, e.2) = true :=
    List.all_eq_true.mp (c10_parse_tables_fit_schemas p hp) e he
  obtain ⟨v, hv, hd⟩ := parse_dispatch (cfgOf_wf inv) p e.1 e.2 hok j hc hu
  exact ⟨v, hv, hd, by rw [hd]; exact (expected_preserves_and_adds_defaults (cfgOf_wf inv) _ j hc).1⟩

/-! ## `complete_enum_value` (completions helper): exactly the matching values, in order -/

/-- A value is suggested iff it is allowed and starts with what was typed (case-folded unless
`case_sensitive`); the suggestions keep the order of the allowed list. -/
theorem c10_complete_enum_exact (current : String) (allowed : List String) (cs : Bool) (v : String) :
    (v ∈ completeEnum current allowed cs ↔
      v ∈ allowed ∧ (if cs then v.startsWith current else v.toLower.startsWith current.toLower) = true)
    ∧ (completeEnum current allowed cs).Sublist allowed := by
  cases cs <;> simp [completeEnum, List.mem_filter, List.filter_sublist]

example : (completeEnum "ap" ["Apple", "apricot", "Banana"] false).Sublist ["Apple", "apricot", "Banana"] :=
  (c10_complete_enum_exact "ap" ["Apple", "apricot", "Banana"] false "apricot").2

end Verif.Props.C10
