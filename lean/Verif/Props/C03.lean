import Verif.Gen.Versions
import Verif.Lemmas.Version

/-! # C03 — client initialization never settles on a protocol version it did not offer

`clientInit sup pref ans` is the model of `send_initialize` (outcome + transcript of writes
and of the instant the answer is delivered); `trackedInit` adds the batch-processor state of
a tracked client (`send_initialize_with_client_tracking`).  `sup` is ANY supported list,
`pref` any preferred version (or none), `ans` any answer: a version string (proposed, other
supported, unsupported, arbitrary text), a result that does not validate, a JSON-RPC error
of any integer code, silence.  The instances at the end use the list REGENERATED from
`protocol/types/versioning.py` (what the client offers when the caller passes no list).
-/
namespace Verif.Props.C03
open Verif.Model.Version Verif.Lemmas.Version
open Verif.Gen.Versions

/-- The translator covered every fragment it was asked to translate. -/
theorem c03_translated : translatable = true := by decide

/-- Proposal: the preferred version when it is in the supported list, otherwise the first
supported version (lists of versions: the empty string is not a version). -/
theorem c03_proposed_spec (h : String) (t : List String) (pref : Option String)
    (hne : "" ∉ h :: t) :
    proposed (h :: t) pref = some (match pref with
      | some p => if p ∈ h :: t then p else h
      | none => h) := by
  unfold proposed
  cases pref with
  | none => rfl
  | some p =>
    by_cases hp : p ∈ h :: t
    · have : p ≠ "" := fun e => hne (e ▸ hp)
      simp [hp, this]
    · simp [hp]

example : proposed ["2025-06-18", "2024-11-05"] (some "2024-11-05") = some "2024-11-05"
    ∧ proposed ["2025-06-18", "2024-11-05"] (some "2025-03-26") = some "2025-06-18"
    ∧ proposed ["2025-06-18", "2024-11-05"] none = some "2025-06-18" := by decide

/-- What is proposed is always a version of the list. -/
theorem c03_proposed_offered (sup : List String) (pref : Option String) (p : String)
    (h : proposed sup pref = some p) : p ∈ sup := proposed_mem h

/-- Success only with an offered version: if the call returns, the server answered with a
version string, that string is in the caller's list, and it is the returned version. -/
theorem c03_success_only_offered (sup : List String) (pref : Option String) (ans : Answer)
    (v : String) (w : List Ev) (h : clientInit sup pref ans = (.ok v, w)) :
    v ∈ sup ∧ ans = .version v := by
  cases hp : proposed sup pref with
  | none => simp [clientInit, hp] at h
  | some p =>
    rcases clientInit_cases sup pref ans p hp with ⟨v', ha, hm, he⟩ | ⟨_, hno, _⟩
    · rw [he] at h
      simp only [Prod.mk.injEq, Outcome.ok.injEq] at h
      exact ⟨h.1 ▸ hm, h.1 ▸ ha⟩
    · exact absurd (by rw [h]) (hno v)

example : clientInit ["2025-06-18", "2024-11-05"] none (.version "2024-11-05")
    = (.ok "2024-11-05", [.sent (.initialize "2025-06-18"), .answered, .sent .initialized]) := by decide

/-- Any other version answer — a string outside the list — raises the version-mismatch error. -/
theorem c03_mismatch_on_foreign_version (sup : List String) (pref : Option String) (s : String)
    (hne : sup ≠ []) (hs : s ∉ sup) :
    (clientInit sup pref (.version s)).1 = .mismatch := by
  obtain ⟨p, hp⟩ := proposed_isSome pref hne
  have hm := proposed_mem hp
  have : s ≠ p := fun e => hs (e ▸ hm)
  simp [clientInit, hp, this, hs]

example : (clientInit ["2025-06-18", "2024-11-05"] none (.version "2025-03-26")).1 = .mismatch := by decide

/-- On success exactly one `initialized` notification is written: the transcript is the
initialize request carrying the proposed version, then the answer, then the notification —
nothing else, nothing after. -/
theorem c03_initialized_exactly_once_on_success (sup : List String) (pref : Option String)
    (ans : Answer) (v : String) (w : List Ev) (h : clientInit sup pref ans = (.ok v, w)) :
    ∃ p, proposed sup pref = some p
      ∧ w = [.sent (.initialize p), .answered, .sent .initialized]
      ∧ (w.filter (· = .sent .initialized)).length = 1 := by
  cases hp : proposed sup pref with
  | none => simp [clientInit, hp] at h
  | some p =>
    rcases clientInit_cases sup pref ans p hp with ⟨v', _, _, he⟩ | ⟨_, hno, _⟩
    · rw [he] at h
      simp only [Prod.mk.injEq] at h
      refine ⟨p, rfl, h.2.symm, ?_⟩
      rw [← h.2]
      simp
    · exact absurd (by rw [h]) (hno v)

/-- Every outcome other than success — mismatch, a result that does not validate, a JSON-RPC
error of any code, silence — leaves the wire without an `initialized` notification; the only
thing written is the one initialize request. -/
theorem c03_no_initialized_on_failure (sup : List String) (pref : Option String) (ans : Answer)
    (h : ∀ v, (clientInit sup pref ans).1 ≠ .ok v) :
    Ev.sent .initialized ∉ (clientInit sup pref ans).2
    ∧ ((clientInit sup pref ans).2.filter (fun e => e ≠ .answered)).length ≤ 1 := by
  cases hp : proposed sup pref with
  | none => simp [clientInit, hp]
  | some p =>
    rcases clientInit_cases sup pref ans p hp with ⟨v', _, _, he⟩ | ⟨_, _, ht | ⟨_, ht⟩⟩
    · exact absurd (by rw [he]) (h v')
    · rw [ht]; simp
    · rw [ht]; simp

example : clientInit ["2025-06-18"] none (.rpcError (-32603) (some "boom"))
      = (.rpcFailed (-32603), [.sent (.initialize "2025-06-18"), .answered])
    ∧ clientInit ["2025-06-18"] none .silence = (.timedOut, [.sent (.initialize "2025-06-18")])
    ∧ clientInit ["2025-06-18"] none .malformed = (.invalid, [.sent (.initialize "2025-06-18"), .answered])
    ∧ clientInit ["2025-06-18"] none (.rpcError (-32602) (some "Unsupported PROTOCOL version"))
      = (.mismatch, [.sent (.initialize "2025-06-18"), .answered]) := by decide

/-- No third kind of run: with a non-empty list the call either succeeds (with the full
transcript) or fails having written nothing but the request. -/
theorem c03_outcome_total (sup : List String) (pref : Option String) (ans : Answer) (hne : sup ≠ []) :
    (∃ v, (clientInit sup pref ans).1 = .ok v) ∨
    ((clientInit sup pref ans).1 = .mismatch ∨ (clientInit sup pref ans).1 = .invalid
      ∨ (∃ c, (clientInit sup pref ans).1 = .rpcFailed c) ∨ (clientInit sup pref ans).1 = .timedOut
      ∨ (clientInit sup pref ans).1 = .transportFailed) := by
  obtain ⟨p, hp⟩ := proposed_isSome pref hne
  unfold clientInit
  rw [hp]
  cases ans with
  | silence => simp
  | closed => simp
  | malformed => simp
  | rpcError c m => simp only []; split <;> simp
  | version s => simp only []; split <;> simp

/-- Tracked client: after a successful call the batch processor holds the returned version
and its mode is the one `supports_batching` gives that version (whenever the version parses
to `(y, m, d)` that is the REGENERATED if-chain on those numbers); after any failure the
processor was never told a version. -/
theorem c03_tracking_mode (parse : String → Option (Int × Int × Int)) (sup : List String)
    (pref : Option String) (ans : Answer) :
    (∀ v w tr, trackedInit parse sup pref ans = (.ok v, w, tr) →
        tr = some (v, batchingOf parse v) ∧ ans = .version v ∧
        (∀ y m d, v ≠ "" → parse v = some (y, m, d) → batchingOf parse v = supportsBatchingGen y m d))
    ∧ ((∀ v, (clientInit sup pref ans).1 ≠ .ok v) → (trackedInit parse sup pref ans).2.2 = none) := by
  constructor
  · intro v w tr h
    unfold trackedInit at h
    split at h
    · rename_i v' t hc
      simp only [Prod.mk.injEq, Outcome.ok.injEq] at h
      obtain ⟨hv, _, htr⟩ := h
      subst hv
      refine ⟨htr.symm, (c03_success_only_offered sup pref ans v' t hc).2, ?_⟩
      intro y m d hne hpv
      simp [batchingOf, hne, hpv]
    · rename_i o t hno hc
      simp only [Prod.mk.injEq] at h
      exact absurd h.1 (hno v)
  · intro h
    unfold trackedInit
    split
    · rename_i v t hc
      exact absurd (by rw [hc]) (h v)
    · rfl

example : trackedInit parseDate ["2025-06-18", "2025-03-26"] none (.version "2025-03-26")
      = (.ok "2025-03-26", [.sent (.initialize "2025-06-18"), .answered, .sent .initialized], some ("2025-03-26", true))
    ∧ (trackedInit parseDate ["2025-06-18", "2025-03-26"] none (.version "2025-06-18")).2.2 = some ("2025-06-18", false)
    ∧ parseDate "2025-03-26" = some (2025, 3, 26) := by decide

/-! ## Write side with backpressure (`clientInitW`: the notification's send is a rendezvous)

"On success exactly one initialized notification is sent … before the call returns" must
hold however slowly the write side takes the notification: the code awaits the send with no
bound of its own, so a return is always preceded by the hand-over. -/

/-- Success implies the notification was handed over, exactly once, as the last thing before
the return: for every write side, if the call returns a result the write side did take the
notification and the transcript is request, answer, start of the send, hand-over. -/
theorem c03_success_implies_handed (sup : List String) (pref : Option String) (ans : Answer)
    (ws : WriteSide) (v : String) (t : List Ev) (h : clientInitW sup pref ans ws = (.ok v, t)) :
    ∃ p d, ws = .accepts d ∧ proposed sup pref = some p
      ∧ t = [.sent (.initialize p), .answered, .sent .initialized, .handed]
      ∧ (t.filter (· = .handed)).length = 1 := by
  unfold clientInitW at h
  split at h
  · rename_i v' t' hc
    obtain ⟨p, hp, ht, _⟩ := c03_initialized_exactly_once_on_success sup pref ans v' t' hc
    cases ws with
    | never => simp at h
    | refuses => simp at h
    | accepts d =>
      simp only [Prod.mk.injEq, Outcome.ok.injEq] at h
      refine ⟨p, d, rfl, hp, ?_, ?_⟩
      · rw [← h.2, ht]; rfl
      · rw [← h.2, ht]; simp
  · rename_i r hno
    exact absurd (by rw [h]) (hno v t)

/-- A write side that never takes the notification never yields a success: the call is still
pending (or failed earlier); nothing was handed over. -/
theorem c03_stalled_writer_never_success (sup : List String) (pref : Option String) (ans : Answer) :
    (∀ v, (clientInitW sup pref ans .never).1 ≠ .ok v)
    ∧ Ev.handed ∉ (clientInitW sup pref ans .never).2 := by
  constructor
  · intro v hv
    have : clientInitW sup pref ans .never = (.ok v, (clientInitW sup pref ans .never).2) := by
      rw [← hv]
    obtain ⟨_, _, hw, _⟩ := c03_success_implies_handed _ _ _ _ _ _ this
    cases hw
  · unfold clientInitW
    split
    · rename_i v t hc
      obtain ⟨p, _, ht, _⟩ := c03_initialized_exactly_once_on_success sup pref ans v t hc
      simp [ht]
    · rename_i r hno
      cases hp : proposed sup pref with
      | none => simp [clientInit, hp]
      | some p =>
        rcases clientInit_cases sup pref ans p hp with ⟨v', _, _, he⟩ | ⟨_, _, ht | ⟨_, ht⟩⟩
        · exact absurd he (hno v' _)
        · rw [ht]; simp
        · rw [ht]; simp

/-- Whatever the write side does, a hand-over happens only in a successful run; and with a write
side that does take the notification the run is the one of `clientInit` plus the hand-over. -/
theorem c03_handed_only_on_success (sup : List String) (pref : Option String) (ans : Answer)
    (ws : WriteSide) :
    (Ev.handed ∈ (clientInitW sup pref ans ws).2 → ∃ v, (clientInitW sup pref ans ws).1 = .ok v)
    ∧ (∀ d, ws = .accepts d → (clientInitW sup pref ans ws).1 = (clientInit sup pref ans).1
        ∧ (clientInitW sup pref ans ws).2.filter (· ≠ .handed) = (clientInit sup pref ans).2) := by
  have hclean : Ev.handed ∉ (clientInit sup pref ans).2 := by
    cases hp : proposed sup pref with
    | none => simp [clientInit, hp]
    | some p =>
      rcases clientInit_cases sup pref ans p hp with ⟨v', _, _, he⟩ | ⟨_, _, ht | ⟨_, ht⟩⟩
      · rw [he]; simp
      · rw [ht]; simp
      · rw [ht]; simp
  constructor
  · intro hm
    unfold clientInitW at hm ⊢
    split at hm
    · rename_i v t hc
      cases ws with
      | accepts d => exact ⟨v, by simp⟩
      | never =>
        have : t = (clientInit sup pref ans).2 := by rw [hc]
        exact absurd (this ▸ hm) hclean
      | refuses =>
        have : t = (clientInit sup pref ans).2 := by rw [hc]
        exact absurd (this ▸ hm) hclean
    · exact absurd hm hclean
  · intro d hd
    subst hd
    unfold clientInitW
    split
    · rename_i v t hc
      have ht : Ev.handed ∉ t := by
        have : t = (clientInit sup pref ans).2 := by rw [hc]
        exact this ▸ hclean
      refine ⟨by rw [hc], ?_⟩
      rw [hc]
      simp only [List.filter_append]
      have : t.filter (· ≠ .handed) = t := by
        apply List.filter_eq_self.2
        intro a ha
        simp only [ne_eq, decide_not, Bool.not_eq_eq_eq_not, Bool.not_true, decide_eq_false_iff_not]
        intro e
        exact ht (e ▸ ha)
      rw [this]
      simp
    · exact ⟨rfl, List.filter_eq_self.2 (by
        intro a ha
        simp only [ne_eq, decide_not, Bool.not_eq_eq_eq_not, Bool.not_true, decide_eq_false_iff_not]
        intro e
        exact hclean (e ▸ ha))⟩

example : clientInitW ["2025-06-18", "2024-11-05"] none (.version "2024-11-05") (.accepts 2048)
      = (.ok "2024-11-05", [.sent (.initialize "2025-06-18"), .answered, .sent .initialized, .handed])
    ∧ clientInitW ["2025-06-18", "2024-11-05"] none (.version "2024-11-05") .never
      = (.blocked, [.sent (.initialize "2025-06-18"), .answered, .sent .initialized])
    ∧ clientInitW ["2025-06-18"] none (.version "2024-11-05") .never
      = (.mismatch, [.sent (.initialize "2025-06-18"), .answered])
    ∧ clientInitW ["2025-06-18"] none (.version "2025-06-18") .refuses
      = (.transportFailed, [.sent (.initialize "2025-06-18"), .answered, .sent .initialized])
    ∧ clientInit ["2025-06-18"] none .closed = (.transportFailed, [.sent (.initialize "2025-06-18")]) := by decide

/-- Counter-model: with the send wrapped in `move_on_after T` (NOT the code) the statement fails —
a write side slower than `T` gives a success although nothing was handed over. -/
example : clientInitMoveOn 1024 true ["2025-06-18"] none (.version "2025-06-18") (.accepts 1025)
      = (.ok "2025-06-18", [.sent (.initialize "2025-06-18"), .answered, .sent .initialized])
    ∧ clientInitMoveOn 1024 false ["2025-06-18"] none (.version "2025-06-18") (.accepts 1024)
      = (.ok "2025-06-18", [.sent (.initialize "2025-06-18"), .answered, .sent .initialized])
    ∧ (clientInitMoveOn 1024 true ["2025-06-18"] none (.version "2025-06-18") .never).1 = .ok "2025-06-18"
    ∧ clientInitMoveOn 1024 true ["2025-06-18"] none (.version "2025-06-18") (.accepts 1023)
      = clientInitW ["2025-06-18"] none (.version "2025-06-18") (.accepts 1023) := by decide

/-- A write side that refuses the notification (the peer closed that direction after answering):
the call fails — it is not a success — and nothing was handed over. -/
theorem c03_refusing_writer_never_success (sup : List String) (pref : Option String) (ans : Answer) :
    (∀ v, (clientInitW sup pref ans .refuses).1 ≠ .ok v)
    ∧ Ev.handed ∉ (clientInitW sup pref ans .refuses).2 := by
  constructor
  · intro v hv
    have : clientInitW sup pref ans .refuses = (.ok v, (clientInitW sup pref ans .refuses).2) := by
      rw [← hv]
    obtain ⟨_, _, hw, _⟩ := c03_success_implies_handed _ _ _ _ _ _ this
    cases hw
  · intro hm
    obtain ⟨v, hv⟩ := (c03_handed_only_on_success sup pref ans .refuses).1 hm
    have : clientInitW sup pref ans .refuses = (.ok v, (clientInitW sup pref ans .refuses).2) := by
      rw [← hv]
    obtain ⟨_, _, hw, _⟩ := c03_success_implies_handed _ _ _ _ _ _ this
    cases hw

/-- Consecutive calls on the same streams with the same tracked client: every call is a fresh
negotiation — its outcome and transcript are those of that call alone, whatever happened
before — and after every SUCCESSFUL call the tracked client holds that call's version with the
mode belonging to it (a failed call leaves the client's state as it was). -/
theorem c03_sequence_each_call_fresh (parse : String → Option (Int × Int × Int))
    (steps : List ClientStep) (tr : Tracked) :
    (runClientSeq parse tr steps).map (fun r => (r.1, r.2.1))
      = steps.map (fun s => clientInit s.1 s.2.1 s.2.2)
    ∧ ∀ r ∈ runClientSeq parse tr steps, ∀ v, r.1 = .ok v → r.2.2 = some (v, batchingOf parse v) := by
  induction steps generalizing tr with
  | nil => simp [runClientSeq]
  | cons s rest ih =>
    obtain ⟨sup, pref, ans⟩ := s
    have hfst : ((trackedInit parse sup pref ans).1, (trackedInit parse sup pref ans).2.1)
        = clientInit sup pref ans := by
      unfold trackedInit
      split
      · rename_i v t hc; rw [hc]
      · rename_i o t _ hc; rw [hc]
    refine ⟨?_, ?_⟩
    · simp only [runClientSeq, List.map_cons, (ih _).1, hfst]
    · intro r hr v hv
      simp only [runClientSeq, List.mem_cons] at hr
      rcases hr with hr | hr
      · subst hr
        simp only at hv
        have h3 := (c03_tracking_mode parse sup pref ans).1 v (trackedInit parse sup pref ans).2.1
          (trackedInit parse sup pref ans).2.2 (by rw [← hv])
        simp [h3.1]
      · exact (ih _).2 r hr v hv

example : (runClientSeq parseDate none
      [(["2025-06-18", "2025-03-26"], none, .version "2025-03-26"),
       (["2025-06-18", "2025-03-26"], none, .version "2026-01-01"),
       (["2025-06-18", "2025-03-26"], none, .version "2025-06-18")]).map (fun r => (r.1, r.2.2))
    = [(.ok "2025-03-26", some ("2025-03-26", true)), (.mismatch, some ("2025-03-26", true)),
       (.ok "2025-06-18", some ("2025-06-18", false))] := by decide

/-- Connections are independent: with any number of connections (streams + tracked client) alive
in one process and their calls interleaved in any order, what happens on one connection — every
call's outcome and transcript, and the state of its tracked client — is what would happen if it
were alone with its own calls. -/
theorem c03_connections_independent (parse : String → Option (Int × Int × Int))
    (trs : Nat → Tracked) (steps : List (Nat × ClientStep)) (k : Nat) :
    ((runClients parse trs steps).filter (fun x => x.1 = k)).map (·.2)
      = runClientSeq parse (trs k) ((steps.filter (fun x => x.1 = k)).map (·.2)) := by
  induction steps generalizing trs with
  | nil => simp [runClients, runClientSeq]
  | cons x rest ih =>
    obtain ⟨j, sup, pref, ans⟩ := x
    by_cases hj : j = k
    · subst hj
      simp only [runClients, List.filter_cons, decide_true, if_true, List.map_cons, runClientSeq, ih]
    · have hj' : ¬ k = j := fun e => hj e.symm
      simp only [runClients, List.filter_cons, hj, decide_false, Bool.false_eq_true, if_false]
      rw [ih]
      simp [hj']

example : (runClients parseDate (fun _ => none)
      [(0, ["2025-06-18", "2025-03-26"], none, .version "2025-03-26"),
       (1, ["2025-06-18", "2025-03-26"], none, .version "2025-06-18"),
       (0, ["2025-06-18", "2025-03-26"], none, .version "2026-01-01")]).map (fun r => (r.1, r.2.1, r.2.2.2))
    = [(0, .ok "2025-03-26", some ("2025-03-26", true)), (1, .ok "2025-06-18", some ("2025-06-18", false)),
       (0, .mismatch, some ("2025-03-26", true))] := by decide

/-- Instance: when the caller passes no list the client offers the library's own list
(regenerated); it is non-empty and contains no empty string, so every theorem above applies,
and the proposal is its first entry unless a listed version is preferred. -/
theorem c03_default_list :
    supported ≠ [] ∧ "" ∉ supported ∧ proposed supported none = supported.head?
    ∧ (∀ ans v w, clientInit supported none ans = (.ok v, w) → v ∈ supported) := by
  refine ⟨by decide, by decide, rfl, ?_⟩
  intro ans v w h
  exact (c03_success_only_offered _ _ _ _ _ h).1

end Verif.Props.C03
