import Verif.Props.C06
import Verif.Model.StdioExit

/-! # C06 — supplementary obligations (not stated by the property text)

Built and audited on every run like `Props/C06.lean`; a failure here (a source rewrite that leaves the
translator's subset, a changed filter) is reported as INFO and in the evidence, never as a verdict
about C06 (DESIGN 9.9).  The correspondence suites `exit` and `guards` are supplementary too. -/
set_option linter.unusedVariables false
set_option linter.unusedSimpArgs false
namespace Verif.Props.C06
open Verif.Model.StdioIn Verif.Model.StdioOut

/-! ## Supplementary: which exception leaves the connection (`stdio_client()`, `stdio_client_with_initialize()`)

The marker strings and the `raise` / no-`raise` of every branch of the two `except` clauses are
REGENERATED from the source (`Gen/StdioExit.lean`); `Model/StdioExit.lean` interprets them.  A
serialisation failure of the writer ("JSON object must be str …") must never be swallowed; the only
things swallowed are cancellation and the "cancel scope" noise of a shutdown, which anyio raises as a `RuntimeError`:
an exception of any other class (the caller's, a server's error) is never swallowed, whatever its text. -/
section exit
open Verif.Gen.StdioExit Verif.Model.StdioExit

/-- the four filters of the two entry points -/
def exitFilters : List Filter := [clientSingle, clientGroup, initSingle, initGroup]

/-- the translator covered both functions -/
theorem c06_exit_translated : Verif.Gen.StdioExit.translatable = true := by decide

/-- **Only a `RuntimeError` that says "cancel scope" is swallowed.**  For each of the four filters, EVERY exception
class (given by the names in its MRO) and EVERY exception text: an ordinary (non-cancellation) exception is swallowed
exactly when it is an instance of `RuntimeError` AND its text contains "cancel scope" (case-insensitively); everything
else is re-raised — in particular every JSON serialisation error and every unknown error. -/
theorem c06_exit_only_cancel_scope_swallowed (f : Filter) (hf : f ∈ exitFilters) (mro : List String) (msg : List Char) :
    decideOne f false mro msg = !(mro.contains "RuntimeError" && contains "cancel scope".toList (lower msg)) := by
  simp only [exitFilters, List.mem_cons, List.mem_nil_iff, or_false] at hf
  rcases hf with rfl | rfl | rfl | rfl <;>
  · rcases Bool.eq_false_or_eq_true (mro.contains "RuntimeError") with h1 | h1 <;>
    rcases Bool.eq_false_or_eq_true (contains "cancel scope".toList (lower msg)) with h2 | h2 <;>
    rcases Bool.eq_false_or_eq_true (contains "json object must be str".toList (lower msg)) with h3 | h3 <;>
    simp only [decideOne, clientSingle, clientGroup, initSingle, initGroup, firstMatch, guardHolds, h1, h2, h3] <;> rfl

/-- **A caller's or server's error of any other class always propagates, whatever its text** — also when the text
mentions a cancel scope. -/
theorem c06_exit_other_class_propagates (f : Filter) (hf : f ∈ exitFilters) (mro : List String) (msg : List Char)
    (h : mro.contains "RuntimeError" = false) : decideOne f false mro msg = true := by
  rw [c06_exit_only_cancel_scope_swallowed f hf mro msg, h]; rfl

/-- a serialisation error of the writer always propagates (unless the same text also says "cancel scope") -/
theorem c06_exit_serialisation_error_propagates (f : Filter) (hf : f ∈ exitFilters) (mro : List String) (msg : List Char)
    (h1 : contains "json object must be str".toList (lower msg) = true)
    (h2 : contains "cancel scope".toList (lower msg) = false) : decideOne f false mro msg = true := by
  rw [c06_exit_only_cancel_scope_swallowed f hf mro msg, h2]; simp

/-- **Groups.**  An exception group leaves `stdio_client()` / `stdio_client_with_initialize()` exactly when
some member is neither a cancellation nor a `RuntimeError` with a "cancel scope" message; a lone cancellation is
never caught (it is not an `Exception`). -/
theorem c06_exit_group (single grp : Filter) (hg : grp ∈ exitFilters) (ms : List (Bool × List String × List Char)) :
    propagates single grp (.group ms)
      = ms.any (fun m => !m.1 && !(m.2.1.contains "RuntimeError" && contains "cancel scope".toList (lower m.2.2)))
    ∧ propagates single grp .cancelled = true := by
  refine ⟨?_, rfl⟩
  simp only [propagates]
  congr 1
  funext m
  cases hc : m.1 with
  | true => simp [decideOne, hc]
  | false => simp [c06_exit_only_cancel_scope_swallowed grp hg m.2.1 m.2.2, hc]

def mroRuntime : List String := ["RuntimeError", "Exception", "BaseException", "object"]
def mroValue : List String := ["ValueError", "Exception", "BaseException", "object"]

example : decideOne clientSingle false mroValue "JSON object must be str, bytes or bytearray, not dict".toList = true
    ∧ decideOne initGroup false mroRuntime "Attempted to exit a Cancel Scope that isn't the current task's".toList = false
    ∧ decideOne initGroup false mroValue "Attempted to exit a Cancel Scope that isn't the current task's".toList = true
    ∧ decideOne clientSingle false ("RecursionError" :: mroRuntime) "cancel scope".toList = false
    ∧ decideOne clientSingle false mroRuntime "boom".toList = true
    ∧ propagates initSingle initGroup (.group [(true, [], []), (false, mroRuntime, "cancel scope".toList)]) = false
    ∧ propagates initSingle initGroup (.group [(true, [], []), (false, mroValue, "cancel scope".toList)]) = true
    ∧ propagates initSingle initGroup (.group [(true, [], []), (false, mroRuntime, "x".toList)]) = true := by decide

end exit

/-! ## Supplementary: entry guards -/

/-- the constructor accepts exactly a non-empty command with a list / tuple of arguments -/
theorem c06_guard_ctor (c a : Bool) : ctorCheck c a = .ok () ↔ (c = true ∧ a = true) := by
  cases c <;> cases a <;> simp [ctorCheck]

/-- the streams can be used exactly once the object has been entered (at any time, also after an
exit: the flag is never cleared); before that every use raises `RuntimeError` -/
theorem c06_guard_streams (h : List LifeOp) :
    (useStreams h = .ok () ↔ LifeOp.enter ∈ h) ∧ (useStreams h = .error .runtimeError ↔ LifeOp.enter ∉ h) := by
  unfold useStreams initialized
  by_cases hm : LifeOp.enter ∈ h <;> simp [hm]

/-- the transport wrapper hands out streams exactly while it is entered -/
theorem c06_guard_transport (h : List LifeOp) :
    transportGetStreams (h ++ [.enter]) = .ok () ∧ transportGetStreams (h ++ [.exit]) = .error .runtimeError
    ∧ transportGetStreams [] = .error .runtimeError := by
  refine ⟨?_, ?_, rfl⟩
  · simp [transportGetStreams, transportHasClient, List.getLast?_append]
  · simp [transportGetStreams, transportHasClient, List.getLast?_append]

example : useStreams [] = .error .runtimeError ∧ useStreams [.enter, .exit] = .ok ()
    ∧ transportGetStreams [.enter, .exit] = .error .runtimeError ∧ ctorCheck false true = .error .valueError :=
  ⟨rfl, rfl, rfl, rfl⟩


end Verif.Props.C06
