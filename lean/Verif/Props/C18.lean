import Verif.Lemmas.Await
import Verif.Lemmas.Shared
import Verif.Lemmas.SharedLoss

/-! # C18 — concurrent requests on one connection: no cross-talk and no lost responses

(a) holds and is proved twice: for EVERY way the shared stream could be split between
callers (scheduler-independent), and as an invariant of the simulation of anyio's actual
hand-off rule (`Model/Shared.lean`).
(b) "every caller whose response was sent within its deadline receives it" is FALSE of the
code and of the model: `c18_lost_response_witness` is a machine-checked counterexample (two
callers, answers in the opposite order, both sent well within the deadline, both callers
time out).  The full statement of (b) is kept below as a comment with the partial theorem
that does hold. -/
namespace Verif.Props.C18
open Verif.Model.Await Verif.Model.Shared
variable {α : Type}

/-- (a), scheduler-independent: whatever sub-history `sub` of the connection's traffic a
caller ends up consuming, a value returned to it is the payload of a response bearing ITS id;
a response addressed to another id is never its result. -/
theorem c18_no_cross_talk_any_schedule (R : Int → Bool) (cfg : Cfg α) (sub : List (Nat × In α))
    (p : α) (h : (run R cfg sub).outcome = .returned p) :
    (∃ a, (a, In.resp cfg.reqId p) ∈ sub)
    ∧ ∀ pre a post other q, sub = pre ++ (a, In.resp other q) :: post → other ≠ cfg.reqId →
        NoMatch cfg pre → ∃ x ∈ post, isMatch cfg x.2 = true := by
  unfold run at h
  split at h
  · simp at h
  · obtain ⟨pre, a, post, he, hn⟩ := loop_returned_sound R cfg 0 sub _ _ _ p h
    refine ⟨⟨a, by rw [he]; simp⟩, ?_⟩
    intro pre' a' post' other q he' hne _
    -- the matching response is in `pre'` (impossible: NoMatch), is the foreign one (impossible), or in `post'`
    have hmem : (a, In.resp cfg.reqId p) ∈ pre' ++ (a', In.resp other q) :: post' := by
      rw [← he', he]; simp
    rcases List.mem_append.mp hmem with h1 | h1
    · rename_i hn'
      have := hn' _ h1
      simp [isMatch] at this
    · rcases List.mem_cons.mp h1 with h2 | h2
      · simp at h2
        exact absurd h2.2.1.symm hne
      · exact ⟨_, h2, by simp [isMatch]⟩

/-- (a) for the simulation of n concurrent callers under anyio's hand-off rule: at every
moment, a caller that has returned holds the payload of a response of the history that bears
its own id. -/
theorem c18_no_cross_talk (R : Int → Bool) (P fuel : Nat) (callers : List (Caller × Nat))
    (hist : List (Nat × In α)) :
    ∀ c ∈ sim R P fuel (initState P callers) hist, ∀ p t, c.st = .done (.returned p) t →
      ∃ a, (a, In.resp c.caller.id p) ∈ hist := by
  intro c hc
  apply sim_good R P hist fuel (initState P callers) hist (fun x hx => hx) _ c hc
  intro c hc p t hp
  simp [initState] at hc
  obtain ⟨_, _, _, rfl⟩ := hc
  simp at hp

/-! (b) — full statement, NOT a theorem:
    `∀ callers hist, ∀ c ∈ sim …, (∃ a < c.caller.D, (a, resp c.caller.id p) ∈ hist) → c returned`.
   It is refuted by the witness below; what holds is the single-caller case. -/

def wCallers : List (Caller × Nat) := [({ id := .int 0, D := 2304 }, 0), ({ id := .int 1, D := 2305 }, 1)]
def wHist : List (Nat × In Nat) := [(17, .resp (.int 1) 11), (18, .resp (.int 0) 10)]

def timedOutAt (c : CState Nat) : Option Nat :=
  match c.st with
  | .done .timedOut t => some t
  | _ => none

/-- Each arriving message is handed to AT MOST ONE caller (arrival ticks distinct): over all
callers, the consumed arrivals never repeat and are arrivals of the history.  Together with
`c18_no_cross_talk` this is the whole mechanism of the loss refuted below: a response consumed by a
caller it is not addressed to is discarded there and can reach nobody else. -/
theorem c18_each_message_consumed_once (R : Int → Bool) (P fuel : Nat) (callers : List (Caller × Nat))
    (hist : List (Nat × In α)) (hd : (hist.map (·.1)).Nodup) :
    (allGot (sim R P fuel (initState P callers) hist)).Nodup
    ∧ ∀ a ∈ allGot (sim R P fuel (initState P callers) hist), a ∈ hist.map (·.1) := by
  have h0 : allGot (initState (α := α) P callers) = [] := by
    induction callers with
    | nil => rfl
    | cons c cs ih => simpa [allGot, initState] using ih
  obtain ⟨h1, h2⟩ := sim_consumed_once R P fuel (initState P callers) hist (by rw [h0]; simpa using hd)
  refine ⟨h1, fun a ha => ?_⟩
  rcases h2 a ha with h | h
  · rw [h0] at h; cases h
  · exact h

/-- in the witness below every message was consumed exactly once — by the WRONG caller -/
example : allGot (sim (fun _ => true) 512 40 (initState 512 wCallers) wHist) = [17, 18] := by decide

/-- The ONLY way a response is lost.  For every number of callers, every history in arrival order
and every schedule of the simulation: if a caller ends with `TimeoutError` although a response
bearing its id arrived before its deadline, then that very arrival was consumed — and discarded — by
ANOTHER caller waiting on the same connection.  (With one caller there is no other: that is
`c18_no_loss_partial`.)  This is the exact content of the open finding
`lost-response/discarded-by-other-waiter`; any other kind of loss is outside what the code, as
modelled, can do and is reported under a different key. -/
theorem c18_loss_only_by_other_waiter (R : Int → Bool) (P fuel : Nat) (callers : List (Caller × Nat))
    (hist : List (Nat × In α)) (hs : Sorted hist) (k : Nat) (c : CState α)
    (hk : (sim R P fuel (initState P callers) hist)[k]? = some c) (t : Nat)
    (hto : c.st = .done .timedOut t) (a : Nat) (p : α)
    (hr : (a, In.resp c.caller.id p) ∈ hist) (ha : a < c.caller.D) :
    ∃ (k' : Nat) (c' : CState α), k' ≠ k
      ∧ (sim R P fuel (initState P callers) hist)[k']? = some c' ∧ a ∈ c'.got := by
  have h0 : LossInv hist [] hist (initState (α := α) P callers) := by
    refine ⟨by simp, by intro k c _ a p hp; simp at hp, ?_⟩
    intro k c hk t ht
    have hm : c ∈ initState (α := α) P callers := List.mem_of_getElem? hk
    simp only [initState, List.mem_map] at hm
    obtain ⟨x, _, rfl⟩ := hm
    simp at ht
  obtain ⟨proc, ev, inv⟩ := sim_lossInv R P hist fuel _ [] hist hs h0
  obtain ⟨hD, hlate⟩ := inv.late k c hk t hto
  have hmem : (a, In.resp c.caller.id p) ∈ proc ++ ev := by rw [← inv.split]; exact hr
  rcases List.mem_append.mp hmem with hp | he
  · rcases inv.lost k c hk a p hp with h | ⟨o, t', h1, h2⟩
    · exact h
    · rw [hto] at h1
      simp at h1
      obtain ⟨rfl, rfl⟩ := h1
      have := h2 rfl
      omega
  · have := hlate _ he
    simp at this
    omega

/-- the witness below is an instance: caller 0 timed out, its response (tick 18) is in caller 1's
consumed list, and vice versa -/
example : ∃ (k' : Nat) (c' : CState Nat), k' ≠ 0
    ∧ (sim (fun _ => true) 512 40 (initState 512 wCallers) wHist)[k']? = some c' ∧ 18 ∈ c'.got :=
  c18_loss_only_by_other_waiter (fun _ => true) 512 40 wCallers wHist (by simp [Sorted, wHist]) 0
    ⟨⟨.int 0, 2304⟩, .done .timedOut 2304, [17]⟩ (by rfl) 2304 rfl 18 10 (by simp [wHist]) (by decide)

/-- (b) refuted: both responses were sent in time (ticks 17 and 18, deadlines 2304 and 2305),
each was consumed and discarded by the other waiter, both callers time out. -/
theorem c18_lost_response_witness :
    (sim (fun _ => true) 512 40 (initState 512 wCallers) wHist).map timedOutAt = [some 2304, some 2305]
    ∧ (sim (fun _ => true) 512 40 (initState 512 wCallers) wHist).map (·.got) = [[17], [18]]
    ∧ (∀ x ∈ wHist, x.1 < 2304) := by
  refine ⟨by decide +kernel, by decide +kernel, by decide⟩

/-- (b), the part that holds: with a single caller on the connection (no concurrent waiter
to consume its response) a response sent before the deadline is received — this is
`c01_complete` on the single-caller model. -/
theorem c18_no_loss_partial (R : Int → Bool) (cfg : Cfg α) (pre post : List (Nat × In α)) (a : Nat) (p : α)
    (hpre : cfg.preCancelled = false) (hc : cfg.cancelAt = none)
    (hno : NoMatch cfg pre) (hs : Sorted (pre ++ [(a, In.resp cfg.reqId p)])) (ha : a < cfg.D) :
    (run R cfg (pre ++ (a, In.resp cfg.reqId p) :: post)).outcome = .returned p := by
  have hrun : ∀ ev, run R cfg ev = loop R cfg 0 ev [.request] [] 0 := by intro ev; simp [run, hpre]
  rw [hrun, loop_complete R cfg hc 0 _ _ _ _ pre a _ post rfl hno (by simp [isMatch]) hs
    (by intro x _; exact Nat.zero_le _) ha]
  simp [final, classify]

end Verif.Props.C18
