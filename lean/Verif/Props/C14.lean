import Verif.Lemmas.Await
import Verif.Lemmas.Token
import Verif.Model.ClientApi
import Verif.Lemmas.AwaitSlow
import Verif.Gen.Timing

/-! # C14 — deadlines, cancellation and progress behave the same under any traffic

Same timed model as C01 (`Verif.Model.Await.run`); the poll period `P > 0` is arbitrary, so no
statement depends on the literal 0.5 s. Histories are arbitrary (any length, any rate). -/
namespace Verif.Props.C14
open Verif.Model.Await
variable {α : Type}

theorem c14_translated : Verif.Gen.Timing.translatable = true ∧ 0 < Verif.Gen.Timing.pollMs := by decide

/-- the polling interval of the receive loop is the documented 0.5 s -/
theorem c14_poll_interval_documented : Verif.Gen.Timing.pollMs = 500 := by decide

/-- A pending request ends no later than its timeout, whatever the traffic. -/
theorem c14_deadline (R : Int → Bool) (cfg : Cfg α) (ev : List (Nat × In α)) :
    (run R cfg ev).time ≤ cfg.D := by
  unfold run
  split
  · simp
  · exact loop_time_le_deadline R cfg 0 ev _ _ _ (Nat.zero_le _)

/-- a timeout is reported exactly at the deadline -/
theorem c14_timeout_at_deadline (R : Int → Bool) (cfg : Cfg α) (ev : List (Nat × In α))
    (h : (run R cfg ev).outcome = .timedOut) : (run R cfg ev).time = cfg.D := by
  unfold run at h ⊢
  split at h
  · simp at h
  · simp only [*]
    exact loop_timedOut_time R cfg 0 ev _ _ _ h

/-- Cancellation latency: when the token fires at tick `c`, the call is over no later than one
polling interval after `c` — with `CancelledError`, unless a matching response was consumed
first (`returned`/`raised`) or the deadline came first (`timedOut`, which by
`c14_timeout_at_deadline` means `D ≤ c + P`). -/
theorem c14_cancel_latency (R : Int → Bool) (cfg : Cfg α) (ev : List (Nat × In α)) (c : Nat)
    (hc : cfg.cancelAt = some c) (hw : cfg.writer.prompt = true) : (run R cfg ev).time ≤ c + cfg.P := by
  unfold run
  split
  · simp
  · have := loop_cancel_latency R cfg c hc hw 0 ev [.request] [] 0
    simpa using this

/-- A peer that is slow to read (`stalledUntil r`): the cancelled notification goes out when the
peer reads again, and the call ends cancelled THEN — never later than `max (c + P) r`, never
later than the deadline — having written exactly one notification; if the peer does not read
again before the deadline the call ends there with `TimeoutError`. -/
theorem c14_stalled_writer (R : Int → Bool) (cfg : Cfg α) (ev : List (Nat × In α)) (r : Nat)
    (hw : cfg.writer = .stalledUntil r) :
    (run R cfg ev).time ≤ cfg.D
    ∧ ((run R cfg ev).outcome = .cancelled → (run R cfg ev).writes.count Write.cancelNotif = 1)
    ∧ ((run R cfg ev).outcome ≠ .cancelled → (run R cfg ev).writes.count Write.cancelNotif = 0) := by
  refine ⟨c14_deadline R cfg ev, ?_, ?_⟩
  · intro h
    by_cases hp : cfg.preCancelled = true
    · simp [run, hp]
    · have hrun : run R cfg ev = loop R cfg 0 ev [.request] [] 0 := by simp [run, hp]
      rw [hrun] at h ⊢
      rw [loop_writes, h]; simp [Outcome.isCancelled, hw]
  · intro h
    by_cases hp : cfg.preCancelled = true
    · simp [run, hp] at h
    · have hrun : run R cfg ev = loop R cfg 0 ev [.request] [] 0 := by simp [run, hp]
      rw [hrun] at h ⊢
      rw [loop_writes]
      cases ho : (loop R cfg 0 ev [Write.request] [] 0).outcome <;> simp_all [Outcome.isCancelled]

/-- The guard of `c14_cancel_latency` is exact.  The cancelled notification is written INSIDE the
deadline scope; when the write stream cannot take it (the peer has stopped reading and the buffer
is full) the write is cut off by the deadline: the call then still ends no later than its timeout
(`c14_deadline`), never with `CancelledError`, and writes nothing but its request. -/
theorem c14_blocked_writer (R : Int → Bool) (cfg : Cfg α) (ev : List (Nat × In α))
    (hpre : cfg.preCancelled = false) (hw : cfg.writer = .blocked) :
    (run R cfg ev).outcome ≠ .cancelled ∧ (run R cfg ev).writes = [Write.request]
      ∧ (run R cfg ev).time ≤ cfg.D := by
  have hrun : run R cfg ev = loop R cfg 0 ev [.request] [] 0 := by simp [run, hpre]
  have hnc := loop_blocked_not_cancelled R cfg 0 ev [.request] [] 0 hw
  refine ⟨by rw [hrun]; exact hnc, ?_, c14_deadline R cfg ev⟩
  rw [hrun, loop_writes, hw]
  cases h : (loop R cfg 0 ev [Write.request] [] 0).outcome <;> simp_all [Outcome.isCancelled]

/-- `CancelledError` is raised only if the token fired: already before the call, or at a tick
not later than the completion tick (and before the deadline). -/
theorem c14_cancelled_only_if_fired (R : Int → Bool) (cfg : Cfg α) (ev : List (Nat × In α))
    (h : (run R cfg ev).outcome = .cancelled) :
    cfg.preCancelled = true ∨ ∃ c, cfg.cancelAt = some c ∧ c ≤ (run R cfg ev).time := by
  by_cases hp : cfg.preCancelled = true
  · exact Or.inl hp
  · right
    have hrun : run R cfg ev = loop R cfg 0 ev [.request] [] 0 := by simp [run, hp]
    rw [hrun] at h ⊢
    obtain ⟨c, h1, h2, _⟩ := loop_cancelled_sound R cfg 0 ev _ _ _ h
    exact ⟨c, h1, h2⟩

/-- Exactly one cancelled notification is written when the call ends cancelled, none otherwise
(write stream not closed under the call: a closed stream takes no notification — the failed write
is logged, the call still ends cancelled — and never more than one is written in any case). -/
theorem c14_one_cancel_notification (R : Int → Bool) (cfg : Cfg α) (ev : List (Nat × In α)) :
    (cfg.writer ≠ .closed →
      ((run R cfg ev).writes.count Write.cancelNotif = 1 ↔ (run R cfg ev).outcome = .cancelled))
    ∧ (run R cfg ev).writes.count Write.cancelNotif ≤ 1
    ∧ ((run R cfg ev).writes.count Write.cancelNotif = 1 → (run R cfg ev).outcome = .cancelled) := by
  unfold run
  split
  · simp
  · rw [loop_writes]
    have hb := loop_blocked_not_cancelled R cfg 0 ev [.request] [] 0
    cases h : (loop R cfg 0 ev [Write.request] [] 0).outcome <;> cases hw : cfg.writer <;> simp_all [Outcome.isCancelled]

/-- A request cancelled before sending is never sent. -/
theorem c14_cancel_before_send_writes_no_request (R : Int → Bool) (cfg : Cfg α)
    (ev : List (Nat × In α)) (h : cfg.preCancelled = true) :
    Write.request ∉ (run R cfg ev).writes ∧ (run R cfg ev).outcome = .cancelled := by
  simp [run, h]

/-- Progress exactness.  The callback invocations are exactly the matching-token progress
notifications among the consumed prefix of the history, in arrival order, with the notified
values (`progress` defaulting to `cfg.zero`); never for other tokens, never for other methods. -/
theorem c14_progress_exact (R : Int → Bool) (cfg : Cfg α) (ev : List (Nat × In α)) :
    (run R cfg ev).callbacks =
      (ev.take (run R cfg ev).consumed).filterMap (fun x => cbArgs cfg x.2) := by
  unfold run
  split
  · simp
  · have := loop_callbacks R cfg 0 ev [.request] [] 0
    simpa using this

/-- ... and the consumed prefix is everything that arrived strictly before completion: an
entry of a time-ordered history that was not consumed arrives no earlier than the completion tick. -/
theorem c14_consumed_is_before_completion (R : Int → Bool) (cfg : Cfg α) (ev : List (Nat × In α))
    (hs : Sorted ev) (hp : cfg.preCancelled = false) (hw : cfg.writer.prompt = true) :
    ∀ x ∈ ev.drop (run R cfg ev).consumed, (run R cfg ev).time ≤ x.1 := by
  have hrun : run R cfg ev = loop R cfg 0 ev [.request] [] 0 := by simp [run, hp]
  rw [hrun]
  have := loop_unconsumed_late R cfg 0 ev [.request] [] 0 hs (by intro x _; exact Nat.zero_le _) hw
  simpa using this

/-- which notifications count: the token must be the request's own -/
theorem c14_progress_token_filter (cfg : Cfg α) (tok : Option Id) (p t m : Option α) :
    cbArgs cfg (In.progress tok p t m) =
      (match cfg.token with
       | none => none
       | some mine => if tok = some mine then some (p.getD cfg.zero, t, m) else none) := by
  simp only [cbArgs, classify]
  cases cfg.token with
  | none => rfl
  | some mine => by_cases h : tok = some mine <;> simp [h]

/-- A failing callback does not disturb the request: the observation does not depend on which
invocations raise. -/
theorem c14_callback_failure_irrelevant (R : Int → Bool) (cfg : Cfg α) (f : Nat → Bool)
    (ev : List (Nat × In α)) :
    (run R { cfg with cbRaises := f } ev).outcome = (run R cfg ev).outcome
    ∧ (run R { cfg with cbRaises := f } ev).time = (run R cfg ev).time
    ∧ (run R { cfg with cbRaises := f } ev).callbacks = (run R cfg ev).callbacks := by
  have key := loop_cb_irrelevant R cfg f
  simp [run, key]


/-! ## One token shared by several requests -/

/-- Requests that share one cancellation token (a group cancelled together, a retry after a
cancelled call) are cancelled request by request: EVERY request of the sequence that ends with
`CancelledError` wrote exactly one cancelled notification and every other one wrote none; a
request started at or after the instant the token fired is never sent and ends cancelled at once;
a request is cancelled only if the token had fired by its completion; none is cancelled when the
token never fires; each ends by its own deadline and within one poll period of the token firing. -/
theorem c14_shared_token (R : Int → Bool) (fire : Option Nat) (s0 : Nat)
    (reqs : List (Cfg α × Nat × List (Nat × In α))) (hopen : ∀ r ∈ reqs, r.1.writer = .open) :
    ∀ x ∈ runSeq R fire s0 reqs,
      (x.2.writes.count Write.cancelNotif = 1 ↔ x.2.outcome = .cancelled)
      ∧ x.2.writes.count Write.cancelNotif ≤ 1
      ∧ (∀ f, fire = some f → f ≤ x.1 → x.2.outcome = .cancelled ∧ Write.request ∉ x.2.writes ∧ x.2.time = 0)
      ∧ (x.2.outcome = .cancelled → ∃ f, fire = some f ∧ f ≤ x.1 + x.2.time)
      ∧ (∀ f, fire = some f → ∃ r ∈ reqs, x.1 + x.2.time ≤ max x.1 f + r.1.P) := by
  induction reqs generalizing s0 with
  | nil => simp [runSeq]
  | cons r rest ih =>
    obtain ⟨cfg, gap, ev⟩ := r
    intro x hx
    simp only [runSeq, List.mem_cons] at hx
    rcases hx with rfl | hx
    · dsimp only
      have hwo : (withToken cfg fire s0).writer = .open := by
        have := hopen (cfg, gap, ev) List.mem_cons_self
        unfold withToken; split <;> (try split) <;> simpa using this
      refine ⟨(c14_one_cancel_notification R _ ev).1 (by simp [hwo]), (c14_one_cancel_notification R _ ev).2.1, ?_, ?_, ?_⟩
      · intro f hf hle
        subst hf
        have hp : (withToken cfg (some f) s0).preCancelled = true := by simp [withToken, hle]
        have h := c14_cancel_before_send_writes_no_request R _ ev hp
        refine ⟨h.2, h.1, ?_⟩
        simp [run, hp]
      · intro hc
        rcases c14_cancelled_only_if_fired R _ ev hc with hp | ⟨c, h1, h2⟩
        · cases fire with
          | none => simp [withToken] at hp
          | some f =>
            by_cases hle : f ≤ s0
            · exact ⟨f, rfl, by omega⟩
            · simp [withToken, hle] at hp
        · cases fire with
          | none => simp [withToken] at h1
          | some f =>
            by_cases hle : f ≤ s0
            · exact ⟨f, rfl, by omega⟩
            · simp [withToken, hle] at h1
              exact ⟨f, rfl, by omega⟩
      · intro f hf
        subst hf
        refine ⟨(cfg, gap, ev), List.mem_cons_self, ?_⟩
        show _ ≤ _ + cfg.P
        by_cases hle : f ≤ s0
        · have hp : (withToken cfg (some f) s0).preCancelled = true := by simp [withToken, hle]
          have : (run R (withToken cfg (some f) s0) ev).time = 0 := by simp [run, hp]
          omega
        · have hc : (withToken cfg (some f) s0).cancelAt = some (f - s0) := by simp [withToken, hle]
          have := c14_cancel_latency R _ ev _ hc (by simp [hwo, Writer.prompt])
          have hP : (withToken cfg (some f) s0).P = cfg.P := by simp [withToken, hle]
          omega
    · obtain ⟨h1, h2, h3, h4, h5⟩ := ih _ (fun r hr => hopen r (List.mem_cons_of_mem _ hr)) x hx
      refine ⟨h1, h2, h3, h4, ?_⟩
      intro f hf
      obtain ⟨r, hr, hle⟩ := h5 f hf
      exact ⟨r, List.mem_cons_of_mem _ hr, hle⟩

/-- the starts are what sequential execution gives: each request starts when the previous one has
ended, plus the idle time in between -/
theorem c14_shared_token_starts (R : Int → Bool) (fire : Option Nat) (s0 : Nat)
    (cfg : Cfg α) (gap : Nat) (ev : List (Nat × In α)) (rest : List (Cfg α × Nat × List (Nat × In α))) :
    runSeq R fire s0 ((cfg, gap, ev) :: rest)
      = (s0, run R (withToken cfg fire s0) ev)
        :: runSeq R fire (s0 + (run R (withToken cfg fire s0) ev).time + gap) rest := rfl

/-! ## The cancellation token itself (`CancellationToken`) -/
section Token
open Verif.Model.Token

/-- The flag only ever goes up: after any sequence of operations the token is cancelled iff it was
before or some `cancel()` was among them — in particular, once `is_cancelled` has answered true
it answers true for ever (what "`CancelledError` only if the token fired" rests on), and
registering callbacks or querying never cancels. -/
theorem c14_token_flag (r : Nat → Bool) (t : Tok) (ops : List Op) :
    ((run r t ops).1.cancelled = true ↔ (t.cancelled = true ∨ Op.cancel ∈ ops))
    ∧ (∀ more, (run r t ops).1.cancelled = true → (run r t (ops ++ more)).1.cancelled = true) := by
  refine ⟨run_cancelled r t ops, ?_⟩
  intro more h
  rw [run_append]
  exact (run_cancelled r _ more).mpr (Or.inl h)

/-- `cancel()` never raises, whatever the callbacks do, and calls exactly the callbacks registered
so far, each once, in registration order; `add_callback` on a cancelled token calls the new
callback (only it) at once, and that call's exception is the only one that can reach a caller. -/
theorem c14_token_callbacks (r : Nat → Bool) (t : Tok) (ops : List Op) :
    (step r (run r t ops).1 .cancel).2.raised = false
    ∧ (step r (run r t ops).1 .cancel).2.invoked = t.cbs ++ added ops
    ∧ (∀ i, (step r (run r t ops).1 (.add i)).2.invoked
          = if (run r t ops).1.cancelled then [i] else [])
    ∧ (∀ i, (step r (run r t ops).1 (.add i)).2.raised = true →
          (run r t ops).1.cancelled = true ∧ r i = true) := by
  refine ⟨rfl, ?_, ?_, ?_⟩
  · simp [step, run_cbs]
  · intro i; simp only [step]; split <;> simp_all
  · intro i; simp only [step]; split <;> simp_all

theorem token_run_length (r : Nat → Bool) (t : Tok) (ops : List Op) : (run r t ops).2.length = ops.length := by
  induction ops generalizing t with
  | nil => simp [Model.Token.run]
  | cons op ops ih => simp [Model.Token.run, ih]

/-- **Every answer of the token is a function of what happened before it.**  In any history, what
an operation returns (the callbacks it invoked, whether it raised, the flag it reported) is what
that operation does to the token the PREFIX produced — nothing that happens later changes it; an
`is_cancelled` query answers true iff the token started cancelled or a `cancel()` precedes it; and
queries are pure: deleting all of them from a history leaves the final token unchanged. -/
theorem c14_token_history (r : Nat → Bool) (t : Tok) (pre post : List Op) (op : Op) :
    (run r t (pre ++ op :: post)).2[pre.length]? = some (step r (run r t pre).1 op).2
    ∧ (step r (run r t pre).1 .query).2.answer = some (t.cancelled || decide (Op.cancel ∈ pre))
    ∧ (run r t ((pre ++ op :: post).filter (· ≠ .query))).1 = (run r t (pre ++ op :: post)).1 := by
  refine ⟨?_, ?_, ?_⟩
  · rw [run_append]
    simp only
    rw [List.getElem?_append_right (by simp [token_run_length])]
    simp [token_run_length, Model.Token.run]
  · have := run_cancelled r t pre
    simp only [step]
    cases h : (run r t pre).1.cancelled
    · have h' : ¬ (t.cancelled = true ∨ Op.cancel ∈ pre) := by rw [← this]; simp [h]
      simp only [not_or] at h'
      simp [h']
    · have h' := this.mp h
      rcases h' with h' | h' <;> simp [h']
  · generalize pre ++ op :: post = ops
    have hrun : ∀ (t : Tok) (o : Op) (ops : List Op),
        (Model.Token.run r t (o :: ops)).1 = (Model.Token.run r (step r t o).1 ops).1 := by
      intro t o ops; simp [Model.Token.run]
    induction ops generalizing t with
    | nil => rfl
    | cons o ops ih =>
      cases o with
      | query =>
        have hf : (Op.query :: ops).filter (· ≠ .query) = ops.filter (· ≠ .query) := by simp
        rw [hf, hrun]; exact ih t
      | cancel =>
        have hf : (Op.cancel :: ops).filter (· ≠ .query) = Op.cancel :: ops.filter (· ≠ .query) := by simp
        rw [hf, hrun, hrun]; exact ih _
      | add i =>
        have hf : (Op.add i :: ops).filter (· ≠ .query) = Op.add i :: ops.filter (· ≠ .query) := by simp
        rw [hf, hrun, hrun]; exact ih _

example : (run (fun i => i == 2) {} [.add 1, .query, .cancel, .add 2, .cancel, .query]).2
    = [{}, { answer := some false }, { invoked := [1] }, { invoked := [2], raised := true },
       { invoked := [1, 2] }, { answer := some true }] := by decide

end Token

/-! Non-vacuity -/
def exCfg : Cfg Nat :=
  { reqId := .str "r1", D := 4096, P := Verif.Gen.Timing.pollMs, hP := by decide, preCancelled := false,
    cancelAt := some 700, token := some (.str "tok"), zero := 0, eventsFirst := true,
    cbRaises := fun k => k == 0 }

def exObs : Obs Nat := run (fun _ => true) exCfg
  [(10, .progress (some (.str "tok")) (some 1) none none), (20, .progress (some (.str "zz")) (some 2) none none),
   (600, .notif "x")]

example : exObs.outcome = .cancelled ∧ exObs.time = 1100 ∧ exObs.callbacks = [(1, none, none)]
    ∧ exObs.writes = [.request, .cancelNotif] := by
  simp [exObs, exCfg, run, loop, onCancel, cancelVisible, arrivesInTime, classify, Verif.Gen.Timing.pollMs]

/-- three requests on one token firing at tick 700: the first is cancelled while waiting (one
notification), the second and third are never sent (one notification each) -/
example : (runSeq (fun _ => true) (some 700) 0
      [({ exCfg with cancelAt := none }, 5, []), ({ exCfg with cancelAt := none }, 0, []),
       ({ exCfg with cancelAt := none }, 0, [])]).map
        (fun x => (x.1, x.2.time, x.2.writes))
    = [(0, 1000, [.request, .cancelNotif]), (1005, 0, [.cancelNotif]), (1005, 0, [.cancelNotif])] := by
  simp [runSeq, withToken, exCfg, run, loop, onCancel, cancelVisible, Verif.Gen.Timing.pollMs]

/-- the same call against a peer that has stopped reading: the cancelled notification cannot be
written, the deadline ends the call (the hypotheses of `c14_blocked_writer` are satisfiable) -/
example : (run (fun _ => true) { exCfg with writer := .blocked } []).outcome = .timedOut
    ∧ (run (fun _ => true) { exCfg with writer := .blocked } []).time = 4096
    ∧ (run (fun _ => true) { exCfg with writer := .closed } []).outcome = .cancelled
    ∧ (run (fun _ => true) { exCfg with writer := .closed } []).writes = [.request] := by
  simp [exCfg, run, loop, onCancel, cancelVisible, Verif.Gen.Timing.pollMs]

/-- the peer reads again at tick 1500 (before the deadline): cancelled then, one notification;
at tick 5000 (after the deadline 4096): timeout at the deadline, none -/
example : (run (fun _ => true) { exCfg with writer := .stalledUntil 1500 } []).outcome = .cancelled
    ∧ (run (fun _ => true) { exCfg with writer := .stalledUntil 1500 } []).time = 1500
    ∧ (run (fun _ => true) { exCfg with writer := .stalledUntil 1500 } []).writes = [.request, .cancelNotif]
    ∧ (run (fun _ => true) { exCfg with writer := .stalledUntil 5000 } []).outcome = .timedOut := by
  simp [exCfg, run, loop, onCancel, cancelVisible, Verif.Gen.Timing.pollMs]

/-! ## The high-level client: a call is bounded by the two timeouts it runs under -/
open Verif.Model.ClientApi in
/-- Whatever arrives on the connection (and whatever earlier calls left in the stream), a call of
`MCPClient` ends no later than the `initialize` timeout plus its own request's timeout after it
started — the request's timeout alone once the client is initialized; the `initialize` request and
the call's own request each respect their deadline. -/
theorem c14_client_call_bounded (R : Int → Bool) (okInit : α → Bool) (b : Bool) (start used : Nat)
    (ev : List (Nat × In α)) (calls : List (Call α)) :
    ∀ x ∈ (clientSeq R okInit b start used ev calls).zip calls,
      (∀ oi, x.1.init = some oi → oi.time ≤ x.2.init.D)
      ∧ (∀ s u o, x.1.req = some (s, u, o) → o.time ≤ x.2.req.D
          ∧ s + o.time ≤ x.1.start + (if x.1.init.isSome then x.2.init.D else 0) + x.2.req.D) := by
  induction calls generalizing b start used with
  | nil => simp [clientSeq]
  | cons c rest ih =>
    intro x hx
    cases b with
    | true =>
      simp only [clientSeq, List.zip_cons_cons, List.mem_cons] at hx
      rcases hx with rfl | hx
      · refine ⟨by simp, ?_⟩
        intro s u o h
        simp only [Option.some.injEq, Prod.mk.injEq] at h
        obtain ⟨rfl, rfl, rfl⟩ := h
        have := c14_deadline R c.req (shift start (ev.drop used))
        simp; omega
      · exact ih _ _ _ x hx
    | false =>
      simp only [clientSeq] at hx
      split at hx
      · simp only [List.zip_cons_cons, List.mem_cons] at hx
        rcases hx with rfl | hx
        · have h1 := c14_deadline R c.init (shift start (ev.drop used))
          refine ⟨by intro oi h; simp at h; subst h; exact h1, ?_⟩
          intro s u o h
          simp only [Option.some.injEq, Prod.mk.injEq] at h
          obtain ⟨rfl, rfl, rfl⟩ := h
          have h2 := c14_deadline R c.req (shift (start + (run R c.init (shift start (ev.drop used))).time)
            (ev.drop (used + (run R c.init (shift start (ev.drop used))).consumed)))
          simp; omega
        · exact ih _ _ _ x hx
      · simp only [List.zip_cons_cons, List.mem_cons] at hx
        rcases hx with rfl | hx
        · have h1 := c14_deadline R c.init (shift start (ev.drop used))
          exact ⟨by intro oi h; simp at h; subst h; exact h1, by simp⟩
        · exact ih _ _ _ x hx

/-! ## Progress callbacks that take time (`Model/AwaitSlow.lean`) -/
open Verif.Model.AwaitSlow in
/-- The deadline holds however long the caller's progress callbacks take: a request whose callback is
still running when the deadline passes ends AT the deadline. -/
theorem c14_deadline_slow_callbacks (R : Int → Bool) (cfg : Cfg α) (dur : Nat → Nat)
    (ev : List (Nat × In α)) : (runD R cfg dur ev).time ≤ cfg.D := by
  unfold runD
  split
  · simp
  · exact loopD_time_le_deadline R cfg dur 0 ev _ _ _

open Verif.Model.AwaitSlow in
/-- ... and the callback is never invoked more often than there are matching progress
notifications in the history (nothing invented, nothing reported twice), whatever the durations. -/
theorem c14_slow_callbacks_nothing_invented (R : Int → Bool) (cfg : Cfg α) (dur : Nat → Nat)
    (ev : List (Nat × In α)) :
    (runD R cfg dur ev).callbacks.length
      ≤ (ev.filter (fun x => isProgress cfg x.2)).length := by
  unfold runD
  split
  · simp
  · obtain ⟨more, h1, h2⟩ := loopD_callbacks_prefix R cfg dur 0 ev [.request] [] 0
    rw [h1]; simpa using h2

open Verif.Model.AwaitSlow in
/-- The model with callback durations refines the model the other theorems are about: with
instantaneous callbacks the two coincide on every history. -/
theorem c14_slow_model_refines (R : Int → Bool) (cfg : Cfg α) (ev : List (Nat × In α)) :
    runD R cfg (fun _ => 0) ev = run R cfg ev := by
  unfold runD run
  split
  · rfl
  · exact loopD_zero R cfg 0 ev _ _ _

end Verif.Props.C14
