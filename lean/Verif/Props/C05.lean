import Verif.Lemmas.StdioIn
import Verif.Lemmas.StdioCodec
import Verif.Lemmas.StdioRoute

/-! # C05 — stdio inbound framing is independent of how the byte stream is chunked

Model: `Verif.Model.StdioIn` (incremental UTF-8 decoder + split-on-LF buffer + `strip` + per-line
processing with the parser as a PARAMETER `cfg.parse`).  All theorems hold for every parser, every
text (any length), every way of cutting the encoded byte stream into any number of chunks
(`chunks.flatten = encode text` — cuts inside characters and inside CRLF included, empty chunks
too).  Bytes and code points are natural numbers; `ValidText` = every code point is a Unicode
scalar value (the stream is valid UTF-8).
-/
set_option linter.unusedVariables false
set_option linter.unusedSimpArgs false
namespace Verif.Props.C05
open Verif.Model.StdioIn Verif.Lemmas.StdioIn
variable {μ : Type}

/-- what one written line contributes to the read stream -/
def accepted (cfg : Cfg μ) (it : Item) : List μ := delivered (processLine cfg true it.text)

/-- the single message of a well-formed line, `none` for a line that is blank, not JSON, or not a
message -/
def good (cfg : Cfg μ) (it : Item) : Option μ :=
  if strip it.text = [] then none
  else match cfg.parse (strip it.text) with
    | .single m => some m
    | _ => none

/-- The reader's whole output (read stream, notification offers, write-backs, in order) is the
per-line processing of the LF-separated lines of the decoded text — whatever the chunking. -/
theorem c05_reader_is_line_map (cfg : Cfg μ) (text : List Nat) (chunks : List (List Nat))
    (hs : ValidText text) (hc : chunks.flatten = encode text) :
    (runChunks cfg init chunks).2 = (split LF text).1.flatMap (processLine cfg true)
    ∧ (runChunks cfg init chunks).1.alive = true := by
  have h := runChunks_valid cfg true text chunks hs hc
  have hi : ({ init with batching := true } : St) = init := by simp [init, Verif.Model.Batching.supportsBatching]
  rw [hi] at h
  rw [h]; simp [init]

/-- **Chunk independence.**  Any two ways of cutting the same valid UTF-8 stream into reads —
any number of chunks, cuts anywhere, inside multi-byte characters and inside CRLF — give the same
outputs and leave the reader in the same state. -/
theorem c05_chunk_independent (cfg : Cfg μ) (text : List Nat) (c₁ c₂ : List (List Nat))
    (hs : ValidText text) (h₁ : c₁.flatten = encode text) (h₂ : c₂.flatten = encode text) :
    runChunks cfg init c₁ = runChunks cfg init c₂ := by
  have hi : ({ init with batching := true } : St) = init := by simp [init, Verif.Model.Batching.supportsBatching]
  have a := runChunks_valid cfg true text c₁ hs h₁
  have b := runChunks_valid cfg true text c₂ hs h₂
  rw [hi] at a b
  rw [a, b]

/-- … in particular equal to the single read of the whole stream. -/
theorem c05_chunks_eq_whole (cfg : Cfg μ) (text : List Nat) (chunks : List (List Nat))
    (hs : ValidText text) (hc : chunks.flatten = encode text) :
    runChunks cfg init chunks = runChunks cfg init [encode text] :=
  c05_chunk_independent cfg text chunks [encode text] hs hc (by simp)

/-- **Exactly the good lines, in order.**  For every sequence of written lines (LF or CRLF
terminated, messages and junk mixed, text over all of Unicode except a raw LF) and every chunking
of the encoded stream, the read stream carries exactly what each line contributes, in order. -/
theorem c05_delivers_good_lines (cfg : Cfg μ) (items : List Item) (chunks : List (List Nat))
    (hi : ∀ it ∈ items, ValidItem it) (hc : chunks.flatten = encode (render items)) :
    delivered (runChunks cfg init chunks).2 = items.flatMap (accepted cfg) := by
  rw [(c05_reader_is_line_map cfg (render items) chunks (validText_render items hi) hc).1,
    split_render items (fun it h => (hi it h).2), delivered_flatMap]
  simp only [List.flatMap_map, processLine_lineOf]
  rfl

/-- a well-formed message line contributes exactly its message … -/
theorem c05_accepted_message (cfg : Cfg μ) (it : Item) (m : μ) (h : good cfg it = some m) :
    accepted cfg it = [m] := by
  unfold good at h
  unfold accepted processLine
  simp only
  split at h
  · simp at h
  · rename_i hne
    simp only [hne, if_false]
    split at h <;> simp_all [route_delivered]

/-- … a blank line, a line that is not JSON or not a message contributes nothing … -/
theorem c05_accepted_junk (cfg : Cfg μ) (it : Item)
    (h : strip it.text = [] ∨ cfg.parse (strip it.text) = .junk) : accepted cfg it = [] := by
  unfold accepted processLine
  rcases h with h | h
  · simp [h, delivered]
  · by_cases he : strip it.text = []
    · simp [he, delivered]
    · simp [he, h, delivered]

/-- … so when no line is a JSON array the read stream is the `filterMap` of the written lines. -/
theorem c05_good_lines_filterMap (cfg : Cfg μ) (items : List Item) (chunks : List (List Nat))
    (hi : ∀ it ∈ items, ValidItem it) (hc : chunks.flatten = encode (render items))
    (hnb : ∀ it ∈ items, ∀ ms, cfg.parse (strip it.text) ≠ .batch ms) :
    delivered (runChunks cfg init chunks).2 = items.filterMap (good cfg) := by
  rw [c05_delivers_good_lines cfg items chunks hi hc]
  clear hc hi
  induction items with
  | nil => rfl
  | cons it rest ih =>
    have ih' := ih (fun x hx => hnb x (by simp [hx]))
    have hb := hnb it (by simp)
    simp only [List.flatMap_cons, List.filterMap_cons, ih']
    cases hg : good cfg it with
    | some m => rw [c05_accepted_message cfg it m hg]; rfl
    | none =>
      have : accepted cfg it = [] := by
        apply c05_accepted_junk
        unfold good at hg
        by_cases he : strip it.text = []
        · exact Or.inl he
        · right
          simp only [he, if_false] at hg
          cases hp : cfg.parse (strip it.text) with
          | junk => rfl
          | single m => simp [hp] at hg
          | batch ms => exact absurd hp (hb ms)
      rw [this]; rfl

/-- **A bad line is dropped alone.**  Inserting a line that is blank / not JSON / not a message
anywhere into a stream changes nothing of what the reader does (read stream, notification
offers, write-backs), for every chunking of either stream, and the reader is still alive. -/
theorem c05_bad_line_isolated (cfg : Cfg μ) (a b : List Item) (bad : Item) (c₁ c₂ : List (List Nat))
    (ha : ∀ it ∈ a, ValidItem it) (hb : ∀ it ∈ b, ValidItem it) (hbad : ValidItem bad)
    (hj : strip bad.text = [] ∨ cfg.parse (strip bad.text) = .junk)
    (h₁ : c₁.flatten = encode (render (a ++ bad :: b))) (h₂ : c₂.flatten = encode (render (a ++ b))) :
    (runChunks cfg init c₁).2 = (runChunks cfg init c₂).2 ∧ (runChunks cfg init c₁).1.alive = true := by
  have hall1 : ∀ it ∈ a ++ bad :: b, ValidItem it := by
    intro it h; simp only [List.mem_append, List.mem_cons] at h
    rcases h with h | h | h
    · exact ha it h
    · exact h ▸ hbad
    · exact hb it h
  have hall2 : ∀ it ∈ a ++ b, ValidItem it := by
    intro it h; simp only [List.mem_append] at h
    rcases h with h | h
    · exact ha it h
    · exact hb it h
  have r1 := c05_reader_is_line_map cfg _ c₁ (validText_render _ hall1) h₁
  have r2 := c05_reader_is_line_map cfg _ c₂ (validText_render _ hall2) h₂
  refine ⟨?_, r1.2⟩
  rw [r1.1, r2.1, split_render _ (fun it h => (hall1 it h).2), split_render _ (fun it h => (hall2 it h).2)]
  have hz : processLine cfg true (lineOf bad) = [] := by
    rw [processLine_lineOf]
    unfold processLine
    rcases hj with h | h
    · simp [h]
    · by_cases he : strip bad.text = []
      · simp [he]
      · simp [he, h]
  simp [List.flatMap_append, List.flatMap_cons, hz]

/-- **Notifications are additionally offered.**  What the reader offers on the notification stream
is exactly the id-less part of the read stream, in order; an unread notification stream of
capacity `cap` holds the first `cap` of them (`send_nowait`, a full buffer drops the offer). -/
theorem c05_notifications_offered (cfg : Cfg μ) (text : List Nat) (chunks : List (List Nat)) (cap : Nat)
    (hs : ValidText text) (hc : chunks.flatten = encode text) :
    offered (runChunks cfg init chunks).2 = (delivered (runChunks cfg init chunks).2).filter cfg.isNotif
    ∧ notifBuffer cap (runChunks cfg init chunks).2
        = ((delivered (runChunks cfg init chunks).2).filter cfg.isNotif).take cap := by
  have h := (c05_reader_is_line_map cfg text chunks hs hc).1
  have := lines_offered cfg true (split LF text).1
  constructor
  · rw [h]; exact this
  · unfold notifBuffer; rw [h, this]

/-- **Only a raw LF separates.**  A line whose text contains CR, U+0085, U+2028, U+2029, VT, FF,
FS/GS/RS or the two characters `\` `n` (anything but a raw LF) is seen as ONE line, for every
chunking. -/
theorem c05_only_lf_separates (cfg : Cfg μ) (text : List Nat) (chunks : List (List Nat))
    (hs : ValidText text) (hn : LF ∉ text) (hc : chunks.flatten = encode (text ++ [LF])) :
    (runChunks cfg init chunks).2 = processLine cfg true text := by
  have hv : ValidText (text ++ [LF]) := by
    intro c h; simp only [List.mem_append, List.mem_singleton] at h
    rcases h with h | h
    · exact hs c h
    · subst h; decide
  rw [(c05_reader_is_line_map cfg _ chunks hv hc).1, split_line LF text [] hn]
  simp [split]

/-! ## The parser parameter instantiated with the library's real codec

`realStdio` (`Model/Carrier.lean`) is the reader's real line parser: `Json.dec` (the RFC 8259
decoder of C17) followed by `Rpc.parseMsg` (`parse_message`, C02), per member for an array.  The
line a child writes for a message `m` built by the library's constructors is `Json.enc st (Rpc.emit m)`
in ANY encoder style (compact or spaced separators, raw UTF-8 or `ensure_ascii`), optionally with
blanks (spaces, tabs) around it, terminated by LF or CRLF.  (`c15_real_codec_stdio_good` in
`Props/C15.lean` is the unpadded case; it cannot be cited here because C15 imports this file.) -/
section realCodec
open Verif.Model.Json Verif.Model.Rpc Verif.Model.Carrier Verif.Lemmas.StdioCodec

/-- the line for `m`: blanks, the encoded wire object, blanks -/
def wireItem (st : Style) (m : Msg) (pre post : List Nat) (crlf : Bool) : Item :=
  ⟨pre ++ codes (enc st (emit m)) ++ post, crlf⟩

/-- **A real message line is good and contributes exactly its message.**  For every message built
by the library's constructors, every encoder style, any blanks around the text, LF or CRLF: the
real parser accepts the line and the read stream gets exactly `view m` (same kind, id with its JSON
type, method, params, result, error). -/
theorem c05_real_codec_line (st : Style) (m : Msg) (pre post : List Nat) (crlf : Bool)
    (hb : Built m) (hw : wfMsg m = true) (hpre : Blank pre) (hpost : Blank post) :
    good realStdio (wireItem st m pre post crlf) = some (view m)
    ∧ accepted realStdio (wireItem st m pre post crlf) = [view m]
    ∧ ValidItem (wireItem st m pre post crlf) := by
  obtain ⟨hc, hp⟩ := real_stdio_decodes st m hb hw
  obtain ⟨h1, h2⟩ := strip_padded _ pre post hc hpre hpost
  have hg : good realStdio (wireItem st m pre post crlf) = some (view m) := by
    simp only [rpcWire] at hp h1 h2 hc
    simp only [good, wireItem, h1, h2, hp, if_false]
  refine ⟨hg, c05_accepted_message _ _ _ hg, ?_, ?_⟩
  · intro c hcm
    simp only [wireItem, List.mem_append] at hcm
    rcases hcm with (hcm | hcm) | hcm
    · exact (blank_valid pre hpre).1 c hcm
    · exact validText_codes _ c hcm
    · exact (blank_valid post hpost).1 c hcm
  · intro hcm
    simp only [wireItem, List.mem_append] at hcm
    rcases hcm with (hcm | hcm) | hcm
    · exact (blank_valid pre hpre).2 hcm
    · exact lf_notin_codes _ hc.1 hcm
    · exact (blank_valid post hpost).2 hcm

/-- **The whole stream with the real codec.**  A child that writes, for each message of a list,
such a line (style, blanks and terminator chosen freely per line), with junk lines (blank / not
JSON / not a message for the real parser) anywhere between them: for every chunking of the byte
stream the read stream is exactly the messages, in order. -/
theorem c05_real_codec_stream (lines : List (Item ⊕ (Style × Msg × List Nat × List Nat × Bool)))
    (chunks : List (List Nat))
    (hjunk : ∀ it, Sum.inl it ∈ lines → ValidItem it ∧ good realStdio it = none
      ∧ ∀ ms, realStdio.parse (strip it.text) ≠ .batch ms)
    (hmsg : ∀ st m pre post crlf, Sum.inr (st, m, pre, post, crlf) ∈ lines →
      Built m ∧ wfMsg m = true ∧ Blank pre ∧ Blank post)
    (hc : chunks.flatten = encode (render (lines.map (fun l => match l with
      | .inl it => it
      | .inr (st, m, pre, post, crlf) => wireItem st m pre post crlf)))) :
    delivered (runChunks realStdio init chunks).2
      = lines.filterMap (fun l => match l with | .inl _ => none | .inr (_, m, _, _, _) => some (view m)) := by
  rw [c05_delivers_good_lines realStdio _ chunks ?_ hc]
  · clear hc
    induction lines with
    | nil => rfl
    | cons l rest ih =>
      have ih' := ih (fun it h => hjunk it (by simp [h])) (fun st m pre post crlf h => hmsg st m pre post crlf (by simp [h]))
      cases l with
      | inl it =>
        obtain ⟨_, hg, hnb⟩ := hjunk it (by simp)
        have : accepted realStdio it = [] := by
          apply c05_accepted_junk
          unfold good at hg
          by_cases he : strip it.text = []
          · exact Or.inl he
          · right
            simp only [he, if_false] at hg
            cases hp : realStdio.parse (strip it.text) with
            | junk => rfl
            | single m => simp [hp] at hg
            | batch ms => exact absurd hp (hnb ms)
        simp only [List.map_cons, List.flatMap_cons, List.filterMap_cons, this, List.nil_append]
        exact ih'
      | inr q =>
        obtain ⟨st, m, pre, post, crlf⟩ := q
        obtain ⟨hb, hw, h1, h2⟩ := hmsg st m pre post crlf (by simp)
        have := (c05_real_codec_line st m pre post crlf hb hw h1 h2).2.1
        simp only [List.map_cons, List.flatMap_cons, List.filterMap_cons, this]
        rw [ih']; rfl
  · intro it hit
    simp only [List.mem_map] at hit
    obtain ⟨l, hl, rfl⟩ := hit
    cases l with
    | inl it => exact (hjunk it hl).1
    | inr q =>
      obtain ⟨st, m, pre, post, crlf⟩ := q
      obtain ⟨hb, hw, h1, h2⟩ := hmsg st m pre post crlf hl
      exact (c05_real_codec_line st m pre post crlf hb hw h1 h2).2.2

/-! Non-vacuity: a request with a nested null and a non-ASCII method, stdlib style, blanks, CRLF. -/
example : ∃ m, Built m ∧ wfMsg m = true ∧
    good realStdio (wireItem stdStyle m [32, 9] [32] true) = some (view m) ∧ (view m).id = some (.int 7) := by
  refine ⟨.request (.int 7) ['é'] (some [(['a'], .null)]), ?_, rfl, ?_, rfl⟩
  · exact .createRequest (method := ['é']) (params := some [(['a'], .null)]) (id := some (.int 7)) (fresh := []) (tok := none) rfl
  · exact (c05_real_codec_line stdStyle _ [32, 9] [32] true
      (.createRequest (method := ['é']) (params := some [(['a'], .null)]) (id := some (.int 7)) (fresh := []) (tok := none) rfl)
      rfl (by intro c h; simp at h; omega) (by intro c h; simp at h; omega)).1

end realCodec

/-! ## The routing layer: which stream(s) every decoded message goes to

`Model/StdioRoute.lean` puts the table of registered per-request streams (`new_request_stream`,
`_pending`, keyed by `str(id)`) next to the reader: `routeP` is `_route_message` as a pure function of
the message and the table; `runP` is the reader with `register` events.  `rc : RCfg μ` is any parser
with any key function. -/
section routing
open Verif.Model.StdioRoute Verif.Lemmas.StdioRoute

/-- **One message, every stream at most once, the main stream exactly once.**  Whatever is registered:
the message goes to the main stream exactly once; to the notification stream exactly once when it
has no id and never otherwise; to the per-request stream `k` exactly once when its key is `k` and `k`
is registered, never otherwise — and that registration is consumed. -/
theorem c05_route_each_message (rc : RCfg μ) (pend : List Key) (m : μ) :
    mainOf (routeP rc pend m).1 = [m]
    ∧ notifOf (routeP rc pend m).1 = (if (rc.key m).isNone then [m] else [])
    ∧ (∀ k, requestOf k (routeP rc pend m).1 = if rc.key m = some k ∧ k ∈ pend then [m] else [])
    ∧ (∀ k, rc.key m = some k → k ∉ (routeP rc pend m).2)
    ∧ (∀ k, rc.key m ≠ some k → (k ∈ (routeP rc pend m).2 ↔ k ∈ pend)) := by
  refine ⟨mainOf_routeP rc pend m, notifOf_routeP rc pend m, requestOf_routeP rc pend m, ?_, ?_⟩
  · intro k hk
    rw [pend_routeP, hk]
    exact not_mem_remove k pend
  · intro k hk
    rw [pend_routeP]
    cases h : rc.key m with
    | none => rfl
    | some k' =>
      have : k ≠ k' := fun e => hk (by rw [h, e])
      exact mem_remove_ne k k' pend this

/-- **Refinement.**  Forgetting the per-request streams gives exactly the reader of the theorems
above, for every event history (reads, version changes, registrations at any time): same reader
state, same main stream, same notification offers, same write-backs.  So chunk independence,
exactly-the-good-lines and bad-line isolation hold whatever per-request streams exist. -/
theorem c05_route_refines (rc : RCfg μ) (s : RSt) (evs : List REv) :
    (runP rc s evs).1.st = (run rc.toCfg s.st (evs.filterMap REv.toEv)).1
    ∧ (runP rc s evs).2.filterMap erase = (run rc.toCfg s.st (evs.filterMap REv.toEv)).2
    ∧ mainOf (runP rc s evs).2 = delivered (run rc.toCfg s.st (evs.filterMap REv.toEv)).2
    ∧ notifOf (runP rc s evs).2 = offered (run rc.toCfg s.st (evs.filterMap REv.toEv)).2 := by
  obtain ⟨h1, h2⟩ := run_erase rc evs s
  refine ⟨h1, h2, ?_, ?_⟩
  · rw [← h2, mainOf_erase]
  · rw [← h2, notifOf_erase]

/-- **Every stream is a function of the main stream.**  For a history of reads and version changes
(the registrations made beforehand are the table `s.pend`), with `M` the main stream:
the notification stream is offered exactly the id-less messages of `M`, in order; the per-request
stream `k` receives the FIRST message of `M` whose key is `k` if `k` was registered and nothing
otherwise — never two messages; routing drops nothing (`M` itself is what `c05_delivers_good_lines`
says it is). -/
theorem c05_route_streams (rc : RCfg μ) (s : RSt) (evs : List REv) (h : evs.all noRegister = true) :
    notifOf (runP rc s evs).2 = (mainOf (runP rc s evs).2).filter (fun m => (rc.key m).isNone)
    ∧ (∀ k, requestOf k (runP rc s evs).2 =
        if k ∈ s.pend then ((mainOf (runP rc s evs).2).find? (fun m => decide (rc.key m = some k))).toList else [])
    ∧ (∀ k, (requestOf k (runP rc s evs).2).length ≤ 1) := by
  obtain ⟨hr, hn, _⟩ := routed_run rc evs h s
  have hreq : ∀ k, requestOf k (runP rc s evs).2 =
      if k ∈ s.pend then ((mainOf (runP rc s evs).2).find? (fun m => decide (rc.key m = some k))).toList else [] := by
    intro k; rw [hr k, requestOf_routeSeq]
  refine ⟨by rw [hn, notifOf_routeSeq], hreq, ?_⟩
  intro k
  rw [hreq k]
  split
  · cases ((mainOf (runP rc s evs).2).find? _) <;> simp
  · simp

/-- **Chunk independence of the whole routing layer**: two chunkings of the same valid stream give the
same main stream, the same notification offers, the same content of every per-request stream and
leave the same registrations. -/
theorem c05_route_chunk_independent (rc : RCfg μ) (pend : List Key) (text : List Nat) (c₁ c₂ : List (List Nat))
    (hs : ValidText text) (h₁ : c₁.flatten = encode text) (h₂ : c₂.flatten = encode text) :
    mainOf (runP rc ⟨init, pend⟩ (c₁.map REv.chunk)).2 = mainOf (runP rc ⟨init, pend⟩ (c₂.map REv.chunk)).2
    ∧ notifOf (runP rc ⟨init, pend⟩ (c₁.map REv.chunk)).2 = notifOf (runP rc ⟨init, pend⟩ (c₂.map REv.chunk)).2
    ∧ (∀ k, requestOf k (runP rc ⟨init, pend⟩ (c₁.map REv.chunk)).2 = requestOf k (runP rc ⟨init, pend⟩ (c₂.map REv.chunk)).2)
    ∧ (runP rc ⟨init, pend⟩ (c₁.map REv.chunk)).1.pend = (runP rc ⟨init, pend⟩ (c₂.map REv.chunk)).1.pend := by
  have hall : ∀ c : List (List Nat), (c.map REv.chunk).all noRegister = true := by
    intro c; simp [List.all_map, noRegister, Function.comp_def]
  have hev : ∀ c : List (List Nat), (c.map REv.chunk).filterMap REv.toEv = c.map Ev.chunk := by
    intro c; induction c with
    | nil => rfl
    | cons x xs ih => simp [List.filterMap_cons, REv.toEv, ih]
  have e1 := c05_route_refines rc ⟨init, pend⟩ (c₁.map REv.chunk)
  have e2 := c05_route_refines rc ⟨init, pend⟩ (c₂.map REv.chunk)
  have hci := c05_chunk_independent rc.toCfg text c₁ c₂ hs h₁ h₂
  unfold runChunks at hci
  rw [hev] at e1 e2
  have hm : mainOf (runP rc ⟨init, pend⟩ (c₁.map REv.chunk)).2 = mainOf (runP rc ⟨init, pend⟩ (c₂.map REv.chunk)).2 := by
    rw [e1.2.2.1, e2.2.2.1, hci]
  obtain ⟨r1, n1, p1⟩ := routed_run rc _ (hall c₁) ⟨init, pend⟩
  obtain ⟨r2, n2, p2⟩ := routed_run rc _ (hall c₂) ⟨init, pend⟩
  refine ⟨hm, ?_, ?_, ?_⟩
  · rw [e1.2.2.2, e2.2.2.2, hci]
  · intro k; rw [r1 k, r2 k, hm]
  · rw [p1, p2, hm]

/-! ### … and with the library's real parser: `_process_message_data` never raises -/
section real
open Verif.Model.Json Verif.Model.Rpc Verif.Model.Carrier

/-- `realRoute` refines the real reader configuration of `c05_real_codec_line` -/
theorem c05_route_real_refines : realRoute.toCfg = realStdio := by
  unfold RCfg.toCfg realRoute realStdio
  congr 1
  funext v
  show (Option.map keyOfId v.id).isNone = v.id.isNone
  cases v.id <;> rfl

/-- **Routing never raises, for any decoded JSON value** — a number, a string, `null`, an object
without `jsonrpc`, an array with anything inside, at any nesting: every call that can raise
(`parse_message`) sits in a `try`, and the result is exactly the parametric routing of the verdicts
of the real parser (`realStdio.parse`): a rejected single value is dropped, a rejected member is
dropped alone, an array without batching is one rejection. -/
theorem c05_route_never_raises (batching : Bool) (pend : List Key) (j : Json) :
    processDataE batching pend j = .ok (match j with
      | .arr xs => if batching then routeMembers realRoute pend (xs.map (fun x => parsedOpt (parseMsg x)))
                   else ([.reject], pend)
      | j => match parseMsg j with
        | .ok v => routeP realRoute pend v
        | .error _ => ([], pend)) := by
  cases j with
  | arr xs => cases batching <;> simp [processDataE, membersE_spec]
  | null => simp only [processDataE, parseAndRoute]; cases parseMsg .null <;> rfl
  | bool b => simp only [processDataE, parseAndRoute]; cases parseMsg (.bool b) <;> rfl
  | int i => simp only [processDataE, parseAndRoute]; cases parseMsg (.int i) <;> rfl
  | flt t => simp only [processDataE, parseAndRoute]; cases parseMsg (.flt t) <;> rfl
  | str t => simp only [processDataE, parseAndRoute]; cases parseMsg (.str t) <;> rfl
  | obj o => simp only [processDataE, parseAndRoute]; cases parseMsg (.obj o) <;> rfl

end real

/-! Non-vacuity: ids 7 (registered as "7"), "7" (same key: the registration is already consumed),
an id-less message, an unregistered id. -/
def exRoute : RCfg Nat :=
  { parse := fun s => if s = [49] then .single 1 else if s = [50] then .single 2 else if s = [51] then .single 3
                      else if s = [52] then .single 4 else .junk,
    key := fun m => if m = 1 ∨ m = 2 then some ['7'] else if m = 3 then none else some ['9'] }

example : (runP exRoute ⟨init, []⟩ [.register ['7'], .chunk [49, 10, 50], .chunk [10, 51, 10, 52, 10]]).2
    = [.request ['7'] 1, .deliver 1, .deliver 2, .notify 3, .deliver 3, .deliver 4] := by decide

example : (runP exRoute ⟨init, []⟩ [.register ['7'], .chunk [49, 10, 50], .chunk [10, 51, 10, 52, 10]]).1.pend = [] := by decide

end routing

/-! ## Non-vacuity: a concrete parser, a line with é (2 bytes), U+2028 (3 bytes), U+1F600
(4 bytes) terminated by CRLF, cut inside every character and inside the CRLF -/

def exCfg : Cfg Nat :=
  { parse := fun s => if s = [123, 233, 8232, 128512, 125] then .single 7
                      else if s = [91, 93] then .batch [] else .junk,
    isNotif := fun m => m = 7 }

def exItems : List Item :=
  [⟨[123, 233, 8232, 128512, 125], true⟩, ⟨[106, 117, 110, 107, 133], false⟩, ⟨[], true⟩]

example : encode (render exItems)
    = [123, 0xC3, 0xA9, 0xE2, 0x80, 0xA8, 0xF0, 0x9F, 0x98, 0x80, 125, 13, 10, 106, 117, 110, 107, 0xC2, 0x85, 10, 13, 10] := by
  decide

example : (runChunks exCfg init [[123, 0xC3], [0xA9, 0xE2, 0x80], [0xA8, 0xF0, 0x9F, 0x98], [0x80, 125, 13],
    [10, 106, 117, 110, 107, 0xC2], [0x85, 10, 13], [10]]).2 = [.notify 7, .deliver 7] := by
  decide

example : ∀ it ∈ exItems, ValidItem it := by
  intro it h
  simp only [exItems, List.mem_cons, List.mem_nil_iff, or_false] at h
  rcases h with rfl | rfl | rfl <;> exact ⟨by intro c hc; revert c hc; decide, by decide⟩

example : exItems.filterMap (good exCfg) = [7] := by decide

/-! ## Several connections alive in one process -/

/-- **Instances are independent.**  In any history in which reads and version changes of several
live connections alternate in any order (with equal ids, equal lines, different versions …), what
connection `i` delivers, offers, writes back, and the state it ends in, are exactly those of its own
events played alone. -/
theorem c05_instances_independent (cfg : Cfg μ) (evs : List (Nat × Ev)) :
    ∀ (s : Nat → St) (i : Nat),
      ofConn i (runTagged cfg s evs).2 = (run cfg (s i) (ofConn i evs)).2
      ∧ (runTagged cfg s evs).1 i = (run cfg (s i) (ofConn i evs)).1 := by
  induction evs with
  | nil => intro s i; simp [runTagged, ofConn, run]
  | cons e es ih =>
    intro s i
    obtain ⟨j, ev⟩ := e
    have h := ih (update s j (step cfg (s j) ev).1) i
    by_cases hji : j = i
    · subst hji
      have hu : update s j (step cfg (s j) ev).1 j = (step cfg (s j) ev).1 := by simp [update]
      rw [hu] at h
      simp only [runTagged, ofConn, List.filterMap_cons, List.filterMap_append, if_true, run] at h ⊢
      refine ⟨?_, h.2⟩
      rw [h.1]
      congr 1
      induction (step cfg (s j) ev).2 with
      | nil => rfl
      | cons x xs ihx => simp [List.filterMap_cons, ihx]
    · have hij : ¬ i = j := fun e => hji e.symm
      have hu : update s j (step cfg (s j) ev).1 i = s i := by simp [update, hij]
      rw [hu] at h
      simp only [runTagged, ofConn, List.filterMap_cons, List.filterMap_append, hji, if_false] at h ⊢
      refine ⟨?_, h.2⟩
      rw [h.1]
      have : List.filterMap (fun p : Nat × Out μ => if p.1 = i then some p.2 else none)
          ((step cfg (s j) ev).2.map (fun o => (j, o))) = [] := by
        induction (step cfg (s j) ev).2 with
        | nil => rfl
        | cons x xs ihx => simp [List.filterMap_cons, hji, ihx]
      rw [this]; rfl

example : ofConn 1 (runTagged exCfg (fun _ => init)
    [(0, .setVersion (some "2025-06-18".toList)), (1, .chunk [91, 93]), (0, .chunk [91, 93, 10]), (1, .chunk [10])]).2 = []
    ∧ ofConn 0 (runTagged exCfg (fun _ => init)
    [(0, .setVersion (some "2025-06-18".toList)), (1, .chunk [91, 93]), (0, .chunk [91, 93, 10]), (1, .chunk [10])]).2 = [.reject] := by
  decide


end Verif.Props.C05
