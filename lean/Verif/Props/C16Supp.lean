import Verif.Props.C16

/-! # C16 — supplementary obligations (not stated by the property text)

The stdout drain that follows the child's death (`StdioClient._drain_stdout`, bound regenerated as
`Gen/Shutdown.lean: drainMs`) only costs time when somebody ELSE — a grandchild — keeps the dead
child's stdout open, a behaviour the property's quantifier does not list.  Built and audited on
every run like `Props/C16.lean`; a failure here is reported as INFO and in the evidence, never as a
verdict about C16 (DESIGN 9.9). -/
set_option linter.unusedSimpArgs false
namespace Verif.Props.C16
open Verif.Gen.Timing Verif.Model.Shutdown

/-- the translator located the bound of the stdout drain (or established that there is no drain) -/
theorem c16_drain_translated : Verif.Gen.Shutdown.translatable = true := by decide

/-- ... and when a grandchild holds the dead child's stdout open: still reaped, and bounded by the
two grace periods plus the drain bound. -/
theorem c16_leave_sound_held (os : OS) (p : ExitPath) (c : ChildSpec) (l : Load)
    (hkill : os.killDelay < graceKillMs) (hwait : os.waitReaps = true) :
    ∃ t, leave Design.sound os p c l = some t ∧ t.duration ≤ 2000 + Verif.Gen.Shutdown.drainMs ∧ t.child = .reaped := by
  obtain ⟨t, ht, hb⟩ := c16_leave_bounded Design.sound 0 rfl os p c l
  refine ⟨t, ht, ?_, ?_⟩
  · have := c16_grace_periods
    split at hb <;> omega
  · obtain ⟨f, hf, hle⟩ := flushPhase_le Design.sound 0 rfl p c l
    simp only [leave, hf, Option.some.injEq] at ht
    subst ht
    show (drainPhase c (finish Design.sound os p _)).child = .reaped
    rw [drain_child, finish_sound]
    exact c16_reaped os p _ hkill hwait


end Verif.Props.C16
