import Verif.Props.C01
import Verif.Gen.AwaitChain
import Verif.Gen.ClientOps

/-! # C01 — supplementary obligations (not stated by the property text)

Built and audited on every run like `Props/C01.lean`; a failure here is reported as INFO and in
the evidence, never as a verdict about C01 (DESIGN 9.9). -/
namespace Verif.Props.C01
open Verif.Model.Await
variable {α : Type}

/-! ## The loop body's decision chain, regenerated from source

`Gen/AwaitChain.lean` is produced on every run from the statements of the receive loop of
`_await_response` (what is tested, in which order, and what each branch does).  The theorem below
ties the hand-written `classify` of the model to that translation: for every message the model can
receive, the model classifies it as the translated chain does.  It is stated under the translator's
flag (a loop body outside the subset makes it hold vacuously and is reported in the evidence; the
correspondence run then still compares `classify` with the running code). -/
section Chain
open Verif.Gen.AwaitChain

/-- how the code sees a model message (`getattr(msg, …, None)`, `isinstance(msg, list)`) -/
def view : In α → View
  | .resp id _ => ⟨false, none, some id, none⟩
  | .err id _ _ => ⟨false, none, some id, none⟩
  | .req id m => ⟨false, some m, some id, none⟩
  | .notif m => ⟨false, some m, none, none⟩
  | .progress tok _ _ _ => ⟨false, some "notifications/progress", none, tok⟩
  | .batch => ⟨true, none, none, none⟩

def stepOf : Cls α → Step
  | .ret _ => .finish
  | .raise _ _ => .finish
  | .progress _ => .callback
  | .skip => .skip

macro "chain_gate " t:tacticSeq : tactic =>
  `(tactic| first | (intro h; exact absurd h (by decide)) | (intro _; ($t)))

theorem c01_chain_regenerated (cfg : Cfg α) (m : In α) : translatable = true →
    chain cfg.reqId cfg.token cfg.token.isSome (view m) = stepOf (classify cfg m) := by
  chain_gate
    cases m <;> simp only [view, classify, chain] <;> (try cases hT : cfg.token) <;> simp [stepOf]
    all_goals (try split) <;> simp_all [stepOf]

end Chain

/-! ## The shape of `MCPClient`, regenerated from source

`Model/ClientApi.clientSeq` assumes: every operation initializes lazily and then issues exactly one
request; an initialized client issues no `initialize`; a failed `initialize` leaves the client
uninitialized.  `Gen/ClientOps.lean` reads exactly these facts off `class MCPClient` on every run. -/
section ClientOps
open Verif.Gen.ClientOps

theorem c01_client_shape_regenerated : translatable = true →
    (∀ o ∈ ops, o.ensures = true ∧ o.nHelpers = 1) ∧ ops ≠ []
      ∧ ensureIsLazyInit = true ∧ initGuardFirst = true ∧ initSetsAfterAwait = true := by
  chain_gate
    decide +kernel

end ClientOps

end Verif.Props.C01
