import Verif.Props.C09

/-! # C09 — supplementary obligations (not stated by the property text)

Built and audited on every run like `Props/C09.lean`; a failure here is reported as INFO and in the
evidence, never as a verdict about C09 (DESIGN 9.9).  Here: why the hypothesis `unamb` of
`c09_conforming_identity` holds on the generated unions, that the order of the class table (import
order) is irrelevant, and what the fallback does to NON-conforming leaves (F-C09c, outside the
property). -/
set_option linter.unusedSimpArgs false
namespace Verif.Props.C09
open Verif.Model.Schema Verif.Gen.Schemas Verif.Lemmas.Schema Verif.Lemmas.SchemaGen

/-- **Every union of model classes in the table is separated.**  For every field of every discovered
class and every ordered pair (`a` tried before `b`) of model-class members of a union in its type:
`a` and `b` carry a `Literal` tag under the same wire name with disjoint constants (then
`c09_discriminated_keeps_variant` rejects a `b`-object at `a`), or `a` requires a member that `b` does
not declare (then `missing_required_rejects` rejects a `b`-object that has no unknown member of that
name: `TextResourceContents | BlobResourceContents`, which the spec does not discriminate).  This is
the syntactic reason why the hypothesis `unamb` of `c09_conforming_identity` holds on spec-valid
traffic; a union added later that is not separated breaks this theorem.  (Finite generated table.) -/
theorem c09_unions_separated :
    ∀ c ∈ classes, ∀ f ∈ c.fields, ∀ u ∈ unionsOf f.ty, ∀ p ∈ orderedPairs u, separated classes p.1 p.2 = true := by
  decide +kernel

/-- non-vacuity: the table has a union of four model classes (six ordered pairs) -/
example : ∃ c ∈ classes, ∃ f ∈ c.fields, ∃ u ∈ unionsOf f.ty, (orderedPairs u).length ≥ 6 := by decide +kernel

/-- The class ids of the generated table are pairwise distinct (lookup by id is unambiguous). -/
theorem c09_class_ids_distinct : (classes.map (·.id)).Nodup := by decide +kernel

/-- **Nothing but the class a value is validated against matters.**  The model has no other state:
for EVERY reordering of the class table (the order in which modules happen to be imported) and for
any two tables that resolve every class id alike — whatever other classes with the same Python name
they also hold — every value of every type gets the same typed value. -/
theorem c09_table_order_irrelevant (inv : String → Obj → Bool) (classes' : List Class)
    (hp : classes.Perm classes') (t : Ty) (j : Json) :
    validate (cfgOf inv) t j = validate { classes := classes', calls := fallbackCalls, inv := inv } t j :=
  validate_congr (cfg := cfgOf inv) (cfg' := { classes := classes', calls := fallbackCalls, inv := inv })
    (fun id => find?_perm_of_nodup hp c09_class_ids_distinct id) rfl rfl (sizeOf j + 1) j (by omega) t

example : classes.Perm classes.reverse := (List.reverse_perm classes).symm

/-- **Catalogue of leaf coercions** (`_deep_validate`, class branch).  Whenever the fallback accepts a
primitive value — for every primitive type and EVERY JSON value — it keeps the value or applies
exactly one of seven coercions: `str(int)`, `str(bool)`, `str(float)`, `int("digits")`, `float(bool)`,
`float("digits")`, `bool("true"/"1"/"yes"/"on"/…)`.  Nothing else can change a leaf; none of them
applies to a value that already has the JSON type of the member (F-C09c inputs are exactly the
inputs of the seven). -/
theorem c09_leaf_coercions_catalogue (t : Ty) (j : Json) (v : TVal) (h : validatePrim t j = .ok v) :
    v = .leaf j ∨ ∃ j', v = .leaf j' ∧ Coerced t j j' :=
  validatePrim_keeps_or_coerces t j v h

/-- A coerced leaf is a fixpoint: validating the coerced value again keeps it (so a value that went
through the typed view once is stable from then on). -/
theorem c09_leaf_coercion_idempotent (t : Ty) (j j' : Json) (h : validatePrim t j = .ok (.leaf j')) :
    validatePrim t j' = .ok (.leaf j') :=
  validatePrim_idempotent t j j' h

example : Coerced .int (.str "-12") (.int (-12)) ∧ Coerced .str (.int 5) (.str "5") :=
  ⟨.intOfStr _ _ (by decide), .strOfInt 5⟩

end Verif.Props.C09
