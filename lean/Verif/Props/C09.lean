import Verif.Gen.Schemas
import Verif.Lemmas.SchemaGen

/-! # C09 — Pydantic and fallback validation backends agree on all spec-valid traffic

The fallback backend (`mcp_pydantic_base.py` with `MCP_FORCE_FALLBACK=1`) is modelled in
`Model/Schema.lean`; the class table (`classes`), the hook names each backend calls
(`pydanticCalls`, `fallbackCalls`) and the flag that both backends expose the same field table
(`schemasAgree`) are REGENERATED from the package on every run by import-time introspection under
both backends (`Gen/Schemas.lean`).

What is proved here is the fallback's half of "the two backends agree": on every spec-valid wire
value the fallback accepts, types every union member as the conforming variant and re-serialises
to the specified value (the input itself plus declared defaults) — so it agrees with ANY backend
that is the identity on conforming input.  That Pydantic is such a backend is the assumption
sampled by the three-way correspondence run (Pydantic worker, fallback worker, this model).
-/
set_option linter.unusedSimpArgs false
namespace Verif.Props.C09
open Verif.Model.Schema Verif.Gen.Schemas Verif.Lemmas.Schema Verif.Lemmas.SchemaGen

/- `cfgOf inv` (Lemmas/SchemaGen.lean) is the modelled backend over the generated class table;
`inv` is the invariant the classes' post-init hooks enforce — arbitrary: the theorems hold for
whatever the hooks check. -/

/-- Every type expression and default of every discovered class lies in the translator's subset. -/
theorem c09_translated : translatable = true := by decide

/-- The two backends expose the same table for every class: field names, aliases, required flags,
type expressions, defaults, hooks. -/
theorem c09_schemas_agree : schemasAgree = true := by decide

/-- Every generated class is well formed: distinct attribute names, distinct wire names, a member
that may be absent has a default or an `Optional[...]` type, no declared default is `None`. -/
theorem c09_schemas_wellformed : ∀ c ∈ classes, classWF c = true := schemas_wellformed

/-- **The fallback is the identity on conforming input.**  For EVERY type expression `t` and EVERY
JSON value `j` (no bound on depth or size): if `j` is a spec-valid wire value of type `t`
(`conforms`) and no union member that precedes the conforming one accepts it (`unamb`), the fallback
accepts `j` and `model_dump(by_alias=True, exclude_none=True)` of the result is `expected t j` — `j`
itself with the declared defaults of absent members added (see `c10_lossless`,
`c10_added_are_defaults` for what `expected` preserves and adds). -/
theorem c09_conforming_identity (inv : String → Obj → Bool) (t : Ty) (j : Json)
    (hc : conforms (cfgOf inv) t j = true) (hu : unamb (cfgOf inv) t j = true) :
    ∃ v, validate (cfgOf inv) t j = .ok v ∧ dump (cfgOf inv) true true v = expected (cfgOf inv) t j :=
  conforming_identity (cfgWF_of_all c09_schemas_wellformed) t j hc hu

/-- non-vacuity: a tool result with an image block that carries an extra `text` member (F-C09d's
input) is conforming and unambiguous, and the model types the block as `ImageContent`. -/
example :
    let j := Json.obj [("content", .arr [.obj [("type", .str "image"), ("data", .str "d"),
      ("mimeType", .str "m"), ("text", .str "caption")]])]
    conforms (cfgOf docInv) (.ref "ToolResult@protocol.types.tools") j = true
    ∧ unamb (cfgOf docInv) (.ref "ToolResult@protocol.types.tools") j = true := by
  simp [conforms, conformsList, conformsMembers, unamb, unambList, unambMembers, cfgOf, Cfg.find, classes,
    Class.byWire, Class.byName, Class.attrOf, Class.hooked, keysNodup, hasKey, lookup, exactAny, Ty.isTag, Ty.isOpt,
    Json.isNull, validate, validateMembers, validatePrim, assemble, collapse, setKey, fieldValue, seqFields]

/-- **Ids keep their JSON type.**  Every member named `id` of every discovered class
(`RequestId = Union[int, str]`, optional or not) keeps a string as that string — digit strings
such as "123" included — and an integer as that integer. -/
theorem c09_id_type_preserved (inv : String → Obj → Bool) :
    ∀ c ∈ classes, ∀ f ∈ c.fields, f.name = "id" →
      ∀ j, (∃ s, j = .str s) ∨ (∃ i, j = .int i) → validate (cfgOf inv) f.ty j = .ok (.leaf j) := by
  have table : ∀ c ∈ classes, ∀ f ∈ c.fields, f.name = "id" →
      f.ty = .union .int .str ∨ f.ty = .opt (.union .int .str) := by decide +kernel
  intro c hc f hf hn j hj
  rcases table c hc f hf hn with h | h <;> rw [h]
  · exact (requestId_kept j hj).1
  · exact (requestId_kept j hj).2

example : validate (cfgOf docInv) (.union .int .str) (.str "123") = .ok (.leaf (.str "123")) :=
  (requestId_kept _ (Or.inl ⟨_, rfl⟩)).1

/-- **Discriminated content keeps its variant.**  In every discovered class, an object whose
`Literal[...]`-typed member (a tag: `type`, `jsonrpc`, `method`) carries a string outside the
listed constants is rejected by that class — whatever other members it has — so member-by-member
union trial can never type an `image` block as `TextContent`. -/
theorem c09_discriminated_keeps_variant (inv : String → Obj → Bool) (cls : String) (c : Class)
    (hfind : (cfgOf inv).find cls = some c) (f : Field) (hf : f ∈ c.fields) (vs : List String)
    (hty : f.ty = .lit vs) (kvs : Obj) (hnd : keysNodup kvs = true)
    (hna : ∀ p ∈ kvs, NotAttrName c p.1) (s : String) (hl : lookup f.wire kvs = some (.str s))
    (hs : vs.contains s = false) :
    ∃ e, validate (cfgOf inv) (.ref cls) (.obj kvs) = .error e :=
  tag_mismatch_rejects (classWF_sound (c09_schemas_wellformed c (find_mem hfind))) hfind hf hty kvs hnd hna hl hs

/-- non-vacuity (F-C09d's input): an `image` block carrying an extra `text` member is rejected by
`TextContent`, the first member of the content unions. -/
example : validate (cfgOf docInv) (.ref "TextContent") (.obj [("type", .str "image"), ("data", .str "d"),
      ("mimeType", .str "m"), ("text", .str "caption")]) = .error "literal mismatch" := by
  simp [validate, cfgOf, Cfg.find, classes, validateMembers, assemble, collapse, setKey, fieldValue, seqFields,
    lookup, Class.byName, Class.byWire, Class.attrOf, validatePrim]

/-- hook names of a class that a backend calls after construction -/
def calledHooks (calls : List String) (c : Class) : List String := c.hooks.filter (fun h => calls.contains h)

/-- **Invariants are enforced by both backends or by neither.**  Documented invariants live in
post-init hooks; a backend enforces exactly the hooks it calls.  For every discovered class that is
not listed as an open known finding, both backends call the same hooks of the class.  (Finite
generated table: which hook names each class defines × which hook names each backend calls,
the latter observed on a throw-away subclass under each backend.) -/
theorem c09_hooks_both_or_neither :
    ∀ c ∈ classes, c.id ∉ knownHookFindings →
      calledHooks pydanticCalls c = calledHooks fallbackCalls c := by
  decide +kernel

/-- non-vacuity: the table does contain classes with hooks that both backends call -/
example : ∃ c ∈ classes, calledHooks pydanticCalls c ≠ [] ∧ calledHooks pydanticCalls c = calledHooks fallbackCalls c := by
  decide +kernel

end Verif.Props.C09
