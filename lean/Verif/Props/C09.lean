import Verif.Gen.Schemas
import Verif.Lemmas.SchemaGen

/-! # C09 — Pydantic and fallback validation backends agree on all spec-valid traffic

The fallback backend (`mcp_pydantic_base.py` with `MCP_FORCE_FALLBACK=1`) is modelled in
`Model/Schema.lean`; the class table (`classes`), the hook names each backend calls
(`pydanticCalls`, `fallbackCalls`) and the flag that both backends expose the same field table
(`schemasAgree`) are REGENERATED from the package on every run by import-time introspection under
both backends (`Gen/Schemas.lean`).

What is proved here is the fallback's half of "the two backends agree": on every spec-valid wire
value the fallback accepts, types every union member as the conforming variant and re-serialises
to the specified value (the input itself plus declared defaults) — so it agrees with ANY backend
that is the identity on conforming input.  That Pydantic is such a backend is the assumption
sampled by the three-way correspondence run (Pydantic worker, fallback worker, this model).
-/
set_option linter.unusedSimpArgs false
namespace Verif.Props.C09
open Verif.Model.Schema Verif.Gen.Schemas Verif.Lemmas.Schema Verif.Lemmas.SchemaGen

/- `cfgOf inv` (Lemmas/SchemaGen.lean) is the modelled backend over the generated class table;
`inv` is the invariant the classes' post-init hooks enforce — arbitrary: the theorems hold for
whatever the hooks check. -/

/-- Every type expression and default of every discovered class lies in the translator's subset. -/
theorem c09_translated : translatable = true := by decide

/-- The two backends expose the same table for every class: field names, aliases, required flags,
type expressions, defaults, hooks. -/
theorem c09_schemas_agree : schemasAgree = true := by decide

/-- Every generated class is well formed: distinct attribute names, distinct wire names, a member
that may be absent has a default or an `Optional[...]` type, no declared default is `None`. -/
theorem c09_schemas_wellformed : ∀ c ∈ classes, classWF c = true := schemas_wellformed

/-- **The fallback is the identity on conforming input.**  For EVERY type expression `t` and EVERY
JSON value `j` (no bound on depth or size): if `j` is a spec-valid wire value of type `t`
(`conforms`) and no union member that precedes the conforming one accepts it (`unamb`), the fallback
accepts `j` and `model_dump(by_alias=True, exclude_none=True)` of the result is `expected t j` — `j`
itself with the declared defaults of absent members added (see `c10_lossless`,
`c10_added_are_defaults` for what `expected` preserves and adds). -/
theorem c09_conforming_identity (inv : String → Obj → Bool) (t : Ty) (j : Json)
    (hc : conforms (cfgOf inv) t j = true) (hu : unamb (cfgOf inv) t j = true) :
    ∃ v, validate (cfgOf inv) t j = .ok v ∧ dump (cfgOf inv) true true v = expected (cfgOf inv) t j :=
  conforming_identity (cfgWF_of_all c09_schemas_wellformed) t j hc hu

/-- non-vacuity: a tool result with an image block that carries an extra `text` member (F-C09d's
input) is conforming and unambiguous, and the model types the block as `ImageContent`. -/
example :
    let j := Json.obj [("content", .arr [.obj [("type", .str "image"), ("data", .str "d"),
      ("mimeType", .str "m"), ("text", .str "caption")]])]
    conforms (cfgOf docInv) (.ref "ToolResult@protocol.types.tools") j = true
    ∧ unamb (cfgOf docInv) (.ref "ToolResult@protocol.types.tools") j = true := by
  simp [conforms, conformsList, conformsMembers, unamb, unambList, unambMembers, cfgOf, Cfg.find, classes,
    Class.byWire, Class.byName, Class.attrOf, Class.hooked, keysNodup, hasKey, lookup, exactAny, Ty.isTag, Ty.isOpt,
    Json.isNull, validate, validateMembers, validatePrim, assemble, collapse, setKey, fieldValue, seqFields]

/-- **Ids keep their JSON type.**  Every member named `id` of every discovered class
(`RequestId = Union[int, str]`, optional or not) keeps a string as that string — digit strings
such as "123" included — and an integer as that integer. -/
theorem c09_id_type_preserved (inv : String → Obj → Bool) :
    ∀ c ∈ classes, ∀ f ∈ c.fields, f.name = "id" →
      ∀ j, (∃ s, j = .str s) ∨ (∃ i, j = .int i) → validate (cfgOf inv) f.ty j = .ok (.leaf j) := by
  have table : ∀ c ∈ classes, ∀ f ∈ c.fields, f.name = "id" →
      f.ty = .union .int .str ∨ f.ty = .opt (.union .int .str) := by decide +kernel
  intro c hc f hf hn j hj
  rcases table c hc f hf hn with h | h <;> rw [h]
  · exact (requestId_kept j hj).1
  · exact (requestId_kept j hj).2

example : validate (cfgOf docInv) (.union .int .str) (.str "123") = .ok (.leaf (.str "123")) :=
  (requestId_kept _ (Or.inl ⟨_, rfl⟩)).1

/-- **Discriminated content keeps its variant.**  In every discovered class, an object whose
`Literal[...]`-typed member (a tag: `type`, `jsonrpc`, `method`) carries a string outside the
listed constants is rejected by that class — whatever other members it has — so member-by-member
union trial can never type an `image` block as `TextContent`. -/
theorem c09_discriminated_keeps_variant (inv : String → Obj → Bool) (cls : String) (c : Class)
    (hfind : (cfgOf inv).find cls = some c) (f : Field) (hf : f ∈ c.fields) (vs : List String)
    (hty : f.ty = .lit vs) (kvs : Obj) (hnd : keysNodup kvs = true)
    (hna : ∀ p ∈ kvs, NotAttrName c p.1) (s : String) (hl : lookup f.wire kvs = some (.str s))
    (hs : vs.contains s = false) :
    ∃ e, validate (cfgOf inv) (.ref cls) (.obj kvs) = .error e :=
  tag_mismatch_rejects (classWF_sound (c09_schemas_wellformed c (find_mem hfind))) hfind hf hty kvs hnd hna hl hs

/-- non-vacuity (F-C09d's input): an `image` block carrying an extra `text` member is rejected by
`TextContent`, the first member of the content unions. -/
example : validate (cfgOf docInv) (.ref "TextContent") (.obj [("type", .str "image"), ("data", .str "d"),
      ("mimeType", .str "m"), ("text", .str "caption")]) = .error "literal mismatch" := by
  simp [validate, cfgOf, Cfg.find, classes, validateMembers, assemble, collapse, setKey, fieldValue, seqFields,
    lookup, Class.byName, Class.byWire, Class.attrOf, validatePrim]

/-- **Every union of model classes in the table is separated.**  For every field of every discovered
class and every ordered pair (`a` tried before `b`) of model-class members of a union in its type:
`a` and `b` carry a `Literal` tag under the same wire name with disjoint constants (then
`c09_discriminated_keeps_variant` rejects a `b`-object at `a`), or `a` requires a member that `b` does
not declare (then `missing_required_rejects` rejects a `b`-object that has no unknown member of that
name: `TextResourceContents | BlobResourceContents`, which the spec does not discriminate).  This is
the syntactic reason why the hypothesis `unamb` of `c09_conforming_identity` holds on spec-valid
traffic; a union added later that is not separated breaks this theorem.  (Finite generated table.) -/
theorem c09_unions_separated :
    ∀ c ∈ classes, ∀ f ∈ c.fields, ∀ u ∈ unionsOf f.ty, ∀ p ∈ orderedPairs u, separated classes p.1 p.2 = true := by
  decide +kernel

/-- non-vacuity: the table has a union of four model classes (six ordered pairs) -/
example : ∃ c ∈ classes, ∃ f ∈ c.fields, ∃ u ∈ unionsOf f.ty, (orderedPairs u).length ≥ 6 := by decide +kernel

/-- **Catalogue of leaf coercions** (`_deep_validate`, class branch).  Whenever the fallback accepts a
primitive value — for every primitive type and EVERY JSON value — it keeps the value or applies
exactly one of seven coercions: `str(int)`, `str(bool)`, `str(float)`, `int("digits")`, `float(bool)`,
`float("digits")`, `bool("true"/"1"/"yes"/"on"/…)`.  Nothing else can change a leaf; none of them
applies to a value that already has the JSON type of the member (F-C09c inputs are exactly the
inputs of the seven). -/
theorem c09_leaf_coercions_catalogue (t : Ty) (j : Json) (v : TVal) (h : validatePrim t j = .ok v) :
    v = .leaf j ∨ ∃ j', v = .leaf j' ∧ Coerced t j j' :=
  validatePrim_keeps_or_coerces t j v h

/-- A coerced leaf is a fixpoint: validating the coerced value again keeps it (so a value that went
through the typed view once is stable from then on). -/
theorem c09_leaf_coercion_idempotent (t : Ty) (j j' : Json) (h : validatePrim t j = .ok (.leaf j')) :
    validatePrim t j' = .ok (.leaf j') :=
  validatePrim_idempotent t j j' h

example : Coerced .int (.str "-12") (.int (-12)) ∧ Coerced .str (.int 5) (.str "5") :=
  ⟨.intOfStr _ _ (by decide), .strOfInt 5⟩

/-- The class ids of the generated table are pairwise distinct (lookup by id is unambiguous). -/
theorem c09_class_ids_distinct : (classes.map (·.id)).Nodup := by decide +kernel

/-- **Nothing but the class a value is validated against matters.**  The model has no other state:
for EVERY reordering of the class table (the order in which modules happen to be imported) and for
any two tables that resolve every class id alike — whatever other classes with the same Python name
they also hold — every value of every type gets the same typed value. -/
theorem c09_table_order_irrelevant (inv : String → Obj → Bool) (classes' : List Class)
    (hp : classes.Perm classes') (t : Ty) (j : Json) :
    validate (cfgOf inv) t j = validate { classes := classes', calls := fallbackCalls, inv := inv } t j :=
  validate_congr (cfg := cfgOf inv) (cfg' := { classes := classes', calls := fallbackCalls, inv := inv })
    (fun id => find?_perm_of_nodup hp c09_class_ids_distinct id) rfl rfl (sizeOf j + 1) j (by omega) t

example : classes.Perm classes.reverse := (List.reverse_perm classes).symm

/-- hook names of a class that a backend calls after construction -/
def calledHooks (calls : List String) (c : Class) : List String := c.hooks.filter (fun h => calls.contains h)

/-- **Invariants are enforced by both backends or by neither.**  Documented invariants live in
post-init hooks; a backend enforces exactly the hooks it calls.  For every discovered class that is
not listed as an open known finding, both backends call the same hooks of the class.  (Finite
generated table: which hook names each class defines × which hook names each backend calls,
the latter observed on a throw-away subclass under each backend.) -/
theorem c09_hooks_both_or_neither :
    ∀ c ∈ classes, c.id ∉ knownHookFindings →
      calledHooks pydanticCalls c = calledHooks fallbackCalls c := by
  decide +kernel

/-- non-vacuity: the table does contain classes with hooks that both backends call -/
example : ∃ c ∈ classes, calledHooks pydanticCalls c ≠ [] ∧ calledHooks pydanticCalls c = calledHooks fallbackCalls c := by
  decide +kernel

end Verif.Props.C09
