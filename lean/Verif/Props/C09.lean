import Verif.Gen.Schemas
import Verif.Lemmas.Schema

/-! # C09 — Pydantic and fallback validation backends agree on all spec-valid traffic -/
namespace Verif.Props.C09
open Verif.Model.Schema Verif.Gen.Schemas

/-- Every type expression and default of every discovered class lies in the translator's subset. -/
theorem c09_translated : translatable = true := by decide

/-- The two backends expose the same table for every class: field names, aliases, required flags,
type expressions, defaults, hooks. -/
theorem c09_schemas_agree : schemasAgree = true := by decide

/-- hook names of a class that a backend calls after construction -/
def calledHooks (calls : List String) (c : Class) : List String := c.hooks.filter (fun h => calls.contains h)

/-- Documented invariants live in post-init hooks; a backend enforces the hooks it calls.  For every
discovered class that is not listed as an open known finding, both backends call the same hooks of
the class — the invariant is enforced by both or by neither.  (Finite generated table: which hook
names each class defines × which hook names each backend calls.) -/
theorem c09_hooks_both_or_neither :
    ∀ c ∈ classes, c.id ∉ knownHookFindings →
      calledHooks pydanticCalls c = calledHooks fallbackCalls c := by
  decide +kernel

end Verif.Props.C09
