import Verif.Lemmas.Carrier
import Verif.Lemmas.Client
import Verif.Lemmas.Detect
import Verif.Lemmas.Instances

/-! # C15 — client-observable behaviour does not depend on the transport carrying it

A COMPOSITION property: nothing is re-modelled.  `Verif.Model.Carrier` only says how a
conversation (a list of exchanges, each = notifications followed by one reply, over an abstract
message type `σ`) is written on the wire of each carrier, with every free choice of the carrier's
encoding as a parameter, and which function of the existing models is the read stream:

* stdio — `StdioIn.runChunks` (C05); free: LF / CRLF per line, the cutting of the bytes into reads;
* Streamable HTTP + JSON bodies — `HttpDecide.run` (C11); free: the id POSTed, any accepted
  status, session header, the reply as an object or as a one-element array;
* Streamable HTTP + SSE bodies — `HttpDecide.run` over `Sse.renderText` (C11); free: event field
  absent / `message` / `response`, optional spaces, comment / `id:` / `retry:` lines before every
  field line and before the blank line, events that carry no message (data-less keep-alives,
  comment-only events, extra blank lines, typed non-message events with data) before, between and
  after the message events, LF / CRLF per line, how the body ends;
* legacy SSE — `SseReq.runChunks` then `SseReq.run` (C12); free: events before the first message,
  LF / CRLF per event, the cutting of the stream into chunks, and where the `202` of each POST
  falls among the stream events of its exchange (the race of C12).

`W : Wire σ μ` is the text encoding (`W.enc`) and what a client must see (`W.obs`).  Each
carrier's decoder is its model's PARAMETER; the hypothesis `…Decodes` says that it inverts `W.enc`
on the messages of the conversation and that the text is one line starting with `{` and ending
with `}`.  `c15_real_*` discharge that hypothesis for the library's real codec
(`Json.enc ∘ Rpc.emit` out, `Json.dec` + `parse_message` / `JSONRPCMessage.model_validate` in)
from C02 and C17, for all four carriers.

The transcript is a list of `Seen μ`: `.msg (W.obs s)` — the abstract message itself (kind, id,
payload) — or `.made` for a message the transport made up; the theorems say it is exactly
`conversation.flatten`, so nothing is lost, duplicated, reordered or made up.
-/
set_option linter.unusedVariables false
namespace Verif.Props.C15
open Verif.Model Verif.Model.Carrier Verif.Lemmas.Carrier

variable {σ μ : Type}

/-! ## 1. every carrier delivers exactly the conversation -/

/-- **stdio.**  For every conversation, LF or CRLF after each line, and every cutting of the
encoded byte stream into reads (inside characters and inside CRLF included): when the line
parser inverts the text encoding on the conversation's messages, the read stream is exactly
the conversation, in order. -/
theorem c15_stdio_transcript (cfg : StdioIn.Cfg μ) (W : Wire σ μ) (conv : List (Exchange σ))
    (crlf : List Bool) (chunks : List (List Nat))
    (hdec : ∀ s ∈ msgsOf conv, StdioDecodes cfg W s)
    (hc : chunks.flatten = stdioBytes W conv crlf) :
    stdioObserve cfg chunks = expected W conv :=
  stdio_transcript cfg W conv crlf chunks hdec hc

/-- **Streamable HTTP, JSON bodies.**  One POST per exchange, answered with the reply as a JSON
body — whatever id was POSTed, whatever accepted status and session header, as an object or as
a one-element array: the read stream is exactly the conversation.  Expressible: exchanges
without notifications (a body is one message). -/
theorem c15_httpJson_transcript (dec : HttpDecide.Dec μ) (W : Wire σ μ) (s0 : Option String)
    (conv : List (Exchange σ)) (choices : List PostChoice)
    (hexp : Expressible W .httpJson conv)
    (hst : ∀ c ∈ choices, c.status < 400)
    (hdec : ∀ s ∈ msgsOf conv, HttpDecodes dec W s) :
    httpObserve dec s0 (zipD PostChoice.dflt (jsonPost W) conv choices) = expected W conv :=
  httpJson_transcript dec W s0 conv choices hexp hst hdec

/-- **Streamable HTTP, SSE bodies.**  One POST per exchange, answered with an event-stream body
holding one event per message (notifications, then the reply) in ANY conformant rendering, with
ANY events that carry no message — data-less keep-alives, comment-only events, extra blank lines,
typed non-message events with data — before, between and after them (`EvChoice.before`,
`SseBodyChoice.trailing`; `…ok` = those events are `isNoise` and every ignored line is well-formed):
the read stream is exactly the conversation, notifications before their reply. -/
theorem c15_httpSse_transcript (dec : HttpDecide.Dec μ) (W : Wire σ μ) (s0 : Option String)
    (conv : List (Exchange σ)) (choices : List SseBodyChoice)
    (hok : ∀ c ∈ choices, c.ok = true)
    (hdec : ∀ s ∈ msgsOf conv, HttpDecodes dec W s) :
    httpObserve dec s0 (zipD SseBodyChoice.dflt (sseBodyPost W) conv choices) = expected W conv :=
  httpSse_transcript dec W s0 conv choices hok hdec

/-- **Legacy SSE.**  All messages travel as `message` events on the one event stream (after any
endpoint / keep-alive / comment events), cut into chunks in any way; each POST is answered `202`,
and that `202` may reach the sender before, between or after the stream events of its exchange
(`acks`): the read stream is exactly the conversation.  Expressible: every reply has an id, and
no notification sent before it bears the same one. -/
theorem c15_sse_transcript (dec : Str → Option (SseReq.Msg μ)) (W : Wire σ μ)
    (pre : List (SseReq.Ev × Bool)) (conv : List (Exchange σ)) (crlf : List Bool)
    (chunks : List Str) (acks : List Nat)
    (hexp : Expressible W .sse conv)
    (hpre : ∀ p ∈ pre, p.1.Clean ∧ ∀ d, p.1 ≠ .message d)
    (hdec : ∀ s ∈ msgsOf conv, SseDecodes dec W s)
    (hc : chunks.flatten = sseText W pre conv crlf) :
    sseObserve dec (sseShape W conv acks) chunks = expected W conv :=
  sse_transcript dec W pre conv crlf chunks acks hexp hpre hdec hc

/-- the four statements as one: any carrier `c`, any legal play of the conversation on it -/
theorem c15_transcript (W : Wire σ μ) (conv : List (Exchange σ)) (c : Carrier) (p : Play μ c)
    (hexp : Expressible W c conv) (hv : p.Valid W conv) :
    p.observe W conv = expected W conv := by
  cases p with
  | stdio cfg crlf chunks => exact c15_stdio_transcript cfg W conv crlf chunks hv.1 hv.2
  | httpJson dec s0 choices => exact c15_httpJson_transcript dec W s0 conv choices hexp hv.1 hv.2
  | httpSse dec s0 choices => exact c15_httpSse_transcript dec W s0 conv choices hv.1 hv.2
  | sse dec pre crlf chunks acks =>
    exact c15_sse_transcript dec W pre conv crlf chunks acks hexp hv.1 hv.2.1 hv.2.2

/-! ## 2. hence no carrier differs from another -/

/-- **Carrier independence.**  For any two carriers, a conversation expressible on both, and any
legal play on each (all wire choices free, each decoder inverting the text encoding): the two
read-stream transcripts are equal — same messages (kind, id, payload), same order, notifications
before their replies, nothing made up. -/
theorem c15_carrier_agnostic (W : Wire σ μ) (conv : List (Exchange σ)) (c₁ c₂ : Carrier)
    (p₁ : Play μ c₁) (p₂ : Play μ c₂)
    (h₁ : Expressible W c₁ conv) (h₂ : Expressible W c₂ conv)
    (v₁ : p₁.Valid W conv) (v₂ : p₂.Valid W conv) :
    p₁.observe W conv = p₂.observe W conv := by
  rw [c15_transcript W conv c₁ p₁ h₁ v₁, c15_transcript W conv c₂ p₂ h₂ v₂]

/-- a conversation without notifications whose replies all have ids is expressible everywhere -/
theorem c15_expressible_everywhere (W : Wire σ μ) (conv : List (Exchange σ))
    (h : ∀ e ∈ conv, e.notifs = [] ∧ (W.key e.reply).isSome = true) (c : Carrier) :
    Expressible W c conv := by
  cases c with
  | stdio => trivial
  | httpSse => trivial
  | httpJson => exact fun e he => (h e he).1
  | sse => exact fun e he => ⟨(h e he).2, by simp [(h e he).1]⟩

/-! ## 3. the hypotheses hold for the library's real codec -/
section real
open Verif.Model.Json Verif.Model.Rpc

/-- **stdio, end to end.**  For every message `m` the library's emitters build (C02's `Built`),
with any payload (`wfMsg` only says float tokens are well-formed), serialised by any of the
compact encoder styles (C17): the line `enc (emit m)` contains no LF and no CR, starts with `{`
and ends with `}` (so it is not blank and survives `strip`), and the reader's
`json.loads` + `parse_message` give back exactly the members of `m`. -/
theorem c15_real_codec_stdio (st : Style) (m : Msg) (hb : Built m) (hw : wfMsg m = true) :
    StdioDecodes realStdio (rpcWire st) m :=
  real_stdio_decodes st m hb hw

/-- spelled out on the reader itself: the line of `m` (LF or CRLF terminated, batching on or off)
makes the reader deliver exactly `view m` -/
theorem c15_real_codec_stdio_line (st : Style) (m : Msg) (batching : Bool) (hb : Built m) (hw : wfMsg m = true) :
    CleanWire (enc st (emit m)) ∧
    StdioIn.delivered (StdioIn.processLine realStdio batching (codes (enc st (emit m)))) = [view m] :=
  ⟨(real_stdio_decodes st m hb hw).1, stdio_line realStdio (rpcWire st) m batching (real_stdio_decodes st m hb hw)⟩

/-- **Streamable HTTP.**  The same for `response.json()` + `JSONRPCMessage.model_validate`, for the
object and for the one-element array.  `ObjResult`: a result is a JSON object (the unified message
class accepts no other; every MCP result is one). -/
theorem c15_real_codec_http (st : Style) (m : Msg) (hb : Built m) (hw : wfMsg m = true) (hr : ObjResult m) :
    HttpDecodes realHttp (rpcWire st) m :=
  real_http_decodes st m hb hw hr

/-- **Legacy SSE.**  The same for `json.loads` + `str(id)` + `JSONRPCMessage.model_validate`. -/
theorem c15_real_codec_sse (st : Style) (m : Msg) (hb : Built m) (hw : wfMsg m = true) (hr : ObjResult m) :
    SseDecodes realSse (rpcWire st) m :=
  real_sse_decodes st m hb hw hr

/-- so with the real codec the only hypotheses left are about the conversation itself: its
messages are emitted by the library's constructors, results are objects, and it is expressible;
every legal wire choice on every carrier then yields `conversation.flatten` as parsed views. -/
theorem c15_real_transcript (st : Style) (conv : List (Exchange Msg))
    (hm : ∀ m ∈ msgsOf conv, Built m ∧ wfMsg m = true ∧ ObjResult m) :
    (∀ crlf chunks, chunks.flatten = stdioBytes (rpcWire st) conv crlf →
      stdioObserve realStdio chunks = expected (rpcWire st) conv)
    ∧ (∀ s0 choices, Expressible (rpcWire st) .httpJson conv → (∀ c ∈ choices, c.status < 400) →
      httpObserve realHttp s0 (zipD PostChoice.dflt (jsonPost (rpcWire st)) conv choices) = expected (rpcWire st) conv)
    ∧ (∀ s0 choices, (∀ c ∈ choices, SseBodyChoice.ok c = true) →
      httpObserve realHttp s0 (zipD SseBodyChoice.dflt (sseBodyPost (rpcWire st)) conv choices) = expected (rpcWire st) conv)
    ∧ (∀ pre crlf chunks acks, Expressible (rpcWire st) .sse conv →
      (∀ p ∈ pre, p.1.Clean ∧ ∀ d, p.1 ≠ .message d) → chunks.flatten = sseText (rpcWire st) pre conv crlf →
      sseObserve realSse (sseShape (rpcWire st) conv acks) chunks = expected (rpcWire st) conv) := by
  refine ⟨?_, ?_, ?_, ?_⟩
  · intro crlf chunks hc
    exact c15_stdio_transcript _ _ conv crlf chunks (fun m h => c15_real_codec_stdio st m (hm m h).1 (hm m h).2.1) hc
  · intro s0 choices hexp hst
    exact c15_httpJson_transcript _ _ s0 conv choices hexp hst
      (fun m h => c15_real_codec_http st m (hm m h).1 (hm m h).2.1 (hm m h).2.2)
  · intro s0 choices hok
    exact c15_httpSse_transcript _ _ s0 conv choices hok
      (fun m h => c15_real_codec_http st m (hm m h).1 (hm m h).2.1 (hm m h).2.2)
  · intro pre crlf chunks acks hexp hpre hc
    exact c15_sse_transcript _ _ pre conv crlf chunks acks hexp hpre
      (fun m h => c15_real_codec_sse st m (hm m h).1 (hm m h).2.1 (hm m h).2.2) hc

/-! ### non-vacuity: a concrete conversation through all four pipelines

A notification with non-ASCII text (é, U+2028, an astral character, a combining mark) followed
by a response whose result nests `null`s; then an error reply. -/

def exNotif : Msg :=
  .notification "notifications/message".toList
    (some [("data".toList, .str ['h', 'é', '\u2028', '😀', 'e', '\u0301'])])

def exReply : Msg :=
  .response (.str "r-1".toList) (.obj [("a".toList, .arr [.null, .obj [("b".toList, .null)]]), ("c".toList, .obj [])])

def exError : Msg := .error (some (.str "r-2".toList)) (errObj (-32602) "bad ✗".toList (.obj [("why".toList, .null)]))

def exConv : List (Exchange Msg) := [⟨[exNotif], exReply⟩, ⟨[], exError⟩]
def exConvJson : List (Exchange Msg) := [⟨[], exReply⟩, ⟨[], exError⟩]

theorem exNotif_ok : Built exNotif ∧ wfMsg exNotif = true ∧ ObjResult exNotif :=
  ⟨.createNotification _ _, by decide, trivial⟩
theorem exReply_ok : Built exReply ∧ wfMsg exReply = true ∧ ObjResult exReply :=
  ⟨.createResponse (id := some (.str "r-1".toList))
      (result := .obj [("a".toList, .arr [.null, .obj [("b".toList, .null)]]), ("c".toList, .obj [])]) rfl,
    by decide, trivial⟩
theorem exError_ok : Built exError ∧ wfMsg exError = true ∧ ObjResult exError :=
  ⟨.createErrorResponse (id := some (.str "r-2".toList)) (code := -32602) (message := "bad ✗".toList)
      (data := .obj [("why".toList, .null)]) rfl, by decide, trivial⟩

theorem exConv_ok : ∀ m ∈ msgsOf exConv, Built m ∧ wfMsg m = true ∧ ObjResult m := by
  intro m h
  simp only [msgsOf, exConv, Exchange.msgs, List.flatMap_cons, List.flatMap_nil, List.cons_append, List.nil_append,
    List.append_nil, List.mem_cons, List.not_mem_nil, or_false] at h
  rcases h with rfl | rfl | rfl
  · exact exNotif_ok
  · exact exReply_ok
  · exact exError_ok

theorem exConvJson_ok : ∀ m ∈ msgsOf exConvJson, Built m ∧ wfMsg m = true ∧ ObjResult m := by
  intro m h
  simp only [msgsOf, exConvJson, Exchange.msgs, List.flatMap_cons, List.flatMap_nil, List.cons_append, List.nil_append,
    List.append_nil, List.mem_cons, List.not_mem_nil, or_false] at h
  rcases h with rfl | rfl
  · exact exReply_ok
  · exact exError_ok

theorem exConv_sse : Expressible (rpcWire orjsonStyle) .sse exConv := by
  intro e he
  simp only [exConv, List.mem_cons, List.not_mem_nil, or_false] at he
  rcases he with rfl | rfl
  · refine ⟨rfl, ?_⟩
    intro n hn
    simp only [List.mem_cons, List.not_mem_nil, or_false] at hn
    subst hn
    simp [rpcWire, view, exNotif, exReply]
  · exact ⟨rfl, by intro n hn; cases hn⟩

/-- the text really is non-ASCII on the wire (raw UTF-8 under the orjson style) … -/
example : enc orjsonStyle (emit exNotif)
    = "{\"jsonrpc\":\"2.0\",\"method\":\"notifications/message\",\"params\":{\"data\":\"hé\u2028😀e\u0301\"}}".toList := by
  decide

/-- … stdio: CRLF after the first line; reads cut inside é, inside U+2028, inside 😀 and between
CR and LF -/
example : stdioObserve realStdio (cutAt (stdioBytes (rpcWire orjsonStyle) exConv [true, false]) [70, 72, 76, 85, 200] 0)
    = [.msg (view exNotif), .msg (view exReply), .msg (view exError)] :=
  (c15_real_transcript orjsonStyle exConv exConv_ok).1 [true, false] _ (cutAt_flatten _ _ _)

/-- … JSON bodies: the second reply as a one-element array with status 201 and a session header -/
example : httpObserve realHttp none (zipD PostChoice.dflt (jsonPost (rpcWire stdStyle)) exConvJson
      [⟨some (.str "r-1"), 200, none, false⟩, ⟨some (.str "r-2"), 201, some "S", true⟩])
    = [.msg (view exReply), .msg (view exError)] :=
  (c15_real_transcript stdStyle exConvJson exConvJson_ok).2.1 none _ (fun e he => by
      simp only [exConvJson, List.mem_cons, List.not_mem_nil, or_false] at he
      rcases he with rfl | rfl <;> rfl)
    (by intro c hc
        simp only [List.mem_cons, List.not_mem_nil, or_false] at hc
        rcases hc with rfl | rfl <;> decide)

/-- … SSE bodies: a data-less `ping` keep-alive and a comment-only event first, no event field and
no space after `data:` for the notification, a typed `endpoint` event with data in between, a
comment, `event: response` and an `id:` line after the data for the reply, an extra blank line at
the end, CRLF on some lines, end of file inside the last line -/
def exBody : SseBodyChoice :=
  { post := ⟨some (.str "r-1"), 200, none, false⟩,
    evs := [
      { name := .absent, nameChoice := Sse.dflt, dataChoice := ⟨false, []⟩,
        before := [{ name := some "ping".toList, data := [], nameChoice := Sse.dflt, dataChoices := [] },
                   { name := none, data := [], nameChoice := Sse.dflt, dataChoices := [], after := [.comment " ka".toList] }] },
      { name := .response, nameChoice := ⟨true, [.comment " c".toList]⟩, dataChoice := Sse.dflt,
        after := [.idField true "7".toList],
        before := [{ name := some "endpoint".toList, data := ["{\"jsonrpc\":\"2.0\",\"method\":\"x\"}".toList],
                     nameChoice := Sse.dflt, dataChoices := [] }] }],
    eols := [true, false, true], tail := .noEol,
    trailing := [{ name := none, data := [], nameChoice := Sse.dflt, dataChoices := [] }] }

example : exBody.ok = true := by decide

example : httpObserve realHttp none (zipD SseBodyChoice.dflt (sseBodyPost (rpcWire orjsonStyle)) exConv [exBody])
    = [.msg (view exNotif), .msg (view exReply), .msg (view exError)] :=
  (c15_real_transcript orjsonStyle exConv exConv_ok).2.2.1 none _ (by
    intro c hc
    simp only [List.mem_cons, List.not_mem_nil, or_false] at hc
    subst hc
    decide)

/-- … legacy SSE: endpoint announcement and a comment first, CRLF for the first event, the
stream cut inside a line; the first `202` arrives after the notification, the second one after
the reply (the other order of the race) -/
example : sseObserve realSse (sseShape (rpcWire orjsonStyle) exConv [1, 5])
      (cutAt (sseText (rpcWire orjsonStyle)
        [(.endpoint "/messages/?session_id=s".toList, false), (.comment " hi".toList, true)] exConv [true]) [9, 60, 61] 0)
    = [.msg (view exNotif), .msg (view exReply), .msg (view exError)] :=
  (c15_real_transcript orjsonStyle exConv exConv_ok).2.2.2
    [(.endpoint "/messages/?session_id=s".toList, false), (.comment " hi".toList, true)] [true] _ [1, 5]
    exConv_sse
    (by intro p hp
        simp only [List.mem_cons, List.not_mem_nil, or_false] at hp
        rcases hp with rfl | rfl
        · exact ⟨⟨by decide, by intro c hc; simp at hc; subst hc; decide, by intro c hc; simp at hc; subst hc; decide⟩,
            by intro d h; cases h⟩
        · exact ⟨by simp [SseReq.Ev.Clean], by intro d h; cases h⟩)
    (cutAt_flatten _ _ _)

/-- and two carriers side by side (`c15_carrier_agnostic` instantiated): stdio vs legacy SSE -/
example :
    (Play.stdio realStdio [false, true]
        (cutAt (stdioBytes (rpcWire orjsonStyle) exConv [false, true]) [1, 71] 0)).observe (rpcWire orjsonStyle) exConv
    = (Play.sse realSse [(.endpoint "/m".toList, false)] [] [sseText (rpcWire orjsonStyle) [(.endpoint "/m".toList, false)] exConv []]
        [0, 0]).observe (rpcWire orjsonStyle) exConv :=
  c15_carrier_agnostic _ _ .stdio .sse _ _ trivial exConv_sse
    ⟨fun m h => c15_real_codec_stdio _ m (exConv_ok m h).1 (exConv_ok m h).2.1, cutAt_flatten _ _ _⟩
    ⟨by intro p hp
        simp only [List.mem_cons, List.not_mem_nil, or_false] at hp
        subst hp
        exact ⟨⟨by decide, by intro c hc; simp at hc; subst hc; decide, by intro c hc; simp at hc; subst hc; decide⟩,
          by intro d h; cases h⟩,
      fun m h => c15_real_codec_sse _ m (exConv_ok m h).1 (exConv_ok m h).2.1 (exConv_ok m h).2.2,
      by simp⟩

end real

/-! ## 4. the request helpers agree -/
section helpers
open Verif.Model.Await
variable {α : Type}

/-- **Helper outcomes do not depend on arrival times.**  Two carriers deliver the same message
sequence (by `c15_carrier_agnostic`) at different ticks.  Without cancellation, for two time-ordered
histories with the same messages up to the first message that answers the request (response or
error bearing its id, JSON type included), arriving at `a₁` resp. `a₂`, both before the deadline —
whatever the ticks, whatever follows: the helper (`Await.run`) ends with the same outcome (the
result / the classified error of that message), the same writes, the same progress callbacks
and the same number of consumed messages; only the completion time is the carrier's. -/
theorem c15_helpers_agree (R : Int → Bool) (cfg : Cfg α)
    (hpre : cfg.preCancelled = false) (hc : cfg.cancelAt = none)
    (pre₁ pre₂ post₁ post₂ : List (Nat × In α)) (a₁ a₂ : Nat) (m : In α)
    (hsame : pre₁.map (·.2) = pre₂.map (·.2))
    (hno : NoMatch cfg pre₁) (hm : isMatch cfg m = true)
    (hs₁ : Sorted (pre₁ ++ [(a₁, m)])) (hs₂ : Sorted (pre₂ ++ [(a₂, m)]))
    (h₁ : a₁ < cfg.D) (h₂ : a₂ < cfg.D) :
    let o₁ := run R cfg (pre₁ ++ (a₁, m) :: post₁)
    let o₂ := run R cfg (pre₂ ++ (a₂, m) :: post₂)
    o₁.outcome = o₂.outcome ∧ o₁.outcome = final R cfg m ∧ o₁.writes = o₂.writes
      ∧ o₁.callbacks = o₂.callbacks ∧ o₁.consumed = o₂.consumed ∧ o₁.time = a₁ ∧ o₂.time = a₂ :=
  helpers_agree R cfg hpre hc pre₁ pre₂ post₁ post₂ a₁ a₂ m hsame hno hm hs₁ hs₂ h₁ h₂

def exCfg : Cfg Nat :=
  { reqId := .str "r-1", D := 5120, P := 512, hP := by decide, preCancelled := false, cancelAt := none,
    token := none, zero := 0, eventsFirst := true, cbRaises := fun _ => false }

/-- non-vacuity: a notification then the response, arriving at ticks (1, 1) on one carrier and
(300, 1700) — across three poll periods — on the other; different traffic afterwards -/
example :
    (run (fun _ => false) exCfg ([(1, .notif "n")] ++ (1, .resp (.str "r-1") 7) :: [])).outcome
      = (run (fun _ => false) exCfg ([(300, .notif "n")] ++ (1700, .resp (.str "r-1") 7) :: [(1800, .notif "x")])).outcome
    ∧ (run (fun _ => false) exCfg ([(1, .notif "n")] ++ (1, .resp (.str "r-1") 7) :: [])).outcome = .returned 7 := by
  have := c15_helpers_agree (fun _ => false) exCfg rfl rfl [(1, .notif "n")] [(300, .notif "n")] [] [(1800, .notif "x")]
    1 1700 (.resp (.str "r-1") 7) rfl
    (by intro x hx; simp at hx; subst hx; simp [isMatch])
    (by simp [isMatch, exCfg]) (by simp [Sorted]) (by simp [Sorted]) (by decide) (by decide)
  exact ⟨this.1, by rw [this.2.1]; simp [final, Await.classify, exCfg]⟩

end helpers

/-! ## 5. the high-level client (`MCPClient`, `connect_to_server`)

`Verif.Model.Client`: `MCPClient` does no I/O of its own — every operation is
`_ensure_initialized()` followed by one typed request helper on the transport's stream pair.  How a
helper call ends is decided by the read-stream transcript (sections 1–4), so it is a parameter
(`Answers`): the theorems hold for every server behaviour, every sequence of operations, any length. -/
section client
open Verif.Model.Client
variable {ι ρ ε : Type}

/-- is this `transport.set_protocol_version(…)`? -/
def isSetVersion : Ev → Bool
  | .setVersion _ => true
  | _ => false

/-- **The shape of everything a client does to its transport**, for every sequence of operations
and every server: `k` failed `initialize` attempts (one request each, nothing else), then — if an
attempt succeeds — that request, `set_protocol_version` with the answered version, and from then on
only the operations' own helpers, one request per operation, in order. -/
theorem c15_client_trace_shape (a : Answers ι ρ ε) (ops : List Op) :
    Shape a 0 (run a St.fresh ops).2.2 :=
  run_shape a St.fresh ops rfl

theorem filter_other_setVersion (l : List Ev) (h : l.all isOtherReq = true) : l.filter isSetVersion = [] := by
  simp only [List.all_eq_true] at h
  simp only [List.filter_eq_nil_iff]
  intro e he
  have := h e he
  cases e with
  | request op => simp [isSetVersion]
  | setVersion v => simp [isOtherReq] at this

/-- **Initialize once.**  `set_protocol_version` is called at most once, and with the version
answered by the FIRST `initialize` that succeeded (every earlier attempt failed). -/
theorem c15_client_init_once (a : Answers ι ρ ε) (ops : List Op) :
    ((run a St.fresh ops).2.2.filter isSetVersion).length ≤ 1
    ∧ ∀ v, Ev.setVersion v ∈ (run a St.fresh ops).2.2 →
        ∃ k info, a.inits k = .ok (v, info) ∧ ∀ j, j < k → ∃ e, a.inits j = .error e := by
  obtain ⟨k, hk, h⟩ := run_shape a St.fresh ops rfl
  simp only [show (St.fresh : St ι).nInit = 0 from rfl, Nat.zero_add] at hk h
  rcases h with h | ⟨v, info, rest, h1, h2, h3⟩
  · rw [h]
    constructor
    · simp [isSetVersion]
    · intro v hv; simp [List.mem_replicate] at hv
  · rw [h3]
    constructor
    · simp [List.filter_append, isSetVersion, List.filter_cons, filter_other_setVersion rest h2]
    · intro w hw
      simp only [List.mem_append, List.mem_replicate, List.mem_cons] at hw
      rcases hw with ⟨_, hw⟩ | hw | hw | hw
      · cases hw
      · cases hw
      · cases hw; exact ⟨k, info, h1, hk⟩
      · simp only [List.all_eq_true] at h2
        have := h2 _ hw
        simp [isOtherReq] at this

/-- **Lazy initialize.**  No operation's helper ever runs on a client that is not initialised: in
the trace, every request other than `initialize` comes after the `set_protocol_version` call. -/
theorem c15_client_lazy_init (a : Answers ι ρ ε) (ops : List Op) (i : Nat) (e : Ev)
    (hi : (run a St.fresh ops).2.2[i]? = some e) (he : isOtherReq e = true) :
    ∃ j v, j < i ∧ (run a St.fresh ops).2.2[j]? = some (Ev.setVersion v) := by
  obtain ⟨k, hk, h⟩ := run_shape a St.fresh ops rfl
  rcases h with h | ⟨v, info, rest, h1, h2, h3⟩
  · rw [h] at hi
    rw [List.getElem?_replicate] at hi
    split at hi
    · cases hi; simp [isOtherReq] at he
    · cases hi
  · rw [h3] at hi ⊢
    have hlen : (List.replicate k (Ev.request Op.init)).length = k := by simp
    by_cases h1' : i < k
    · rw [List.getElem?_append_left (by simpa using h1')] at hi
      rw [List.getElem?_replicate] at hi
      simp [h1'] at hi; subst hi; simp [isOtherReq] at he
    · rw [List.getElem?_append_right (by simp; omega)] at hi
      simp only [hlen] at hi
      refine ⟨k + 1, v, ?_, ?_⟩
      · rcases hd : i - k with _ | _ | n
        · simp [hd] at hi; subst hi; simp [isOtherReq] at he
        · simp [hd] at hi; subst hi; simp [isOtherReq] at he
        · omega
      · rw [List.getElem?_append_right (by simp)]
        simp

/-- an initialised client never initialises again: `initialize()` returns the cached server info
without traffic, every other operation is at most its own helper's request (none when the helper
rejects its arguments before writing) -/
theorem c15_client_initialized_stable (a : Answers ι ρ ε) (st : St ι) (ops : List Op) (h : st.initialized = true) :
    (run a st ops).1.initialized = true ∧ (run a st ops).2.2.all isOtherReq = true
    ∧ (run a st ops).2.2.length ≤ ops.length
    ∧ initOp a st = (st, .cached st.info, []) :=
  ⟨(run_initialized a st ops h).1, (run_initialized a st ops h).2.1, (run_initialized a st ops h).2.2, initOp_initialized a st h⟩

/-- **Arguments the helper rejects** (a tool name that is not a string, arguments that are not an
object …): the operation still initialises a fresh client first, then raises without writing a
request and without consuming an answer of the server — whatever the arguments were, the carrier
never sees them. -/
theorem c15_client_rejected_args (a : Answers ι ρ ε) (st : St ι) (op : Op) (e : ε) (hop : op ≠ .init)
    (hrej : a.rejects st.nOp = some e) :
    (st.initialized = true → (step a st op).2 = (.raised e, []) ∧ (step a st op).1.nCall = st.nCall)
    ∧ (st.initialized = false → ∀ v info, a.inits st.nInit = .ok (v, info) →
        (step a st op).2 = (.raised e, [.request .init, .setVersion v]) ∧ (step a st op).1.nCall = st.nCall) := by
  have hs : step1 a st op = call a st op := by cases op <;> simp_all [step1]
  constructor
  · intro h
    simp [step, hs, call, h, hrej]
  · intro h v info hv
    simp [step, hs, call, initOp, h, hv, hrej]

/-- **The client layer is a function of the transcript only, hence carrier independent.**  Let
`answers` be ANY reading of a read-stream transcript as helper outcomes (that is what C01 / C07 say
`send_message` and the typed helpers are).  For two carriers, a conversation expressible on both and
any legal play on each, the same operations on an `MCPClient` over either carrier return the same
results, leave the same state and do the same things to the transport. -/
theorem c15_client_agnostic {σ μ : Type} (W : Wire σ μ) (conv : List (Exchange σ)) (c₁ c₂ : Carrier)
    (p₁ : Play μ c₁) (p₂ : Play μ c₂)
    (h₁ : Expressible W c₁ conv) (h₂ : Expressible W c₂ conv) (v₁ : p₁.Valid W conv) (v₂ : p₂.Valid W conv)
    (answers : List (Seen μ) → Answers ι ρ ε) (ops : List Op) :
    (run (answers (p₁.observe W conv)) St.fresh ops).2 = (run (answers (p₂.observe W conv)) St.fresh ops).2
    ∧ (connect (answers (p₁.observe W conv)) ops).2 = (connect (answers (p₂.observe W conv)) ops).2 := by
  rw [c15_carrier_agnostic W conv c₁ c₂ p₁ p₂ h₁ h₂ v₁ v₂]
  exact ⟨rfl, rfl⟩

/-- non-vacuity: the first `initialize` is refused, the second answers version "2025-06-18"; a
tool call, an explicit `initialize`, a prompt listing -/
def exAnswers : Answers Nat Nat String :=
  { inits := fun k => if k = 0 then .error "refused" else .ok ("2025-06-18", 7),
    calls := fun k => if k = 1 then .error "no such prompt" else .ok (100 + k),
    rejects := fun k => if k = 4 then some "name must be a string" else none }

example : (run exAnswers St.fresh [.callTool, .callTool, .init, .listPrompts, .callTool, .listTools]).2.2
      = [.request .init, .request .init, .setVersion "2025-06-18", .request .callTool, .request .listPrompts, .request .listTools]
    ∧ (run exAnswers St.fresh [.callTool, .callTool, .init, .listPrompts, .callTool, .listTools]).1.nInit = 2
    ∧ (run exAnswers St.fresh [.callTool, .callTool, .init, .listPrompts, .callTool, .listTools]).1.nCall = 3 := by
  decide

end client

/-! ## 6. which carrier for which server (`is_streamable_http_url`, `is_sse_url`,
`detect_transport_type`, `try_http_with_sse_fallback`)

`Verif.Model.Detect` over the tables re-read from the source on every run (`Verif.Gen.UrlRules`;
when a function has been rewritten into a shape the translator does not recognise, the tables of
the verified commit stay and the correspondence run alone decides).  The theorems hold for whatever
the tables say, except `results_distinct` / `chosen_iff`, which are facts about the tables.  What the network answers is a
parameter (`post`, `get`): everything holds for every server. -/
section detect
open Verif.Model.Detect Verif.Gen.UrlRules

theorem results_distinct : resBoth ≠ resHttp ∧ resBoth ≠ resSse ∧ resBoth ≠ resUnknown ∧ resHttp ≠ resSse
    ∧ resHttp ≠ resUnknown ∧ resSse ≠ resUnknown := by decide

theorem lower_isEmpty (u : List Char) : (lower u).isEmpty = u.isEmpty := by cases u <;> rfl

/-- **URL heuristics.**  `is_streamable_http_url` holds exactly for a non-empty URL that contains
one of the indicators and none of the SSE patterns, case-insensitively; `is_sse_url` is
case-insensitive too.  (So a URL is never classified Streamable-HTTP when it carries an SSE pattern.) -/
theorem c15_url_heuristics (u : List Char) :
    (isStreamableHttpUrl u = true ↔ u ≠ [] ∧ anyIn httpIndicators (lower u) = true ∧ anyIn httpExcluded (lower u) = false)
    ∧ isStreamableHttpUrl (lower u) = isStreamableHttpUrl u
    ∧ isSseUrl (lower u) = isSseUrl u := by
  refine ⟨?_, ?_, ?_⟩
  · simp [isStreamableHttpUrl, and_assoc]
  · simp only [isStreamableHttpUrl, lower_idem, lower_isEmpty]
  · simp only [isSseUrl, lower_idem, lower_isEmpty]

theorem detect_result (post : Probe) (get : List Char → Probe) (url : List Char) :
    (detect post get url).1 =
      (match works postStatuses postTypes post, (probeGets get (probeUrls url)).1 with
       | true, true => resBoth | true, false => resHttp | false, true => resSse | false, false => resUnknown)
    ∧ (detect post get url).2 = (probeGets get (probeUrls url)).2 := by
  simp only [detect]
  cases works postStatuses postTypes post <;> cases (probeGets get (probeUrls url)).1 <;> simp

/-- **Detection is total and says what the probes showed.**  For every server: the result is one of
the four names; it names Streamable HTTP (`streamable_http` / `both`) exactly when the POST probe
was answered with an accepted status and content type; it names SSE (`sse` / `both`) exactly when
one of the probed GET URLs was — so `unknown` exactly when neither. -/
theorem c15_detect_sound (post : Probe) (get : List Char → Probe) (url : List Char) :
    ((detect post get url).1 = resBoth ∨ (detect post get url).1 = resHttp ∨ (detect post get url).1 = resSse
        ∨ (detect post get url).1 = resUnknown)
    ∧ (((detect post get url).1 = resBoth ∨ (detect post get url).1 = resHttp) ↔ works postStatuses postTypes post = true)
    ∧ (((detect post get url).1 = resBoth ∨ (detect post get url).1 = resSse)
        ↔ ∃ u ∈ probeUrls url, works getStatuses getTypes (get u) = true) := by
  obtain ⟨s1, _, _, _⟩ := probeGets_spec get (probeUrls url)
  obtain ⟨d1, d2, d3, d4, d5, d6⟩ := results_distinct
  rw [(detect_result post get url).1, ← s1]
  cases works postStatuses postTypes post <;> cases (probeGets get (probeUrls url)).1 <;>
    simp [d1, d2, d3, d4, d5, d6, Ne.symm d1, Ne.symm d2, Ne.symm d3, Ne.symm d4, Ne.symm d5, Ne.symm d6]

/-- … and the GET probes go through the derived URLs in order and stop at the first usable one -/
theorem c15_detect_probes (post : Probe) (get : List Char → Probe) (url : List Char) :
    (detect post get url).2 ≤ (probeUrls url).length
    ∧ ((∀ u ∈ probeUrls url, works getStatuses getTypes (get u) = false) → (detect post get url).2 = (probeUrls url).length)
    ∧ ((∃ u ∈ probeUrls url, works getStatuses getTypes (get u) = true) →
        ∃ pre u post', probeUrls url = pre ++ u :: post' ∧ (detect post get url).2 = pre.length + 1
          ∧ works getStatuses getTypes (get u) = true ∧ ∀ v ∈ pre, works getStatuses getTypes (get v) = false) := by
  obtain ⟨s1, s2, s3, s4⟩ := probeGets_spec get (probeUrls url)
  rw [(detect_result post get url).2]
  refine ⟨s2, ?_, fun h => s4 (s1.mpr h)⟩
  intro h
  apply s3
  cases hb : (probeGets get (probeUrls url)).1 with
  | false => rfl
  | true =>
    obtain ⟨u, hu, hw⟩ := s1.mp hb
    rw [h u hu] at hw; cases hw

theorem chosen_iff (post : Probe) (get : List Char → Probe) (url : List Char) :
    httpChosenFor.contains (detect post get url).1 = works postStatuses postTypes post := by
  rw [(detect_result post get url).1]
  cases works postStatuses postTypes post <;> cases (probeGets get (probeUrls url)).1 <;> decide

/-- **Fallback: exactly one carrier, and Streamable HTTP only when the probe found it usable.**
`try_http_with_sse_fallback` returns the Streamable-HTTP client exactly when the URL is a valid
HTTP(S) URL and the POST probe worked; otherwise the SSE client for the derived URL when that URL is
valid (whether or not an SSE probe worked — it is a fallback, not a detection); otherwise it raises.
The three outcomes exclude each other, and the server is probed exactly when the URL is valid. -/
theorem c15_fallback_decision (post : Probe) (get : List Char → Probe) (url : List Char) :
    (∀ u, (fallback post get url).1 = .http u ↔
        (validUrl httpUrlPrefixes url = true ∧ works postStatuses postTypes post = true ∧ u = rstripSet httpUrlRstrip.toList url))
    ∧ (∀ u, (fallback post get url).1 = .sse u ↔
        (¬ (validUrl httpUrlPrefixes url = true ∧ works postStatuses postTypes post = true)
          ∧ validUrl sseUrlPrefixes (sseFallbackUrl url) = true ∧ u = rstripSet sseUrlRstrip.toList (sseFallbackUrl url)))
    ∧ ((fallback post get url).1 = .fail ↔
        (¬ (validUrl httpUrlPrefixes url = true ∧ works postStatuses postTypes post = true)
          ∧ validUrl sseUrlPrefixes (sseFallbackUrl url) = false))
    ∧ ((fallback post get url).2 = validUrl httpUrlPrefixes url) := by
  simp only [fallback, chosen_iff, sseBranch]
  cases hv : validUrl httpUrlPrefixes url <;> cases hw : works postStatuses postTypes post <;>
    cases hs : validUrl sseUrlPrefixes (sseFallbackUrl url) <;> simp [eq_comm]

/-- when the HTTP client cannot be created nothing is probed and the answer is `unknown`; otherwise
`detectOr` is `detect` -/
theorem c15_detect_guard (post : Probe) (get : List Char → Probe) (url : List Char) :
    detectOr false post get url = (resUnknown, 0, false)
    ∧ detectOr true post get url = ((detect post get url).1, (detect post get url).2, true) := by
  simp [detectOr]

/-- **`try_sse_with_fallback` decides exactly one way**: the SSE client iff the URL is a valid HTTP(S)
URL; otherwise migration guidance iff the lowered error text contains one of the needles, else the
original exception — whatever that text is. -/
theorem c15_try_sse_decision (url err : List Char) :
    (∀ u, trySse url err = .client u ↔ (validUrl sseUrlPrefixes url = true ∧ u = rstripSet sseUrlRstrip.toList url))
    ∧ (trySse url err = .guidance ↔ (validUrl sseUrlPrefixes url = false ∧ anyIn guidanceNeedles (lower err) = true))
    ∧ (trySse url err = .reraise ↔ (validUrl sseUrlPrefixes url = false ∧ anyIn guidanceNeedles (lower err) = false)) := by
  simp only [trySse]
  cases validUrl sseUrlPrefixes url <;> cases anyIn guidanceNeedles (lower err) <;> simp [eq_comm]

/-- non-vacuity, stated over the regenerated tables themselves (so that a change of an accepted
status, content type or indicator in the source does not touch it): a POST probe answered with the
first accepted status and content type works; with it Streamable HTTP is detected and chosen; a
server that answers nothing gives `unknown` after all GET probes and the SSE fallback; an invalid
URL is not probed at all and, when the derived SSE URL is invalid too, the function raises.
(At the verified commit `probeUrls "http://example.com/mcp"` is `…/sse`, `http://example.co/sse` —
`rstrip("/mcp")` strips a character SET, here the `m` of `.com` — and `…/mcp/sse`.) -/
example :
    let p : Probe := .resp (postStatuses.headD 0) (postTypes.headD "").toList
    let g : Probe := .resp (getStatuses.headD 0) (getTypes.headD "").toList
    let url := "http://h.test/mcp".toList
    works postStatuses postTypes p = true ∧ works getStatuses getTypes g = true
    ∧ detect p (fun _ => .exc) url = (resHttp, (probeUrls url).length)
    ∧ detect p (fun _ => g) url = (resBoth, 1)
    ∧ detect .exc (fun _ => .resp 404 []) url = (resUnknown, (probeUrls url).length)
    ∧ (fallback p (fun _ => .exc) url).1 = .http (rstripSet httpUrlRstrip.toList url)
    ∧ (fallback .exc (fun _ => g) url).1 = .sse (rstripSet sseUrlRstrip.toList (sseFallbackUrl url))
    ∧ fallback p (fun _ => g) [] = (.fail, false)
    ∧ isStreamableHttpUrl [] = false ∧ isSseUrl [] = false
    ∧ trySse url [] = .client (rstripSet sseUrlRstrip.toList url)
    ∧ trySse [] ("X ".toList ++ (guidanceNeedles.headD "").toList.map Char.toUpper) = .guidance
    ∧ trySse [] [] = .reraise := by
  decide

end detect

/-! ## 7. several transports of one kind alive in one process

A host may hold two or three transports of the same kind at once.  In the model every instance has
its own state by construction; the statement below is what that buys, for EVERY machine of the
carrier models (`StdioIn.step`, `SseReq.feed`, `SseReq.step`, …): however the inputs of any number
of instances are interleaved, each instance ends in the state, and has produced the outputs, it
would have alone.  The harness runs 2–3 real transport instances per carrier simultaneously against
this (`twin`), each with its own scripted server and equal request ids. -/
section instances
open Verif.Lemmas.Instances

/-- **Instances are independent.** -/
theorem c15_instances_independent {S E O : Type} (step : Machine S E O) (sts : Nat → S) (evs : List (Nat × E)) (i : Nat) :
    (runTagged step sts evs).1 i = (runM step (sts i) (forInst i evs)).1
    ∧ forInst i (runTagged step sts evs).2 = (runM step (sts i) (forInst i evs)).2 :=
  instances_independent step sts evs i

/-- … for the stdio reader: any number of readers, their reads interleaved in any way — each read
stream is the one `StdioIn.run` (the model of C05 and of section 1) gives for that reader's own reads -/
theorem c15_stdio_instances {μ : Type} (cfg : StdioIn.Cfg μ) (evs : List (Nat × StdioIn.Ev)) (i : Nat) :
    StdioIn.delivered (forInst i (runTagged (StdioIn.step cfg) (fun _ => StdioIn.init) evs).2)
      = StdioIn.delivered (StdioIn.run cfg StdioIn.init (forInst i evs)).2 := by
  rw [(c15_instances_independent (StdioIn.step cfg) (fun _ => StdioIn.init) evs i).2, runM_stdio]

/-- non-vacuity: two readers, reads interleaved, a line of reader 1 cut across reads of reader 0 -/
example :
    let evs : List (Nat × StdioIn.Ev) := [(1, .chunk [123]), (0, .chunk [123, 125, 10]), (1, .chunk [125]), (0, .chunk [91, 93, 10]), (1, .chunk [10])]
    forInst 1 evs = [.chunk [123], .chunk [125], .chunk [10]]
    ∧ StdioIn.delivered (forInst 1 (runTagged (StdioIn.step realStdio) (fun _ => StdioIn.init) evs).2)
        = StdioIn.delivered (StdioIn.run realStdio StdioIn.init [.chunk [123], .chunk [125], .chunk [10]]).2 :=
  ⟨rfl, c15_stdio_instances _ _ 1⟩

end instances

end Verif.Props.C15
