import Verif.Lemmas.Carrier

/-! # C15 — client-observable behaviour does not depend on the transport carrying it

A COMPOSITION property: nothing is re-modelled.  `Verif.Model.Carrier` only says how a
conversation (a list of exchanges, each = notifications followed by one reply, over an abstract
message type `σ`) is written on the wire of each carrier, with every free choice of the carrier's
encoding as a parameter, and which function of the existing models is the read stream:

* stdio — `StdioIn.runChunks` (C05); free: LF / CRLF per line, the cutting of the bytes into reads;
* Streamable HTTP + JSON bodies — `HttpDecide.run` (C11); free: the id POSTed, any accepted
  status, session header, the reply as an object or as a one-element array;
* Streamable HTTP + SSE bodies — `HttpDecide.run` over `Sse.renderText` (C11); free: event field
  absent / `message` / `response`, optional spaces, comment / `id:` / `retry:` lines before every
  field line and before the blank line, events that carry no message (data-less keep-alives,
  comment-only events, extra blank lines, typed non-message events with data) before, between and
  after the message events, LF / CRLF per line, how the body ends;
* legacy SSE — `SseReq.runChunks` then `SseReq.run` (C12); free: events before the first message,
  LF / CRLF per event, the cutting of the stream into chunks, and where the `202` of each POST
  falls among the stream events of its exchange (the race of C12).

`W : Wire σ μ` is the text encoding (`W.enc`) and what a client must see (`W.obs`).  Each
carrier's decoder is its model's PARAMETER; the hypothesis `…Decodes` says that it inverts `W.enc`
on the messages of the conversation and that the text is one line starting with `{` and ending
with `}`.  `c15_real_*` discharge that hypothesis for the library's real codec
(`Json.enc ∘ Rpc.emit` out, `Json.dec` + `parse_message` / `JSONRPCMessage.model_validate` in)
from C02 and C17, for all four carriers.

The transcript is a list of `Seen μ`: `.msg (W.obs s)` — the abstract message itself (kind, id,
payload) — or `.made` for a message the transport made up; the theorems say it is exactly
`conversation.flatten`, so nothing is lost, duplicated, reordered or made up.
-/
set_option linter.unusedVariables false
namespace Verif.Props.C15
open Verif.Model Verif.Model.Carrier Verif.Lemmas.Carrier

variable {σ μ : Type}

/-! ## 1. every carrier delivers exactly the conversation -/

/-- **stdio.**  For every conversation, LF or CRLF after each line, and every cutting of the
encoded byte stream into reads (inside characters and inside CRLF included): when the line
parser inverts the text encoding on the conversation's messages, the read stream is exactly
the conversation, in order. -/
theorem c15_stdio_transcript (cfg : StdioIn.Cfg μ) (W : Wire σ μ) (conv : List (Exchange σ))
    (crlf : List Bool) (chunks : List (List Nat))
    (hdec : ∀ s ∈ msgsOf conv, StdioDecodes cfg W s)
    (hc : chunks.flatten = stdioBytes W conv crlf) :
    stdioObserve cfg chunks = expected W conv :=
  stdio_transcript cfg W conv crlf chunks hdec hc

/-- **Streamable HTTP, JSON bodies.**  One POST per exchange, answered with the reply as a JSON
body — whatever id was POSTed, whatever accepted status and session header, as an object or as
a one-element array: the read stream is exactly the conversation.  Expressible: exchanges
without notifications (a body is one message). -/
theorem c15_httpJson_transcript (dec : HttpDecide.Dec μ) (W : Wire σ μ) (s0 : Option String)
    (conv : List (Exchange σ)) (choices : List PostChoice)
    (hexp : Expressible W .httpJson conv)
    (hst : ∀ c ∈ choices, c.status < 400)
    (hdec : ∀ s ∈ msgsOf conv, HttpDecodes dec W s) :
    httpObserve dec s0 (zipD PostChoice.dflt (jsonPost W) conv choices) = expected W conv :=
  httpJson_transcript dec W s0 conv choices hexp hst hdec

/-- **Streamable HTTP, SSE bodies.**  One POST per exchange, answered with an event-stream body
holding one event per message (notifications, then the reply) in ANY conformant rendering, with
ANY events that carry no message — data-less keep-alives, comment-only events, extra blank lines,
typed non-message events with data — before, between and after them (`EvChoice.before`,
`SseBodyChoice.trailing`; `…ok` = those events are `isNoise` and every ignored line is well-formed):
the read stream is exactly the conversation, notifications before their reply. -/
theorem c15_httpSse_transcript (dec : HttpDecide.Dec μ) (W : Wire σ μ) (s0 : Option String)
    (conv : List (Exchange σ)) (choices : List SseBodyChoice)
    (hok : ∀ c ∈ choices, c.ok = true)
    (hdec : ∀ s ∈ msgsOf conv, HttpDecodes dec W s) :
    httpObserve dec s0 (zipD SseBodyChoice.dflt (sseBodyPost W) conv choices) = expected W conv :=
  httpSse_transcript dec W s0 conv choices hok hdec

/-- **Legacy SSE.**  All messages travel as `message` events on the one event stream (after any
endpoint / keep-alive / comment events), cut into chunks in any way; each POST is answered `202`,
and that `202` may reach the sender before, between or after the stream events of its exchange
(`acks`): the read stream is exactly the conversation.  Expressible: every reply has an id, and
no notification sent before it bears the same one. -/
theorem c15_sse_transcript (dec : Str → Option (SseReq.Msg μ)) (W : Wire σ μ)
    (pre : List (SseReq.Ev × Bool)) (conv : List (Exchange σ)) (crlf : List Bool)
    (chunks : List Str) (acks : List Nat)
    (hexp : Expressible W .sse conv)
    (hpre : ∀ p ∈ pre, p.1.Clean ∧ ∀ d, p.1 ≠ .message d)
    (hdec : ∀ s ∈ msgsOf conv, SseDecodes dec W s)
    (hc : chunks.flatten = sseText W pre conv crlf) :
    sseObserve dec (sseShape W conv acks) chunks = expected W conv :=
  sse_transcript dec W pre conv crlf chunks acks hexp hpre hdec hc

/-- the four statements as one: any carrier `c`, any legal play of the conversation on it -/
theorem c15_transcript (W : Wire σ μ) (conv : List (Exchange σ)) (c : Carrier) (p : Play μ c)
    (hexp : Expressible W c conv) (hv : p.Valid W conv) :
    p.observe W conv = expected W conv := by
  cases p with
  | stdio cfg crlf chunks => exact c15_stdio_transcript cfg W conv crlf chunks hv.1 hv.2
  | httpJson dec s0 choices => exact c15_httpJson_transcript dec W s0 conv choices hexp hv.1 hv.2
  | httpSse dec s0 choices => exact c15_httpSse_transcript dec W s0 conv choices hv.1 hv.2
  | sse dec pre crlf chunks acks =>
    exact c15_sse_transcript dec W pre conv crlf chunks acks hexp hv.1 hv.2.1 hv.2.2

/-! ## 2. hence no carrier differs from another -/

/-- **Carrier independence.**  For any two carriers, a conversation expressible on both, and any
legal play on each (all wire choices free, each decoder inverting the text encoding): the two
read-stream transcripts are equal — same messages (kind, id, payload), same order, notifications
before their replies, nothing made up. -/
theorem c15_carrier_agnostic (W : Wire σ μ) (conv : List (Exchange σ)) (c₁ c₂ : Carrier)
    (p₁ : Play μ c₁) (p₂ : Play μ c₂)
    (h₁ : Expressible W c₁ conv) (h₂ : Expressible W c₂ conv)
    (v₁ : p₁.Valid W conv) (v₂ : p₂.Valid W conv) :
    p₁.observe W conv = p₂.observe W conv := by
  rw [c15_transcript W conv c₁ p₁ h₁ v₁, c15_transcript W conv c₂ p₂ h₂ v₂]

/-- a conversation without notifications whose replies all have ids is expressible everywhere -/
theorem c15_expressible_everywhere (W : Wire σ μ) (conv : List (Exchange σ))
    (h : ∀ e ∈ conv, e.notifs = [] ∧ (W.key e.reply).isSome = true) (c : Carrier) :
    Expressible W c conv := by
  cases c with
  | stdio => trivial
  | httpSse => trivial
  | httpJson => exact fun e he => (h e he).1
  | sse => exact fun e he => ⟨(h e he).2, by simp [(h e he).1]⟩

/-! ## 3. the hypotheses hold for the library's real codec -/
section real
open Verif.Model.Json Verif.Model.Rpc

/-- **stdio, end to end.**  For every message `m` the library's emitters build (C02's `Built`),
with any payload (`wfMsg` only says float tokens are well-formed), serialised by any of the
compact encoder styles (C17): the line `enc (emit m)` contains no LF and no CR, starts with `{`
and ends with `}` (so it is not blank and survives `strip`), and the reader's
`json.loads` + `parse_message` give back exactly the members of `m`. -/
theorem c15_real_codec_stdio (st : Style) (m : Msg) (hb : Built m) (hw : wfMsg m = true) :
    StdioDecodes realStdio (rpcWire st) m :=
  real_stdio_decodes st m hb hw

/-- spelled out on the reader itself: the line of `m` (LF or CRLF terminated, batching on or off)
makes the reader deliver exactly `view m` -/
theorem c15_real_codec_stdio_line (st : Style) (m : Msg) (batching : Bool) (hb : Built m) (hw : wfMsg m = true) :
    CleanWire (enc st (emit m)) ∧
    StdioIn.delivered (StdioIn.processLine realStdio batching (codes (enc st (emit m)))) = [view m] :=
  ⟨(real_stdio_decodes st m hb hw).1, stdio_line realStdio (rpcWire st) m batching (real_stdio_decodes st m hb hw)⟩

/-- **Streamable HTTP.**  The same for `response.json()` + `JSONRPCMessage.model_validate`, for the
object and for the one-element array.  `ObjResult`: a result is a JSON object (the unified message
class accepts no other; every MCP result is one). -/
theorem c15_real_codec_http (st : Style) (m : Msg) (hb : Built m) (hw : wfMsg m = true) (hr : ObjResult m) :
    HttpDecodes realHttp (rpcWire st) m :=
  real_http_decodes st m hb hw hr

/-- **Legacy SSE.**  The same for `json.loads` + `str(id)` + `JSONRPCMessage.model_validate`. -/
theorem c15_real_codec_sse (st : Style) (m : Msg) (hb : Built m) (hw : wfMsg m = true) (hr : ObjResult m) :
    SseDecodes realSse (rpcWire st) m :=
  real_sse_decodes st m hb hw hr

/-- so with the real codec the only hypotheses left are about the conversation itself: its
messages are emitted by the library's constructors, results are objects, and it is expressible;
every legal wire choice on every carrier then yields `conversation.flatten` as parsed views. -/
theorem c15_real_transcript (st : Style) (conv : List (Exchange Msg))
    (hm : ∀ m ∈ msgsOf conv, Built m ∧ wfMsg m = true ∧ ObjResult m) :
    (∀ crlf chunks, chunks.flatten = stdioBytes (rpcWire st) conv crlf →
      stdioObserve realStdio chunks = expected (rpcWire st) conv)
    ∧ (∀ s0 choices, Expressible (rpcWire st) .httpJson conv → (∀ c ∈ choices, c.status < 400) →
      httpObserve realHttp s0 (zipD PostChoice.dflt (jsonPost (rpcWire st)) conv choices) = expected (rpcWire st) conv)
    ∧ (∀ s0 choices, (∀ c ∈ choices, SseBodyChoice.ok c = true) →
      httpObserve realHttp s0 (zipD SseBodyChoice.dflt (sseBodyPost (rpcWire st)) conv choices) = expected (rpcWire st) conv)
    ∧ (∀ pre crlf chunks acks, Expressible (rpcWire st) .sse conv →
      (∀ p ∈ pre, p.1.Clean ∧ ∀ d, p.1 ≠ .message d) → chunks.flatten = sseText (rpcWire st) pre conv crlf →
      sseObserve realSse (sseShape (rpcWire st) conv acks) chunks = expected (rpcWire st) conv) := by
  refine ⟨?_, ?_, ?_, ?_⟩
  · intro crlf chunks hc
    exact c15_stdio_transcript _ _ conv crlf chunks (fun m h => c15_real_codec_stdio st m (hm m h).1 (hm m h).2.1) hc
  · intro s0 choices hexp hst
    exact c15_httpJson_transcript _ _ s0 conv choices hexp hst
      (fun m h => c15_real_codec_http st m (hm m h).1 (hm m h).2.1 (hm m h).2.2)
  · intro s0 choices hok
    exact c15_httpSse_transcript _ _ s0 conv choices hok
      (fun m h => c15_real_codec_http st m (hm m h).1 (hm m h).2.1 (hm m h).2.2)
  · intro pre crlf chunks acks hexp hpre hc
    exact c15_sse_transcript _ _ pre conv crlf chunks acks hexp hpre
      (fun m h => c15_real_codec_sse st m (hm m h).1 (hm m h).2.1 (hm m h).2.2) hc

/-! ### non-vacuity: a concrete conversation through all four pipelines

A notification with non-ASCII text (é, U+2028, an astral character, a combining mark) followed
by a response whose result nests `null`s; then an error reply. -/

def exNotif : Msg :=
  .notification "notifications/message".toList
    (some [("data".toList, .str ['h', 'é', '\u2028', '😀', 'e', '\u0301'])])

def exReply : Msg :=
  .response (.str "r-1".toList) (.obj [("a".toList, .arr [.null, .obj [("b".toList, .null)]]), ("c".toList, .obj [])])

def exError : Msg := .error (some (.str "r-2".toList)) (errObj (-32602) "bad ✗".toList (.obj [("why".toList, .null)]))

def exConv : List (Exchange Msg) := [⟨[exNotif], exReply⟩, ⟨[], exError⟩]
def exConvJson : List (Exchange Msg) := [⟨[], exReply⟩, ⟨[], exError⟩]

theorem exNotif_ok : Built exNotif ∧ wfMsg exNotif = true ∧ ObjResult exNotif :=
  ⟨.createNotification _ _, by decide, trivial⟩
theorem exReply_ok : Built exReply ∧ wfMsg exReply = true ∧ ObjResult exReply :=
  ⟨.createResponse (id := some (.str "r-1".toList))
      (result := .obj [("a".toList, .arr [.null, .obj [("b".toList, .null)]]), ("c".toList, .obj [])]) rfl,
    by decide, trivial⟩
theorem exError_ok : Built exError ∧ wfMsg exError = true ∧ ObjResult exError :=
  ⟨.createErrorResponse (id := some (.str "r-2".toList)) (code := -32602) (message := "bad ✗".toList)
      (data := .obj [("why".toList, .null)]) rfl, by decide, trivial⟩

theorem exConv_ok : ∀ m ∈ msgsOf exConv, Built m ∧ wfMsg m = true ∧ ObjResult m := by
  intro m h
  simp only [msgsOf, exConv, Exchange.msgs, List.flatMap_cons, List.flatMap_nil, List.cons_append, List.nil_append,
    List.append_nil, List.mem_cons, List.not_mem_nil, or_false] at h
  rcases h with rfl | rfl | rfl
  · exact exNotif_ok
  · exact exReply_ok
  · exact exError_ok

theorem exConvJson_ok : ∀ m ∈ msgsOf exConvJson, Built m ∧ wfMsg m = true ∧ ObjResult m := by
  intro m h
  simp only [msgsOf, exConvJson, Exchange.msgs, List.flatMap_cons, List.flatMap_nil, List.cons_append, List.nil_append,
    List.append_nil, List.mem_cons, List.not_mem_nil, or_false] at h
  rcases h with rfl | rfl
  · exact exReply_ok
  · exact exError_ok

theorem exConv_sse : Expressible (rpcWire orjsonStyle) .sse exConv := by
  intro e he
  simp only [exConv, List.mem_cons, List.not_mem_nil, or_false] at he
  rcases he with rfl | rfl
  · refine ⟨rfl, ?_⟩
    intro n hn
    simp only [List.mem_cons, List.not_mem_nil, or_false] at hn
    subst hn
    simp [rpcWire, view, exNotif, exReply]
  · exact ⟨rfl, by intro n hn; cases hn⟩

/-- the text really is non-ASCII on the wire (raw UTF-8 under the orjson style) … -/
example : enc orjsonStyle (emit exNotif)
    = "{\"jsonrpc\":\"2.0\",\"method\":\"notifications/message\",\"params\":{\"data\":\"hé\u2028😀e\u0301\"}}".toList := by
  decide

/-- … stdio: CRLF after the first line; reads cut inside é, inside U+2028, inside 😀 and between
CR and LF -/
example : stdioObserve realStdio (cutAt (stdioBytes (rpcWire orjsonStyle) exConv [true, false]) [70, 72, 76, 85, 200] 0)
    = [.msg (view exNotif), .msg (view exReply), .msg (view exError)] :=
  (c15_real_transcript orjsonStyle exConv exConv_ok).1 [true, false] _ (cutAt_flatten _ _ _)

/-- … JSON bodies: the second reply as a one-element array with status 201 and a session header -/
example : httpObserve realHttp none (zipD PostChoice.dflt (jsonPost (rpcWire stdStyle)) exConvJson
      [⟨some (.str "r-1"), 200, none, false⟩, ⟨some (.str "r-2"), 201, some "S", true⟩])
    = [.msg (view exReply), .msg (view exError)] :=
  (c15_real_transcript stdStyle exConvJson exConvJson_ok).2.1 none _ (fun e he => by
      simp only [exConvJson, List.mem_cons, List.not_mem_nil, or_false] at he
      rcases he with rfl | rfl <;> rfl)
    (by intro c hc
        simp only [List.mem_cons, List.not_mem_nil, or_false] at hc
        rcases hc with rfl | rfl <;> decide)

/-- … SSE bodies: a data-less `ping` keep-alive and a comment-only event first, no event field and
no space after `data:` for the notification, a typed `endpoint` event with data in between, a
comment, `event: response` and an `id:` line after the data for the reply, an extra blank line at
the end, CRLF on some lines, end of file inside the last line -/
def exBody : SseBodyChoice :=
  { post := ⟨some (.str "r-1"), 200, none, false⟩,
    evs := [
      { name := .absent, nameChoice := Sse.dflt, dataChoice := ⟨false, []⟩,
        before := [{ name := some "ping".toList, data := [], nameChoice := Sse.dflt, dataChoices := [] },
                   { name := none, data := [], nameChoice := Sse.dflt, dataChoices := [], after := [.comment " ka".toList] }] },
      { name := .response, nameChoice := ⟨true, [.comment " c".toList]⟩, dataChoice := Sse.dflt,
        after := [.idField true "7".toList],
        before := [{ name := some "endpoint".toList, data := ["{\"jsonrpc\":\"2.0\",\"method\":\"x\"}".toList],
                     nameChoice := Sse.dflt, dataChoices := [] }] }],
    eols := [true, false, true], tail := .noEol,
    trailing := [{ name := none, data := [], nameChoice := Sse.dflt, dataChoices := [] }] }

example : exBody.ok = true := by decide

example : httpObserve realHttp none (zipD SseBodyChoice.dflt (sseBodyPost (rpcWire orjsonStyle)) exConv [exBody])
    = [.msg (view exNotif), .msg (view exReply), .msg (view exError)] :=
  (c15_real_transcript orjsonStyle exConv exConv_ok).2.2.1 none _ (by
    intro c hc
    simp only [List.mem_cons, List.not_mem_nil, or_false] at hc
    subst hc
    decide)

/-- … legacy SSE: endpoint announcement and a comment first, CRLF for the first event, the
stream cut inside a line; the first `202` arrives after the notification, the second one after
the reply (the other order of the race) -/
example : sseObserve realSse (sseShape (rpcWire orjsonStyle) exConv [1, 5])
      (cutAt (sseText (rpcWire orjsonStyle)
        [(.endpoint "/messages/?session_id=s".toList, false), (.comment " hi".toList, true)] exConv [true]) [9, 60, 61] 0)
    = [.msg (view exNotif), .msg (view exReply), .msg (view exError)] :=
  (c15_real_transcript orjsonStyle exConv exConv_ok).2.2.2
    [(.endpoint "/messages/?session_id=s".toList, false), (.comment " hi".toList, true)] [true] _ [1, 5]
    exConv_sse
    (by intro p hp
        simp only [List.mem_cons, List.not_mem_nil, or_false] at hp
        rcases hp with rfl | rfl
        · exact ⟨⟨by decide, by intro c hc; simp at hc; subst hc; decide, by intro c hc; simp at hc; subst hc; decide⟩,
            by intro d h; cases h⟩
        · exact ⟨by simp [SseReq.Ev.Clean], by intro d h; cases h⟩)
    (cutAt_flatten _ _ _)

/-- and two carriers side by side (`c15_carrier_agnostic` instantiated): stdio vs legacy SSE -/
example :
    (Play.stdio realStdio [false, true]
        (cutAt (stdioBytes (rpcWire orjsonStyle) exConv [false, true]) [1, 71] 0)).observe (rpcWire orjsonStyle) exConv
    = (Play.sse realSse [(.endpoint "/m".toList, false)] [] [sseText (rpcWire orjsonStyle) [(.endpoint "/m".toList, false)] exConv []]
        [0, 0]).observe (rpcWire orjsonStyle) exConv :=
  c15_carrier_agnostic _ _ .stdio .sse _ _ trivial exConv_sse
    ⟨fun m h => c15_real_codec_stdio _ m (exConv_ok m h).1 (exConv_ok m h).2.1, cutAt_flatten _ _ _⟩
    ⟨by intro p hp
        simp only [List.mem_cons, List.not_mem_nil, or_false] at hp
        subst hp
        exact ⟨⟨by decide, by intro c hc; simp at hc; subst hc; decide, by intro c hc; simp at hc; subst hc; decide⟩,
          by intro d h; cases h⟩,
      fun m h => c15_real_codec_sse _ m (exConv_ok m h).1 (exConv_ok m h).2.1 (exConv_ok m h).2.2,
      by simp⟩

end real

/-! ## 4. the request helpers agree -/
section helpers
open Verif.Model.Await
variable {α : Type}

/-- **Helper outcomes do not depend on arrival times.**  Two carriers deliver the same message
sequence (by `c15_carrier_agnostic`) at different ticks.  Without cancellation, for two time-ordered
histories with the same messages up to the first message that answers the request (response or
error bearing its id, JSON type included), arriving at `a₁` resp. `a₂`, both before the deadline —
whatever the ticks, whatever follows: the helper (`Await.run`) ends with the same outcome (the
result / the classified error of that message), the same writes, the same progress callbacks
and the same number of consumed messages; only the completion time is the carrier's. -/
theorem c15_helpers_agree (R : Int → Bool) (cfg : Cfg α)
    (hpre : cfg.preCancelled = false) (hc : cfg.cancelAt = none)
    (pre₁ pre₂ post₁ post₂ : List (Nat × In α)) (a₁ a₂ : Nat) (m : In α)
    (hsame : pre₁.map (·.2) = pre₂.map (·.2))
    (hno : NoMatch cfg pre₁) (hm : isMatch cfg m = true)
    (hs₁ : Sorted (pre₁ ++ [(a₁, m)])) (hs₂ : Sorted (pre₂ ++ [(a₂, m)]))
    (h₁ : a₁ < cfg.D) (h₂ : a₂ < cfg.D) :
    let o₁ := run R cfg (pre₁ ++ (a₁, m) :: post₁)
    let o₂ := run R cfg (pre₂ ++ (a₂, m) :: post₂)
    o₁.outcome = o₂.outcome ∧ o₁.outcome = final R cfg m ∧ o₁.writes = o₂.writes
      ∧ o₁.callbacks = o₂.callbacks ∧ o₁.consumed = o₂.consumed ∧ o₁.time = a₁ ∧ o₂.time = a₂ :=
  helpers_agree R cfg hpre hc pre₁ pre₂ post₁ post₂ a₁ a₂ m hsame hno hm hs₁ hs₂ h₁ h₂

def exCfg : Cfg Nat :=
  { reqId := .str "r-1", D := 5120, P := 512, hP := by decide, preCancelled := false, cancelAt := none,
    token := none, zero := 0, eventsFirst := true, cbRaises := fun _ => false }

/-- non-vacuity: a notification then the response, arriving at ticks (1, 1) on one carrier and
(300, 1700) — across three poll periods — on the other; different traffic afterwards -/
example :
    (run (fun _ => false) exCfg ([(1, .notif "n")] ++ (1, .resp (.str "r-1") 7) :: [])).outcome
      = (run (fun _ => false) exCfg ([(300, .notif "n")] ++ (1700, .resp (.str "r-1") 7) :: [(1800, .notif "x")])).outcome
    ∧ (run (fun _ => false) exCfg ([(1, .notif "n")] ++ (1, .resp (.str "r-1") 7) :: [])).outcome = .returned 7 := by
  have := c15_helpers_agree (fun _ => false) exCfg rfl rfl [(1, .notif "n")] [(300, .notif "n")] [] [(1800, .notif "x")]
    1 1700 (.resp (.str "r-1") 7) rfl
    (by intro x hx; simp at hx; subst hx; simp [isMatch])
    (by simp [isMatch, exCfg]) (by simp [Sorted]) (by simp [Sorted]) (by decide) (by decide)
  exact ⟨this.1, by rw [this.2.1]; simp [final, Await.classify, exCfg]⟩

end helpers

end Verif.Props.C15
