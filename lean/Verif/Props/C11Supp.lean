import Verif.Props.C11
import Verif.Lemmas.HttpHeaders
import Verif.Lemmas.SseStream
import Verif.Gen.HttpParams

/-! # C11 — supplementary obligations (not stated by the property text)

Built and audited on every run like `Props/C11.lean`; a failure here (a regenerated validator
outside the translator's subset, a proof that depended on a generated shape) is reported as INFO
and in the evidence, never as a verdict about C11 (DESIGN 9.9).  Here: options of
`StreamableHTTPParameters` do not matter, several transports in one process are independent,
closing with requests outstanding, header construction, the streaming branch of
`_process_sse_response`, and the field validators regenerated into `Gen/HttpParams.lean`. -/
namespace Verif.Props.C11
open Verif.Model.Sse Verif.Model.HttpDecide

variable {P : Type}

/-- Media types are compared case-insensitively: two `Content-Type` values that differ only in
letter case are the same kind of answer. -/
theorem c11_ctype_case_insensitive (h1 h2 : List Char) (h : h1.map Char.toLower = h2.map Char.toLower) :
    ctypeOf (some h1) = ctypeOf (some h2) := by
  unfold ctypeOf
  simp only []
  rw [h]

example : ctypeOf (some "Application/JSON; Charset=UTF-8".toList) = .json ∧ ctypeOf (some "TEXT/Event-Stream".toList) = .sse ∧
    ctypeOf (some "text/plain".toList) = .other ∧ ctypeOf none = .absent ∧ ctypeOf (some []) = .other := by
  decide

/-- Options do not matter: whatever `enable_streaming`, `max_retries`, `retry_delay`, `timeout`,
`max_concurrent_requests` and `user_agent` are set to, every answer — failures and unusual bodies
included — is turned into the same messages and the same session headers. -/
theorem c11_options_irrelevant (o1 o2 : Options) (dec : Dec P) (s : Option String) (rs : List (Req × Behaviour)) :
    (runWith o1 dec s rs).outs = (runWith o2 dec s rs).outs ∧ (runWith o1 dec s rs).hdrs = (runWith o2 dec s rs).hdrs ∧
    (runWith o1 dec s rs).outs = rs.flatMap (fun p => outcome dec p.1.id p.2) :=
  ⟨rfl, rfl, run_outs dec s rs⟩

/-- Several transports in one process, their POSTs interleaved in any order: what instance `i`
delivers and the session headers it sends are what it would deliver and send alone — no state is
shared between instances, equal ids on different instances do not meet. -/
theorem c11_instances_independent (dec : Dec P) (σ : Nat → Option String) (i : Nat)
    (evs : List (Nat × Req × Behaviour)) :
    (runInterleaved dec σ evs).filterMap (fun t => if t.1 = i then some t.2 else none)
      = runSteps dec (σ i) (ofInstance i evs) ∧
    (runSteps dec (σ i) (ofInstance i evs)).flatMap (·.1) = (run dec (σ i) (ofInstance i evs)).outs ∧
    (runSteps dec (σ i) (ofInstance i evs)).map (·.2) = (run dec (σ i) (ofInstance i evs)).hdrs :=
  ⟨runInterleaved_instance dec i evs σ, (runSteps_run dec _ _).1, (runSteps_run dec _ _).2⟩

/-- Closing the connection.  What is delivered is exactly what the POSTs completed before the
close deliver (each of those requests has its one terminal message by the theorems above);
nothing is delivered for a request outstanding at close, and then — and only then — the reader
sees end-of-stream instead of waiting: every request gets its terminal message or the stream
is closed. -/
theorem c11_close (dec : Dec P) (s : Option String) (evs : List Ev) :
    (runEvents dec s evs).outs = (beforeClose evs).flatMap (fun p => outcome dec p.1.id p.2) ∧
    (runEvents dec s evs).hdrs = (run dec s (beforeClose evs)).hdrs ∧
    ((runEvents dec s evs).closed = true ↔ Ev.close ∈ evs) ∧
    (outstanding evs ≠ [] → (runEvents dec s evs).closed = true) := by
  have h := runEvents_eq dec s evs
  refine ⟨by rw [h.1, run_outs], h.2.1, h.2.2, ?_⟩
  intro hne
  rw [h.2.2]
  clear h
  induction evs with
  | nil => simp [outstanding] at hne
  | cons e es ih =>
    cases e with
    | close => simp
    | post r b => simp only [outstanding] at hne; simp [ih hne]

example :
    let evs : List Ev := [.post ⟨some (.int 1)⟩ (.exc .other), .close, .post ⟨some (.int 2)⟩ (.exc .other)]
    (runEvents (P := Nat) ⟨fun _ => none⟩ none evs).outs = [.synth (some (.int 1))] ∧
    (runEvents (P := Nat) ⟨fun _ => none⟩ none evs).closed = true ∧
    outstanding evs = [⟨some (.int 2)⟩] := by
  decide

/-! ## Header construction (supplementary: `parameters.py` `setup_auth_headers`,
`transport.py` `_send_message_internal` lines 171-200) -/

section headers
open Verif.Model.HttpHeaders

/-- Every POST carries `Content-Type: application/json` and
`Accept: application/json, text/event-stream` under exactly those keys, whatever the caller
configured: configured headers never replace the two protocol headers. -/
theorem c11_post_protocol_headers (cfg : Hdrs) (env session : Option (List Char)) :
    dictGet (postHeaders cfg env session) kContentType = some vJson ∧
    dictGet (postHeaders cfg env session) kAccept = some vAccept :=
  post_protocol_headers cfg env session

/-- Session header.  Under the key `Mcp-Session-Id` a POST carries the known session id; when
none is known (none received, none configured) only what the caller's own header dict says.
On the wire: provided the caller configured no header spelt `mcp-session-id` in any case, the
values sent for that name are exactly the known session id — nothing before one is known, and
only the latest afterwards (`session` is the state of `c11_session_header_latest`). -/
theorem c11_post_session_header (cfg : Hdrs) (env session : Option (List Char)) :
    dictGet (postHeaders cfg env session) kSession =
      (truthy session).or (dictGetLast cfg kSession) ∧
    (hasCI cfg ciSession = false →
      wireValues (postHeaders cfg env session) kSession = (truthy session).toList) :=
  ⟨post_session_get cfg env session, post_session_wire cfg env session⟩

/-- Authorization, transport stage: a configured `Authorization` header wins; otherwise the
`MCP_BEARER_TOKEN` environment variable (when non-empty) is sent as a bearer token. -/
theorem c11_post_authorization (cfg : Hdrs) (env session : Option (List Char)) :
    dictGet (postHeaders cfg env session) kAuthorization =
      (dictGetLast cfg kAuthorization).or ((truthy env).map bearerFmt) :=
  post_authorization cfg env session

/-- Authorization and User-Agent, parameters stage: the caller's own entries are kept as they
are (the stage only appends); `bearer_token` becomes an `Authorization` header exactly when it is
non-empty and the caller configured no header spelt `authorization` in any case; a `User-Agent`
is added exactly when none is configured in any case. -/
theorem c11_params_auth_headers (c : Cfg) :
    (∃ extra, setupAuth c = c.headers ++ extra) ∧
    (∀ b, c.bearer = some b → b ≠ [] → hasCI c.headers ciAuthorization = false →
        dictGet (setupAuth c) kAuthorization = some (bearerFmt b)) ∧
    (hasCI c.headers ciUserAgent = false → dictGet (setupAuth c) kUserAgent = some c.userAgent) :=
  ⟨setupAuth_append c, setupAuth_bearer c, setupAuth_userAgent c⟩

/-- Every other configured header reaches the POST with the caller's value. -/
theorem c11_post_custom_headers (cfg : Hdrs) (env session : Option (List Char)) (k : List Char)
    (h1 : k ≠ kContentType) (h2 : k ≠ kAccept) (h3 : k ≠ kAuthorization) (h4 : k ≠ kSession) :
    dictGet (postHeaders cfg env session) k = dictGetLast cfg k :=
  post_custom cfg env session k h1 h2 h3 h4

example :
    let c : Cfg := { headers := [("X-Trace".toList, "1".toList), ("accept".toList, "*/*".toList)],
                     userAgent := "chuk-mcp/1.0.0".toList, bearer := some "tok".toList }
    setupAuth c = c.headers ++ [(kUserAgent, "chuk-mcp/1.0.0".toList), (kAuthorization, "Bearer tok".toList)] ∧
    postHeaders (setupAuth c) (some "envtok".toList) (some "S1".toList) =
      [(kContentType, vJson), (kAccept, vAccept), ("X-Trace".toList, "1".toList), ("accept".toList, "*/*".toList),
       (kUserAgent, "chuk-mcp/1.0.0".toList), (kAuthorization, "Bearer tok".toList), (kSession, "S1".toList)] ∧
    wireValues (postHeaders (setupAuth c) none none) kSession = [] ∧
    -- the hypothesis of the wire-level statement is needed: a caller header spelt in lower case is sent as well
    wireValues (postHeaders [("mcp-session-id".toList, "old".toList)] none (some "NEW".toList)) kSession
      = ["old".toList, "NEW".toList] := by
  decide

end headers

/-! ## The streaming branch of `_process_sse_response` (supplementary; unreachable with httpx,
see `Verif.Model.SseStream`) -/

section stream
open Verif.Model.SseStream

/-- Chunk independence: however the body is cut into chunks (inside a line, inside a CRLF,
inside a multi-byte character's neighbourhood, one character at a time), the streaming branch
yields what it yields for the whole body in one chunk. -/
theorem c11_stream_chunk_independent (chunks : List (List Char)) :
    parseStream chunks = parseStream [chunks.flatten] :=
  parseStream_chunks chunks

/-- On the encodings its (pre-repair) grammar understands — explicit event type, one space
after each colon, LF or CRLF, every event terminated by its blank line — the streaming branch
yields exactly the events, in order, for every chunking. -/
theorem c11_stream_plain_encodings (evs : List PlainEvent) (eols : List Bool) (chunks : List (List Char))
    (h : ∀ e ∈ evs, PlainOk e = true) (hc : chunks.flatten = withEols (evs.flatMap plainLines) eols) :
    parseStream chunks = evs.map (fun e => (e.name, joinNl e.data)) :=
  parseStream_plain evs eols chunks h hc

/-- non-vacuity, and what the branch would lose if it were ever reached: an event without
event field, a field without the space, an unterminated last line -/
example :
    parseStream ["event: mess".toList, "age\r".toList, "\ndata: {}\r\n\r".toList, "\n".toList]
      = [("message".toList, "{}".toList)] ∧
    parseStream ["data: {}\n\n".toList] = [] ∧ parseText "data: {}\n\n".toList = [("message".toList, "{}".toList)] ∧
    parseStream ["event:message\ndata:{}\n\n".toList] = [] ∧
    parseStream ["event: message\ndata: {}".toList] = [] := by
  decide

end stream

/-! ## Parameter validation (supplementary; `Verif.Gen.HttpParams` is REGENERATED from the
field validators of `StreamableHTTPParameters` on every run) -/

section params
open Verif.Gen.HttpParams

/-- Proof scripts below start with `gate`: when a validator was outside the translator's subset the
generated definitions are placeholders and the hypothesis `translatable = true` is false (the runner
reports "Gen/HttpParams.lean not regenerated" as INFO from the translator's report). -/
macro "gate " t:tacticSeq : tactic =>
  `(tactic| first | (intro h; exact absurd h (by decide)) | (intro _; ($t)))

/-- Accept-iff, for every value: a URL is accepted exactly when it starts with `http://` or
`https://`; `timeout` and `max_concurrent_requests` exactly when positive; `max_retries` and
`retry_delay` exactly when non-negative. -/
theorem c11_params_accept_iff : translatable = true →
    ((∀ u : List Char, urlAccept u = true ↔
        (("http://".toList).isPrefixOf u = true ∨ ("https://".toList).isPrefixOf u = true)) ∧
    (∀ t : Int, timeoutAccept t = true ↔ 0 < t) ∧
    (∀ n : Int, maxConcurrentRequestsAccept n = true ↔ 0 < n) ∧
    (∀ n : Int, maxRetriesAccept n = true ↔ 0 ≤ n) ∧
    (∀ d : Int, retryDelayAccept d = true ↔ 0 ≤ d)) := by
  gate
    refine ⟨?_, ?_, ?_, ?_, ?_⟩
    · intro u
      cases u with
      | nil => decide
      | cons c cs => simp [urlAccept]
    · intro t; simp [timeoutAccept]
    · intro n; simp [maxConcurrentRequestsAccept]
    · intro n; simp [maxRetriesAccept]
    · intro d; simp [retryDelayAccept]

/-- The stored URL is the given one without its trailing slashes: a prefix of it, not ending in
`/`, and normalising again changes nothing. -/
theorem c11_params_url_normalised (u : List Char) : translatable = true →
    (urlNormalize u <+: u ∧ (urlNormalize u).getLast? ≠ some '/' ∧ urlNormalize (urlNormalize u) = urlNormalize u) := by
  gate
    have hhead : ∀ l : List Char, (l.dropWhile (· == '/')).head? ≠ some '/' := by
      intro l
      have := List.head?_dropWhile_not (fun c : Char => c == '/') l
      cases h : (l.dropWhile (· == '/')).head? with
      | none => simp
      | some x => simp [h] at this; simpa using this
    have hlast : (urlNormalize u).getLast? ≠ some '/' := by
      unfold urlNormalize
      rw [List.getLast?_reverse]
      exact hhead _
    refine ⟨?_, hlast, ?_⟩
    · unfold urlNormalize
      have := List.dropWhile_suffix (fun c : Char => c == '/') (l := u.reverse)
      have h2 := List.reverse_prefix.mpr this
      simpa using h2
    · generalize hw : urlNormalize u = w at hlast
      unfold urlNormalize
      have : w.reverse.dropWhile (· == '/') = w.reverse := by
        cases hr : w.reverse with
        | nil => rfl
        | cons c cs =>
          have hl : w.getLast? = some c := by
            have := congrArg List.head? hr
            simpa [List.head?_reverse] using this
          have : c ≠ '/' := by intro e; exact hlast (by rw [hl, e])
          have hb : (c == '/') = false := by simpa using this
          simp [List.dropWhile, hb]
      rw [this]; simp

example : translatable = true → (
    urlAccept "https://h/mcp/".toList = true ∧ urlNormalize "https://h/mcp//".toList = "https://h/mcp".toList ∧
    urlAccept "ftp://h".toList = false ∧ urlAccept [] = false ∧ timeoutAccept 0 = false ∧ timeoutAccept 1 = true ∧
    maxRetriesAccept 0 = true ∧ maxRetriesAccept (-1) = false ∧ maxConcurrentRequestsAccept 0 = false) := by
  gate
    decide

end params

end Verif.Props.C11
