import Verif.Gen.Schemas
import Verif.Gen.DumpSites
import Verif.Gen.Builders
import Verif.Lemmas.SchemaGen

/-! # C10 — typed protocol models are lossless views of the wire and use wire names

`validate` then `model_dump(by_alias=True, exclude_none=True)` is modelled in `Model/Schema.lean`
over the class table regenerated from the package (`Gen/Schemas.lean`); the library's own dump
calls are a table regenerated from the AST of every file under `src/` (`Gen/DumpSites.lean`).
-/
set_option linter.unusedSimpArgs false
namespace Verif.Props.C10
open Verif.Model.Schema Verif.Gen.Schemas Verif.Gen.DumpSites Verif.Gen.Builders Verif.Lemmas.Schema Verif.Lemmas.SchemaGen

/-- Both generated tables lie in the translators' subsets. -/
theorem c10_translated : Verif.Gen.Schemas.translatable = true ∧ Verif.Gen.DumpSites.translatable = true := by
  decide

/-- **Lossless.**  For EVERY type expression and EVERY spec-valid wire value `j` (no bound on depth or
size) the typed view re-serialises to a value in which every member of `j` is preserved exactly —
unknown members included, aliased members (`_meta`, `schema`) under their wire names: the fallback
accepts `j` and `Preserved j (model_dump(by_alias=True, exclude_none=True))`. -/
theorem c10_lossless (inv : String → Obj → Bool) (t : Ty) (j : Json)
    (hc : conforms (cfgOf inv) t j = true) (hu : unamb (cfgOf inv) t j = true) :
    ∃ v, validate (cfgOf inv) t j = .ok v ∧ Preserved j (dump (cfgOf inv) true true v) := by
  obtain ⟨v, hv, hd⟩ := conforming_identity (cfgOf_wf inv) t j hc hu
  refine ⟨v, hv, ?_⟩
  rw [hd]
  exact (expected_preserves_and_adds_defaults (cfgOf_wf inv) t j hc).1

/-- **Added members are declared defaults.**  Walking input and output along the type: at every
typed object, a member of the output that the input did not carry is the wire name of a declared
field of the class together with the dump of its declared default. -/
theorem c10_added_are_defaults (inv : String → Obj → Bool) (t : Ty) (j : Json)
    (hc : conforms (cfgOf inv) t j = true) (hu : unamb (cfgOf inv) t j = true) :
    ∃ v, validate (cfgOf inv) t j = .ok v ∧ AddedOk (cfgOf inv) t j (dump (cfgOf inv) true true v) := by
  obtain ⟨v, hv, hd⟩ := conforming_identity (cfgOf_wf inv) t j hc hu
  refine ⟨v, hv, ?_⟩
  rw [hd]
  exact (expected_preserves_and_adds_defaults (cfgOf_wf inv) t j hc).2

/-- non-vacuity: an elicitation request with its aliased member `schema`, an unknown member and
no optional member is conforming (so the two theorems above speak about it). -/
example :
    let j := Json.obj [("message", .str "m"), ("schema", .obj [("type", .str "object"), ("x", .null)]), ("extra", .int 1)]
    conforms (cfgOf docInv) (.ref "ElicitationParams") j = true
    ∧ unamb (cfgOf docInv) (.ref "ElicitationParams") j = true := by
  simp [conforms, conformsMembers, conformsVals, unamb, unambMembers, unambVals, cfgOf, Cfg.find, classes,
    Class.byWire, Class.byName, Class.attrOf, Class.hooked, keysNodup, hasKey, lookup, Ty.isTag, Ty.isOpt, Json.isNull]

/-- **Library-side serialisers use wire names.**  Every `.model_dump(` / `.model_dump_json(` call in
`src/` whose result can reach the wire and whose (statically known) receiver class reaches a field
with an alias passes `by_alias=True`.  (Finite table regenerated from the AST on every run.) -/
theorem c10_dump_sites_use_wire_names :
    ∀ s ∈ sites, s.feedsWire = true → s.classHasAlias = true → s.byAlias = true := by
  decide +kernel

/-- non-vacuity: the table has wire-feeding sites, some with resolved receiver classes -/
example : ∃ s ∈ sites, s.feedsWire = true ∧ s.resolved = true := by decide +kernel

/-! ## Library-side constructors and parsers (`create_*` / `parse_*` helpers)

`Gen/Builders.lean` is REGENERATED from the AST of the helpers of `types/content.py`, `types/tools.py`,
`types/elicitation.py`, `types/errors.py`, `messages/json_rpc_message.py`, the completions and roots
modules: every helper whose body is straight-line construction becomes a `Builder` expression, every
`parse_*` that dispatches on a member becomes a `ParseTable`. -/

/-- Every generated helper fits the generated schemas: each constructor call names a discovered
class, passes declared attribute names only (each once), supplies every required field, and every
constant it passes fits the declared type of its field (`type="image"` for `Literal["image"]`, …). -/
theorem c10_builders_fit_schemas : ∀ b ∈ builders, builderOk classes b = true := by decide +kernel

/-- No attribute name of a discovered class is the wire name of another field of the class (so alias
processing cannot confuse a keyword argument with a wire member). -/
theorem c10_names_apart : ∀ c ∈ classes, namesApart c = true := by decide +kernel

/-- **Construction by attribute name = construction from the wire object**, for every discovered class
and EVERY object: renaming wire-named members to the Python attribute names (what the library's own
constructors pass as keyword arguments) does not change the typed value. -/
theorem c10_construct_by_attribute_names (inv : String → Obj → Bool) (cls : String) (c : Class)
    (hfind : (cfgOf inv).find cls = some c) (kvs : Obj)
    (hinv : inv c.id (kvs.map (fun p => (c.attrOf p.1, p.2))) = inv c.id kvs) :
    validate (cfgOf inv) (.ref cls) (.obj (kvs.map (fun p => (c.attrOf p.1, p.2))))
      = validate (cfgOf inv) (.ref cls) (.obj kvs) :=
  construct_by_attribute_names (classWF_sound (schemas_wellformed c (find_mem hfind)))
    (c10_names_apart c (find_mem hfind)) hfind kvs hinv

/-- **No `None` members**: with `exclude_none=True` no member of a dumped model object is `null` —
for every typed value, with or without aliases. -/
theorem c10_no_none_members (inv : String → Obj → Bool) (byAlias : Bool) (cls : String) (fs : List (String × TVal)) :
    ∀ m ∈ dumpFields (cfgOf inv) byAlias true cls fs, m.2.isNull = false :=
  dumpFields_no_null byAlias cls fs

/-- **What a helper builds dumps to exactly the wire form.**  For ANY builder expression (in
particular every generated `create_*` helper) and any arguments: if the helper hands keyword arguments
`a` (declared attribute names) to the constructor of `cls` and the same members under their wire names
are a spec-valid object `w`, the helper succeeds and
`model_dump(by_alias=True, exclude_none=True)` of its result is `expected w` — wire names (`schema`,
`_meta`), declared defaults, nothing else. -/
theorem c10_helpers_emit_wire_form (inv : String → Obj → Bool) (b : Builder) (cls : String) (c : Class)
    (args a : Obj) (hret : b.ret.retClass = some cls) (hfind : (cfgOf inv).find cls = some c)
    (heval : b.eval args = some (.obj a)) (hattr : ∀ p ∈ a, (c.byName p.1).isSome = true)
    (hinv : inv c.id a = inv c.id (a.map (fun p => (toWire c p.1, p.2))))
    (hc : conforms (cfgOf inv) (.ref cls) (.obj (a.map (fun p => (toWire c p.1, p.2)))) = true)
    (hu : unamb (cfgOf inv) (.ref cls) (.obj (a.map (fun p => (toWire c p.1, p.2)))) = true) :
    ∃ v, b.run (cfgOf inv) args = .ok v
      ∧ dump (cfgOf inv) true true v = expected (cfgOf inv) (.ref cls) (.obj (a.map (fun p => (toWire c p.1, p.2)))) :=
  builder_emits_wire_form (cfgOf_wf inv) b cls c args a hret hfind (c10_names_apart c (find_mem hfind)) heval hattr hinv hc hu

/-- non-vacuity (a literal copy of what the translator emits for `create_structured_tool_result`, so
that the example does not depend on the helper staying inside the translator's subset):
`create_structured_tool_result(data={}, schema={"a": 1})` dumps with the wire name `schema` (not
`schema_`) and without `None` members -/
private def demoBuilder : Builder :=
  { module := "m", name := "create_structured_tool_result",
    params := [("data", none), ("schema", some .null), ("mime_type", some (.str "application/json")), ("is_error", some (.bool false))],
    body := [.assign "structured_content" (.model "StructuredContent" [("type", .const (.str "structured")),
      ("data", .param "data"), ("schema_", .param "schema"), ("mimeType", .param "mime_type")])],
    ret := .model "ToolResult@protocol.types.tools" [("structuredContent", .list [.param "structured_content"]),
      ("isError", .param "is_error")] }

example :
    (demoBuilder.run (cfgOf docInv) [("data", .obj []), ("schema", .obj [("a", .int 1)])]).toOption.map (dump (cfgOf docInv) true true)
    = some (.obj [("structuredContent", .arr [.obj [("type", .str "structured"), ("data", .obj []),
        ("schema", .obj [("a", .int 1)]), ("mimeType", .str "application/json")]]), ("isError", .bool false)]) := by
  simp [demoBuilder, Builder.run, Builder.eval, bindParams, execBody, execStmt, evalB, evalBList, evalBKws, evalBDict, evalKey,
    BExpr.retClass, lookup, setKey, validate, validateList, validateVals, validateMembers, assemble, collapse, fieldValue,
    seqFields, cfgOf, Cfg.find, classes, Class.byName, Class.byWire, Class.attrOf, Class.hooked, validatePrim, exactAny,
    dump, dumpFields, dumpList, dumpVals, outKey, TVal.isNone, Except.toOption, Ty.isOpt, hasKey]

/-- Every generated dispatch table is sound: each tag's entry names a discovered class that declares
the dispatch member as `Literal[tag]`. -/
theorem c10_parse_tables_fit_schemas : ∀ p ∈ parsers, parseTableOk classes p = true := by decide +kernel

/-- **`parse ∘ wire form` loses nothing.**  For every generated `parse_*` dispatch table, every entry
`(tag, cls)` and EVERY spec-valid object of `cls`: the parser picks `cls` and the typed value dumps back
to the specified value, in which every member of the input is preserved. -/
theorem c10_parse_dispatch_lossless (inv : String → Obj → Bool) :
    ∀ p ∈ parsers, ∀ e ∈ p.table, ∀ j, conforms (cfgOf inv) (.ref e.2) j = true → unamb (cfgOf inv) (.ref e.2) j = true →
      ∃ v, p.run (cfgOf inv) j = .ok v ∧ dump (cfgOf inv) true true v = expected (cfgOf inv) (.ref e.2) j
        ∧ Preserved j (dump (cfgOf inv) true true v) := by
  intro p hp e he j hc hu
  have hok : parseEntryOk classes p (e.1, e.2) = true :=
    List.all_eq_true.mp (c10_parse_tables_fit_schemas p hp) e he
  obtain ⟨v, hv, hd⟩ := parse_dispatch (cfgOf_wf inv) p e.1 e.2 hok j hc hu
  exact ⟨v, hv, hd, by rw [hd]; exact (expected_preserves_and_adds_defaults (cfgOf_wf inv) _ j hc).1⟩

end Verif.Props.C10
