import Verif.Gen.Schemas
import Verif.Gen.DumpSites
import Verif.Lemmas.SchemaGen

/-! # C10 — typed protocol models are lossless views of the wire and use wire names

`validate` then `model_dump(by_alias=True, exclude_none=True)` is modelled in `Model/Schema.lean`
over the class table regenerated from the package (`Gen/Schemas.lean`); the library's own dump
calls are a table regenerated from the AST of every file under `src/` (`Gen/DumpSites.lean`).
-/
set_option linter.unusedSimpArgs false
namespace Verif.Props.C10
open Verif.Model.Schema Verif.Gen.Schemas Verif.Gen.DumpSites Verif.Lemmas.Schema Verif.Lemmas.SchemaGen

/-- Both generated tables lie in the translators' subsets. -/
theorem c10_translated : Verif.Gen.Schemas.translatable = true ∧ Verif.Gen.DumpSites.translatable = true := by
  decide

/-- **Lossless.**  For EVERY type expression and EVERY spec-valid wire value `j` (no bound on depth or
size) the typed view re-serialises to a value in which every member of `j` is preserved exactly —
unknown members included, aliased members (`_meta`, `schema`) under their wire names: the fallback
accepts `j` and `Preserved j (model_dump(by_alias=True, exclude_none=True))`. -/
theorem c10_lossless (inv : String → Obj → Bool) (t : Ty) (j : Json)
    (hc : conforms (cfgOf inv) t j = true) (hu : unamb (cfgOf inv) t j = true) :
    ∃ v, validate (cfgOf inv) t j = .ok v ∧ Preserved j (dump (cfgOf inv) true true v) := by
  obtain ⟨v, hv, hd⟩ := conforming_identity (cfgOf_wf inv) t j hc hu
  refine ⟨v, hv, ?_⟩
  rw [hd]
  exact (expected_preserves_and_adds_defaults (cfgOf_wf inv) t j hc).1

/-- **Added members are declared defaults.**  Walking input and output along the type: at every
typed object, a member of the output that the input did not carry is the wire name of a declared
field of the class together with the dump of its declared default. -/
theorem c10_added_are_defaults (inv : String → Obj → Bool) (t : Ty) (j : Json)
    (hc : conforms (cfgOf inv) t j = true) (hu : unamb (cfgOf inv) t j = true) :
    ∃ v, validate (cfgOf inv) t j = .ok v ∧ AddedOk (cfgOf inv) t j (dump (cfgOf inv) true true v) := by
  obtain ⟨v, hv, hd⟩ := conforming_identity (cfgOf_wf inv) t j hc hu
  refine ⟨v, hv, ?_⟩
  rw [hd]
  exact (expected_preserves_and_adds_defaults (cfgOf_wf inv) t j hc).2

/-- non-vacuity: an elicitation request with its aliased member `schema`, an unknown member and
no optional member is conforming (so the two theorems above speak about it). -/
example :
    let j := Json.obj [("message", .str "m"), ("schema", .obj [("type", .str "object"), ("x", .null)]), ("extra", .int 1)]
    conforms (cfgOf docInv) (.ref "ElicitationParams") j = true
    ∧ unamb (cfgOf docInv) (.ref "ElicitationParams") j = true := by
  simp [conforms, conformsMembers, conformsVals, unamb, unambMembers, unambVals, cfgOf, Cfg.find, classes,
    Class.byWire, Class.byName, Class.attrOf, Class.hooked, keysNodup, hasKey, lookup, Ty.isTag, Ty.isOpt, Json.isNull]

/-- **Library-side serialisers use wire names.**  Every `.model_dump(` / `.model_dump_json(` call in
`src/` whose result can reach the wire and whose (statically known) receiver class reaches a field
with an alias passes `by_alias=True`.  (Finite table regenerated from the AST on every run.) -/
theorem c10_dump_sites_use_wire_names :
    ∀ s ∈ sites, s.feedsWire = true → s.classHasAlias = true → s.byAlias = true := by
  decide +kernel

/-- non-vacuity: the table has wire-feeding sites, some with resolved receiver classes -/
example : ∃ s ∈ sites, s.feedsWire = true ∧ s.resolved = true := by decide +kernel

end Verif.Props.C10
