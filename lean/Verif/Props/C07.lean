import Verif.Gen.Errors
import Verif.Lemmas.Await
import Verif.Lemmas.ClientApi

/-! # C07 — an error response always surfaces as a classified exception carrying its code

Decision part (this file, first half): the classification is a total function of the code,
non-retryable exactly on the documented permanent set, the two documented sets are
disjoint and every named code lies in exactly one of them.  `isRetryableError`,
`nonRetryable`, `retryable`, `named` are REGENERATED from `types/errors.py` on every run.
-/
set_option linter.unusedSimpArgs false
namespace Verif.Props.C07
open Verif.Gen.Errors

/-- The documented permanent (non-retryable) codes, pinned from the comments of
`types/errors.py` at the verified commit ("... is permanent"). -/
def documentedPermanent : List Int :=
  [-32700, -32600, -32601, -32602, -32003, -32005, -32006, -32007, -32008, -32000]

/-- The documented transient (retryable) named codes. -/
def documentedTransient : List Int := [-32603, -32001, -32002, -32004]

/-- The translator covered every fragment it was asked to translate. -/
theorem c07_translated : translatable = true := by decide

/-- Totality + exactness: for EVERY integer the (regenerated) classifier answers
"non-retryable" precisely on the documented permanent set. -/
theorem c07_total_classification (c : Int) :
    isRetryableError c = false ↔ c ∈ documentedPermanent := by
  simp [isRetryableError, nonRetryable, retryable, documentedPermanent]
  try omega

/-- The source's own permanent set is the documented one (as sets). -/
theorem c07_permanent_set_as_documented (c : Int) :
    c ∈ nonRetryable ↔ c ∈ documentedPermanent := by
  simp [nonRetryable, documentedPermanent]
  try omega

theorem c07_transient_set_as_documented (c : Int) :
    c ∈ retryable ↔ c ∈ documentedTransient := by
  simp [retryable, documentedTransient]
  try omega

/-- The two documented sets are disjoint. -/
theorem c07_sets_disjoint : ∀ c ∈ nonRetryable, c ∉ retryable := by decide +kernel

/-- Every named code (key of ERROR_MESSAGES) belongs to exactly one of the two sets. -/
theorem c07_named_partition :
    ∀ c ∈ named, (c ∈ nonRetryable ∧ c ∉ retryable) ∨ (c ∉ nonRetryable ∧ c ∈ retryable) := by
  decide +kernel

/-- ... and the classifier agrees with the set a named code lies in. -/
theorem c07_named_classified :
    ∀ c ∈ named, isRetryableError c = decide (c ∈ retryable) := by decide +kernel

/-- Non-vacuity: both classes are inhabited, by named and by unnamed codes. -/
example : isRetryableError (-32601) = false ∧ isRetryableError (-32603) = true
    ∧ isRetryableError 0 = true ∧ isRetryableError (-32099) = true := by decide


/-! ## Error path (timed model of `send_message`, see `Model/Await.lean`) -/
open Verif.Model.Await
variable {α : Type}

/-- A matching error response never completes a request normally: if, in a time-ordered history,
the first message bearing the request's id (and no method) is an error arriving before the
deadline, and the call is not cancelled, the call raises — the class is the (regenerated)
classifier's verdict on the code, the code and the message are the server's (a missing code is
reported as -32603, as in the code). -/
theorem c07_error_never_returns (cfg : Cfg α) (pre post : List (Nat × In α)) (a : Nat)
    (code : Option Int) (msg : Option String)
    (hpre : cfg.preCancelled = false) (hc : cfg.cancelAt = none)
    (hno : NoMatch cfg pre) (hs : Sorted (pre ++ [(a, In.err cfg.reqId code msg)])) (ha : a < cfg.D) :
    (run isRetryableError cfg (pre ++ (a, In.err cfg.reqId code msg) :: post)).outcome
      = .raised (isRetryableError (code.getD (-32603))) (code.getD (-32603)) msg := by
  have hrun : ∀ ev, run isRetryableError cfg ev = loop isRetryableError cfg 0 ev [.request] [] 0 := by
    intro ev; simp [run, hpre]
  rw [hrun, loop_complete isRetryableError cfg hc 0 _ _ _ _ pre a _ post rfl hno (by simp [isMatch]) hs
    (by intro x _; exact Nat.zero_le _) ha]
  simp [final, classify, errOutcome]

/-- Whenever a call raises a server error (any history, any schedule), the class raised is
non-retryable exactly for the documented permanent codes, and the error stems from the first
matching message of the history, whose code and message it carries. -/
theorem c07_error_class_total (cfg : Cfg α) (ev : List (Nat × In α)) (r : Bool) (c : Int)
    (s : Option String) (h : (run isRetryableError cfg ev).outcome = .raised r c s) :
    (r = false ↔ c ∈ documentedPermanent)
    ∧ ∃ pre a post code, ev = pre ++ (a, In.err cfg.reqId code s) :: post ∧ NoMatch cfg pre
        ∧ c = code.getD (-32603) := by
  unfold run at h
  split at h
  · simp at h
  · obtain ⟨pre, a, post, code, he, hn, h1, h2⟩ := loop_raised_sound isRetryableError cfg 0 ev _ _ _ r c s h
    refine ⟨?_, pre, a, post, code, he, hn, h1⟩
    rw [h2]
    exact c07_total_classification c

/-! ## The high-level client (`MCPClient`, `Model/ClientApi.lean`) -/
open Verif.Model.ClientApi Verif.Lemmas.ClientApi in
/-- A call of the high-level client whose own request raises a server error raises the class the
(regenerated) classifier gives the code, with the code and message of the FIRST message bearing the
request's own id among the messages nothing earlier on the connection consumed — an error addressed
to the `initialize` request or to an earlier call is never this call's error. -/
theorem c07_client_error_is_own (okInit : α → Bool) (b : Bool) (start used : Nat)
    (ev : List (Nat × In α)) (calls : List (Call α)) :
    ∀ x ∈ (clientSeq isRetryableError okInit b start used ev calls).zip calls, ∀ s u o r c msg,
      x.1.req = some (s, u, o) → o.outcome = .raised r c msg →
      (r = false ↔ c ∈ documentedPermanent)
      ∧ ∃ pre a post code, ev.drop u = pre ++ (a, In.err x.2.req.reqId code msg) :: post
          ∧ NoMatch x.2.req pre ∧ c = code.getD (-32603) := by
  induction calls generalizing b start used with
  | nil => simp [clientSeq]
  | cons cl rest ih =>
    intro x hx s u o r c msg hreq hp
    have key : ∀ (s' u' : Nat), o = run isRetryableError cl.req (shift s' (ev.drop u')) →
        (r = false ↔ c ∈ documentedPermanent)
        ∧ ∃ pre a post code, ev.drop u' = pre ++ (a, In.err cl.req.reqId code msg) :: post
          ∧ NoMatch cl.req pre ∧ c = code.getD (-32603) := by
      intro s' u' ho
      rw [ho] at hp
      obtain ⟨pre, a, post, code, he, hn, h1, h2⟩ := run_raised_sound isRetryableError cl.req _ r c msg hp
      obtain ⟨pre', a', post', he', hn', _⟩ := shift_decomp _ _ _ _ _ _ cl.req he hn
      refine ⟨?_, pre', a', post', code, he', hn', h1⟩
      rw [h2]; exact c07_total_classification c
    cases b with
    | true =>
      simp only [clientSeq, List.zip_cons_cons, List.mem_cons] at hx
      rcases hx with rfl | hx
      · simp only [Option.some.injEq, Prod.mk.injEq] at hreq
        obtain ⟨rfl, rfl, rfl⟩ := hreq
        exact key _ _ rfl
      · exact ih _ _ _ x hx s u o r c msg hreq hp
    | false =>
      simp only [clientSeq] at hx
      split at hx
      · simp only [List.zip_cons_cons, List.mem_cons] at hx
        rcases hx with rfl | hx
        · simp only [Option.some.injEq, Prod.mk.injEq] at hreq
          obtain ⟨rfl, rfl, rfl⟩ := hreq
          exact key _ _ rfl
        · exact ih _ _ _ x hx s u o r c msg hreq hp
      · simp only [List.zip_cons_cons, List.mem_cons] at hx
        rcases hx with rfl | hx
        · simp at hreq
        · exact ih _ _ _ x hx s u o r c msg hreq hp

/-- the boolean convenience calls (`send_ping`, `send_resources_subscribe`,
`send_resources_unsubscribe`): `True` on a result, `False` on anything else -/
def boolHelper (o : Obs α) : Bool :=
  match o.outcome with
  | .returned _ => true
  | _ => false

theorem c07_bool_helpers (o : Obs α) :
    (∀ r c s, o.outcome = .raised r c s → boolHelper o = false)
    ∧ (o.outcome = .timedOut → boolHelper o = false)
    ∧ (∀ p, o.outcome = .returned p → boolHelper o = true) := by
  refine ⟨?_, ?_, ?_⟩ <;> intros <;> simp_all [boolHelper]

/-! Non-vacuity of `c07_error_never_returns`. -/
example : (run isRetryableError
    ({ reqId := .str "r", D := 2000, P := 500, hP := by decide, preCancelled := false,
       cancelAt := none, token := none, zero := (0 : Nat), eventsFirst := false, cbRaises := fun _ => false })
    [(5, .notif "n"), (900, .err (.str "r") (some (-32601)) (some "nope")), (950, .resp (.str "r") 1)]).outcome
    = .raised false (-32601) (some "nope") := by
  have := c07_error_never_returns
    ({ reqId := .str "r", D := 2000, P := 500, hP := by decide, preCancelled := false,
       cancelAt := none, token := none, zero := (0 : Nat), eventsFirst := false, cbRaises := fun _ => false })
    [(5, .notif "n")] [(950, .resp (.str "r") 1)] 900 (some (-32601)) (some "nope") rfl rfl
    (by intro x hx; simp at hx; subst hx; simp [isMatch]) (by simp [Sorted]) (by decide)
  have h2 : isRetryableError (-32601) = false := by decide
  simpa [h2] using this

end Verif.Props.C07
