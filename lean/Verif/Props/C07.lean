import Verif.Gen.Errors
import Verif.Gen.Timing
import Verif.Lemmas.Await

/-! # C07 — an error response always surfaces as a classified exception carrying its code

Decision part (this file, first half): the classification is a total function of the code,
non-retryable exactly on the documented permanent set, the two documented sets are
disjoint and every named code lies in exactly one of them.  `isRetryableError`,
`nonRetryable`, `retryable`, `named` are REGENERATED from `types/errors.py` on every run.
-/
set_option linter.unusedSimpArgs false
namespace Verif.Props.C07
open Verif.Gen.Errors

/-- The documented permanent (non-retryable) codes, pinned from the comments of
`types/errors.py` at the verified commit ("... is permanent"). -/
def documentedPermanent : List Int :=
  [-32700, -32600, -32601, -32602, -32003, -32005, -32006, -32007, -32008, -32000]

/-- The documented transient (retryable) named codes. -/
def documentedTransient : List Int := [-32603, -32001, -32002, -32004]

/-- The translator covered every fragment it was asked to translate. -/
theorem c07_translated : translatable = true := by decide

/-- Totality + exactness: for EVERY integer the (regenerated) classifier answers
"non-retryable" precisely on the documented permanent set. -/
theorem c07_total_classification (c : Int) :
    isRetryableError c = false ↔ c ∈ documentedPermanent := by
  simp [isRetryableError, nonRetryable, retryable, documentedPermanent]
  try omega

/-- The source's own permanent set is the documented one (as sets). -/
theorem c07_permanent_set_as_documented (c : Int) :
    c ∈ nonRetryable ↔ c ∈ documentedPermanent := by
  simp [nonRetryable, documentedPermanent]
  try omega

theorem c07_transient_set_as_documented (c : Int) :
    c ∈ retryable ↔ c ∈ documentedTransient := by
  simp [retryable, documentedTransient]
  try omega

/-- The two documented sets are disjoint. -/
theorem c07_sets_disjoint : ∀ c ∈ nonRetryable, c ∉ retryable := by decide +kernel

/-- Every named code (key of ERROR_MESSAGES) belongs to exactly one of the two sets. -/
theorem c07_named_partition :
    ∀ c ∈ named, (c ∈ nonRetryable ∧ c ∉ retryable) ∨ (c ∉ nonRetryable ∧ c ∈ retryable) := by
  decide +kernel

/-- ... and the classifier agrees with the set a named code lies in. -/
theorem c07_named_classified :
    ∀ c ∈ named, isRetryableError c = decide (c ∈ retryable) := by decide +kernel

/-- Non-vacuity: both classes are inhabited, by named and by unnamed codes. -/
example : isRetryableError (-32601) = false ∧ isRetryableError (-32603) = true
    ∧ isRetryableError 0 = true ∧ isRetryableError (-32099) = true := by decide


/-! ## Error path (timed model of `send_message`, see `Model/Await.lean`) -/
open Verif.Model.Await
variable {α : Type}

/-- A matching error response never completes a request normally: if, in a time-ordered history,
the first message bearing the request's id (and no method) is an error arriving before the
deadline, and the call is not cancelled, the call raises — the class is the (regenerated)
classifier's verdict on the code, the code and the message are the server's (a missing code is
reported as -32603, as in the code). -/
theorem c07_error_never_returns (cfg : Cfg α) (pre post : List (Nat × In α)) (a : Nat)
    (code : Option Int) (msg : Option String)
    (hpre : cfg.preCancelled = false) (hc : cfg.cancelAt = none)
    (hno : NoMatch cfg pre) (hs : Sorted (pre ++ [(a, In.err cfg.reqId code msg)])) (ha : a < cfg.D) :
    (run isRetryableError cfg (pre ++ (a, In.err cfg.reqId code msg) :: post)).outcome
      = .raised (isRetryableError (code.getD (-32603))) (code.getD (-32603)) msg := by
  have hrun : ∀ ev, run isRetryableError cfg ev = loop isRetryableError cfg 0 ev [.request] [] 0 := by
    intro ev; simp [run, hpre]
  rw [hrun, loop_complete isRetryableError cfg hc 0 _ _ _ _ pre a _ post rfl hno (by simp [isMatch]) hs
    (by intro x _; exact Nat.zero_le _) ha]
  simp [final, classify, errOutcome]

/-- Whenever a call raises a server error (any history, any schedule), the class raised is
non-retryable exactly for the documented permanent codes, and the error stems from the first
matching message of the history, whose code and message it carries. -/
theorem c07_error_class_total (cfg : Cfg α) (ev : List (Nat × In α)) (r : Bool) (c : Int)
    (s : Option String) (h : (run isRetryableError cfg ev).outcome = .raised r c s) :
    (r = false ↔ c ∈ documentedPermanent)
    ∧ ∃ pre a post code, ev = pre ++ (a, In.err cfg.reqId code s) :: post ∧ NoMatch cfg pre
        ∧ c = code.getD (-32603) := by
  unfold run at h
  split at h
  · simp at h
  · obtain ⟨pre, a, post, code, he, hn, h1, h2⟩ := loop_raised_sound isRetryableError cfg 0 ev _ _ _ r c s h
    refine ⟨?_, pre, a, post, code, he, hn, h1⟩
    rw [h2]
    exact c07_total_classification c

/-- the boolean convenience calls (`send_ping`, `send_resources_subscribe`,
`send_resources_unsubscribe`): `True` on a result, `False` on anything else -/
def boolHelper (o : Obs α) : Bool :=
  match o.outcome with
  | .returned _ => true
  | _ => false

theorem c07_bool_helpers (o : Obs α) :
    (∀ r c s, o.outcome = .raised r c s → boolHelper o = false)
    ∧ (o.outcome = .timedOut → boolHelper o = false)
    ∧ (∀ p, o.outcome = .returned p → boolHelper o = true) := by
  refine ⟨?_, ?_, ?_⟩ <;> intros <;> simp_all [boolHelper]

/-! ## Supplementary: the helpers next to the classifier (regenerated too)

`get_error_message`, `is_server_error`, `is_standard_jsonrpc_error`, `is_mcp_specific_error` and the
text of the exception assembled in `_process_response` are regenerated into `Gen/Errors.lean`
under their own flag `auxTranslatable`.  C07's text names none of them except "carrying the
server's … message"; a difference in the `error-helpers` correspondence suite is an evidence
note, not a verdict. -/

/-- Proof scripts below start with `aux_gate`: when the auxiliary part was not translated the
generated definitions are placeholders and the hypothesis `auxTranslatable = true` is false. -/
macro "aux_gate " t:tacticSeq : tactic =>
  `(tactic| first | (intro h; exact absurd h (by decide)) | (intro _; ($t)))

/-- `is_server_error` is the JSON-RPC implementation-defined range, nothing else; every
MCP-specific code lies in it; a code is never both standard and MCP-specific; and every code the
two set helpers recognise has a description. -/
theorem c07_aux_code_classes (c : Int) : auxTranslatable = true →
    (isServerError c = true ↔ (-32099 ≤ c ∧ c ≤ -32000))
    ∧ (isMcpSpecificError c = true → isServerError c = true)
    ∧ ¬ (isStandardJsonrpcError c = true ∧ isMcpSpecificError c = true)
    ∧ (isStandardJsonrpcError c = true ∨ isMcpSpecificError c = true → c ∈ named) := by
  aux_gate
    refine ⟨?_, ?_, ?_, ?_⟩
    · simp [isServerError]
    · intro h
      simp [isMcpSpecificError] at h
      rcases h with h | h | h | h | h | h | h <;> subst h <;> decide
    · intro ⟨h1, h2⟩
      simp [isStandardJsonrpcError] at h1
      rcases h1 with h | h | h | h | h <;> subst h <;> simp [isMcpSpecificError] at h2
    · intro h
      rcases h with h | h
      · simp [isStandardJsonrpcError] at h
        rcases h with h | h | h | h | h <;> subst h <;> decide
      · simp [isMcpSpecificError] at h
        rcases h with h | h | h | h | h | h | h <;> subst h <;> decide

/-- `get_error_message` is total: a named code gets its table entry, every other integer the
"unknown" text with the code in decimal; the table has exactly one entry per named code. -/
theorem c07_aux_message_total (c : Int) : auxTranslatable = true →
    (c ∈ named → (c, getErrorMessage c) ∈ messages)
    ∧ (c ∉ named → getErrorMessage c = "Unknown error: Code " ++ toString c)
    ∧ messages.map (·.1) = named := by
  aux_gate
    refine ⟨?_, ?_, by decide⟩
    · intro h
      have : c ∈ messages.map (·.1) := by simpa [show messages.map (·.1) = named by decide] using h
      simp only [named] at h
      simp at h
      rcases h with h | h | h | h | h | h | h | h | h | h | h | h | h | h <;> subst h <;> decide
    · intro h
      have hl : messages.lookup c = none := by
        rw [List.lookup_eq_none_iff]
        intro p hp
        have : p.1 ∈ named := by
          rw [← (show messages.map (·.1) = named by decide)]
          exact List.mem_map_of_mem hp
        simp only [bne_iff_ne, ne_eq]
        intro he
        exact h (he ▸ this)
      simp [getErrorMessage, hl]

/-- The exception raised for an error response carries the server's message verbatim and the
code in decimal (the server's message when there is one, the description of the code otherwise). -/
theorem c07_err_text_carries (m : Option String) (c : Int) : auxTranslatable = true →
    errText m c = "JSON-RPC Error: " ++ m.getD (getErrorMessage c) ++ " (code: " ++ toString c ++ ")" := by
  aux_gate
    rfl

/-- the code assumed for an error object that carries none is the one the model's `errOutcome`
uses (`-32603`, internal error — retryable) -/
theorem c07_default_code_regenerated : auxTranslatable = true →
    defaultErrorCode = -32603
    ∧ ∀ (msg : Option String), (errOutcome (α := Unit) isRetryableError none msg) = .raised true defaultErrorCode msg := by
  aux_gate
    refine ⟨by decide, ?_⟩
    intro msg
    simp [errOutcome, defaultErrorCode]
    decide

example : auxTranslatable = true → errText (some "boom") (-32601) = "JSON-RPC Error: boom (code: -32601)" := by
  aux_gate
    decide +kernel

/-! Non-vacuity of `c07_error_never_returns`. -/
example : (run isRetryableError
    ({ reqId := .str "r", D := 2000, P := Verif.Gen.Timing.pollMs, hP := by decide, preCancelled := false,
       cancelAt := none, token := none, zero := (0 : Nat), eventsFirst := false, cbRaises := fun _ => false })
    [(5, .notif "n"), (900, .err (.str "r") (some (-32601)) (some "nope")), (950, .resp (.str "r") 1)]).outcome
    = .raised false (-32601) (some "nope") := by
  have := c07_error_never_returns
    ({ reqId := .str "r", D := 2000, P := Verif.Gen.Timing.pollMs, hP := by decide, preCancelled := false,
       cancelAt := none, token := none, zero := (0 : Nat), eventsFirst := false, cbRaises := fun _ => false })
    [(5, .notif "n")] [(950, .resp (.str "r") 1)] 900 (some (-32601)) (some "nope") rfl rfl
    (by intro x hx; simp at hx; subst hx; simp [isMatch]) (by simp [Sorted]) (by decide)
  have h2 : isRetryableError (-32601) = false := by decide
  simpa [h2] using this

end Verif.Props.C07
