import Verif.Props.C03
import Verif.Gen.VersionLib

/-! # C03 — supplementary obligations (not stated by the property text)

Built and audited on every run like `Props/C03.lean`; a failure here is reported as INFO and in
the evidence, never as a verdict about C03. -/
namespace Verif.Props.C03

/-- The one-line helpers next to `send_initialize` (`get_supported_versions`, `get_current_version`,
`is_version_supported`, `validate_version_format`) and the legacy `_supports_batch_processing` are
plain calls of the function they name with their own arguments (REGENERATED alias table): what the
theorems say about the callee (C04's version-utility theorems, C13's `supports_batching` theorems)
holds for the helper. -/
theorem c03_helpers_are_aliases :
    Verif.Gen.VersionLib.aliases =
      [("get_supported_versions", "ProtocolVersion.get_all_supported"),
       ("get_current_version", "ProtocolVersion.get_latest_supported"),
       ("is_version_supported", "ProtocolVersion.is_supported"),
       ("validate_version_format", "ProtocolVersion.validate_format"),
       ("_supports_batch_processing", "supports_batching")] := by decide

example : Verif.Gen.VersionLib.aliases.length = 5 := by decide

end Verif.Props.C03
