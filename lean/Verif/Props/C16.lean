import Verif.Props.C01
import Verif.Props.C05
import Verif.Gen.Timing
import Verif.Model.Shutdown

/-! # C16 — stdio client shutdown is bounded and leaves no child process behind

Model: `Verif/Model/Shutdown.lean` (`exit`, `terminateProcess`, `session`, `pending`), with the
two grace periods REGENERATED from `_terminate_process` (`Gen/Timing.lean`).

Statement of the property, and what is proved of it:

* bounded: for EVERY exit path, child and OS the exit takes at most g₁ + g₂ (`c16_bounded`), and
  the two grace periods are the one-second periods of the text (`c16_grace_periods`,
  `c16_bounded_two_seconds`);
* no child running or unreaped: for every exit path ∈ {normal, exception, outer cancellation,
  timeout around the context} and every child — early exit, ignoring SIGTERM, not reading,
  flooding, closed pipes — the child is reaped when the exit returns, PROVIDED the termination
  sequence is shielded from cancellation, SIGKILL ends a process within the second grace period
  and `wait` reaps (`c16_reaped`); without the shield the cancelled paths leave a live child
  running (`c16_unshielded_cancel_leaks` — the defect of the pinned code, as a theorem);
* a pending request never ends with a fabricated result (`c16_no_fabricated_result`,
  `c16_silent_child_times_out`), stated over "the response lines the child wrote"; the delivery
  path is C05 (reader) ∘ C01 (await), composed by the lead;
* an unstartable command makes entering raise (`c16_bad_command_raises`);
* the WHOLE exit (`leave`: what is done before the tasks are cancelled, then `exit`): bounded for
  every backlog of queued output iff the wait for the stdin writer is bounded
  (`c16_leave_bounded`, `c16_leave_sound`; an unbounded wait never returns against a child that
  does not read: `c16_unbounded_flush_never_returns`, `c16_unbounded_flush_waits_for_child`);
* a child that closes its stdout and lives on is still terminated: an EOF on stdout is not an
  exit (`c16_eof_is_not_exit` is the refutation of the shortcut; soundness is `c16_leave_sound`,
  which quantifies over such children);
* sequential sessions on ONE client object each end bounded and reaped (`c16_reuse_sound`); an
  exit that runs once per object leaks from the second session on (`c16_exit_once_leaks_on_reuse`);
* cancellation WHILE the context is being entered leaves no child running unless `__aenter__` has
  a cancellable await between the spawn and ownership (`c16_entry_cancel_no_orphan`,
  `c16_entry_gap_orphans`).

PARTIAL BY NATURE — carried by the correspondence run with real children only:
  "no additional open file descriptor" (the model has no descriptors), that cancelling the
  reader/writer tasks is prompt whatever the child does with its pipes, that SIGKILL and `wait`
  behave as `OS` says, and which value of `shielded` the code implements.
-/
namespace Verif.Props.C16
open Verif.Gen.Timing Verif.Model.Shutdown

theorem c16_translated : graceTranslatable = true := by decide

/-- "the two one-second grace periods" -/
theorem c16_grace_periods : graceTermMs = 1000 ∧ graceKillMs = 1000 := by decide

theorem killPhase_le (os : OS) (death : Nat) :
    (killPhase os death).duration ≤ graceTermMs + graceKillMs := by
  unfold killPhase
  split <;> simp <;> omega

theorem terminate_le (os : OS) (c : ChildSpec) :
    (terminateProcess os c).duration ≤ graceTermMs + graceKillMs := by
  unfold terminateProcess
  split
  · split
    · simp; omega
    · exact killPhase_le _ _
  · exact killPhase_le _ _

/-- **Bounded.**  Whatever the exit path, the child and the OS do — shielded or not — the exit
returns within the two grace periods. -/
theorem c16_bounded (shielded : Bool) (os : OS) (p : ExitPath) (c : ChildSpec) :
    (exit shielded os p c).duration ≤ graceTermMs + graceKillMs := by
  unfold exit
  split
  · simp
  · split
    · simp
    · exact terminate_le os c

/-- ... that is, within two seconds (plus whatever the scheduler adds). -/
theorem c16_bounded_two_seconds (shielded : Bool) (os : OS) (p : ExitPath) (c : ChildSpec) :
    (exit shielded os p c).duration ≤ 2000 := by
  have := c16_bounded shielded os p c
  have := c16_grace_periods
  omega

/-- **Reaped.**  With the termination sequence shielded, for every exit path and every child
the child has been reaped when the exit returns — under the OS facts that SIGKILL ends a process
within the second grace period and that `wait` after death reaps. -/
theorem c16_reaped (os : OS) (p : ExitPath) (c : ChildSpec)
    (hkill : os.killDelay < graceKillMs) (hwait : os.waitReaps = true) :
    (exit true os p c).child = .reaped := by
  have hk : ∀ death, death ≤ graceTermMs + os.killDelay → (killPhase os death).child = .reaped := by
    intro death hd
    unfold killPhase
    split
    · simp [afterWait, hwait]
    · omega
  simp only [exit, Bool.not_true, Bool.and_false, Bool.false_eq_true, if_false]
  split
  · simp [afterWait, hwait]
  · unfold terminateProcess
    split
    · split
      · simp [afterWait, hwait]
      · exact hk _ (Nat.min_le_right _ _)
    · exact hk _ (Nat.le_refl _)

/-- **The defect as a theorem.**  Without the shield, leaving by outer cancellation or by a
timeout around the context sends no signal and leaves a child that was alive RUNNING — for every
such child and every OS. -/
theorem c16_unshielded_cancel_leaks (os : OS) (p : ExitPath) (c : ChildSpec)
    (hp : p.cancelled = true) (hc : c.exited = false) :
    (exit false os p c).child = .running ∧ (exit false os p c).signals = [] := by
  simp [exit, hp, hc]

/-- On the other paths (and on every path once shielded) a live child is always signalled. -/
theorem c16_live_child_signalled (os : OS) (p : ExitPath) (c : ChildSpec) (hc : c.exited = false) :
    (0, Sig.term) ∈ (exit true os p c).signals := by
  simp only [exit, hc, Bool.not_true, Bool.and_false, Bool.false_eq_true, if_false]
  unfold terminateProcess killPhase
  split
  · split
    · simp
    · split <;> simp
  · split <;> simp

/-! ## The whole exit (`leave`): a step before the task group is cancelled, and the entry -/

theorem flushPhase_le (d : Design) (w : Nat) (hw : d.flushWait = some w) (p : ExitPath) (c : ChildSpec)
    (l : Load) : ∃ f, flushPhase d p c l = some f ∧ f ≤ w := by
  unfold flushPhase
  split
  · exact ⟨0, rfl, Nat.zero_le _⟩
  · rw [hw]
    cases c.selfExit with
    | none => exact ⟨w, rfl, Nat.le_refl _⟩
    | some s => exact ⟨min w s, rfl, Nat.min_le_left _ _⟩

theorem finish_le (d : Design) (os : OS) (p : ExitPath) (c : ChildSpec) :
    (finish d os p c).duration ≤ graceTermMs + graceKillMs := by
  unfold finish
  split
  · unfold reapOnly
    split
    · split <;> simp <;> omega
    · simp
  · exact c16_bounded _ _ _ _

theorem finish_sound (os : OS) (p : ExitPath) (c : ChildSpec) :
    finish Design.sound os p c = exit true os p c := by
  simp [finish, Design.sound]

theorem drain_le (c : ChildSpec) (t : Trace) :
    (drainPhase c t).duration ≤ t.duration + (if c.stdoutHeld then Verif.Gen.Shutdown.drainMs else 0) := by
  unfold drainPhase
  split
  · rename_i h
    simp only [Bool.and_eq_true] at h
    simp [h.2]
  · split <;> simp

theorem drain_child (c : ChildSpec) (t : Trace) : (drainPhase c t).child = t.child := by
  unfold drainPhase
  split <;> rfl

theorem drain_not_held (c : ChildSpec) (t : Trace) (h : c.stdoutHeld = false) : drainPhase c t = t := by
  simp [drainPhase, h]

/-- **Bounded, everything included.**  If what the exit does before cancelling its tasks (waiting
for the stdin writer) is bounded by `w`, then for EVERY exit path, child, amount of queued output
and OS — shielded or not — `__aexit__` returns, within `w + g₁ + g₂`, plus the (regenerated) bound
of the stdout drain when somebody else holds the dead child's stdout open. -/
theorem c16_leave_bounded (d : Design) (w : Nat) (hw : d.flushWait = some w) (os : OS) (p : ExitPath)
    (c : ChildSpec) (l : Load) :
    ∃ t, leave d os p c l = some t
      ∧ t.duration ≤ w + (graceTermMs + graceKillMs) + (if c.stdoutHeld then Verif.Gen.Shutdown.drainMs else 0) := by
  obtain ⟨f, hf, hle⟩ := flushPhase_le d w hw p c l
  simp only [leave, hf]
  refine ⟨_, rfl, ?_⟩
  refine Nat.le_trans (Nat.add_le_add hle (drain_le c _)) ?_
  refine Nat.le_trans (Nat.add_le_add_left (Nat.add_le_add_right (finish_le _ _ _ _) _) _) ?_
  omega

/-- The design the property asks for (no wait, shielded), a child whose stdout nobody else holds:
within two seconds and reaped, for every exit path, every such child and every backlog. -/
theorem c16_leave_sound (os : OS) (p : ExitPath) (c : ChildSpec) (l : Load)
    (hkill : os.killDelay < graceKillMs) (hwait : os.waitReaps = true) (hheld : c.stdoutHeld = false) :
    ∃ t, leave Design.sound os p c l = some t ∧ t.duration ≤ 2000 ∧ t.child = .reaped := by
  obtain ⟨f, hf, hle⟩ := flushPhase_le Design.sound 0 rfl p c l
  have hf0 : f = 0 := by omega
  subst hf0
  simp only [leave, hf, drain_not_held c _ hheld]
  refine ⟨_, rfl, ?_, ?_⟩
  · show 0 + _ ≤ 2000
    rw [Nat.zero_add, finish_sound]
    exact c16_bounded_two_seconds _ _ _ _
  · show (finish Design.sound os p _).child = .reaped
    rw [finish_sound]
    exact c16_reaped os p _ hkill hwait

/-- **An unbounded wait for the writer, as a theorem.**  If the exit waits without bound for the
stdin writer, then on a non-cancelled path, with a child that does not read, more queued than
pipe and buffer hold, and a child that does not end by itself, `__aexit__` NEVER returns —
whatever the OS, shielded or not. -/
theorem c16_unbounded_flush_never_returns (d : Design) (hd : d.flushWait = none) (os : OS) (p : ExitPath)
    (c : ChildSpec) (l : Load) (hp : p.cancelled = false) (hb : writerBlocked c l = true)
    (hs : c.selfExit = none) : leave d os p c l = none := by
  simp [leave, flushPhase, hp, hb, hd, hs]

/-- ... and when the child does end by itself after `s` ms, the exit lasts at least that long:
there is no bound that does not depend on the child. -/
theorem c16_unbounded_flush_waits_for_child (d : Design) (hd : d.flushWait = none) (os : OS) (p : ExitPath)
    (c : ChildSpec) (l : Load) (hp : p.cancelled = false) (hb : writerBlocked c l = true) (s : Nat)
    (hs : c.selfExit = some s) : ∃ t, leave d os p c l = some t ∧ s ≤ t.duration := by
  simp [leave, flushPhase, hp, hb, hd, hs]

/-- **EOF on the child's stdout is not its exit.**  If the exit takes an EOF seen on stdout for
"the child is going away" and merely waits for it, a child that closed its stdout and lives on
(not exited, does not end by itself) is left RUNNING, unsignalled — on every exit path, shielded
or not, whatever the OS.  (With the sound design `c16_leave_sound` covers such children: their
`stdoutOpen = false` is never consulted.) -/
theorem c16_eof_is_not_exit (d : Design) (hd : d.eofMeansGone = true) (os : OS) (p : ExitPath) (c : ChildSpec)
    (ho : c.stdoutOpen = false) (he : c.exited = false) (hs : c.selfExit = none) :
    (finish d os p c).child = .running ∧ (finish d os p c).signals = [] := by
  simp [finish, hd, ho, he, reapOnly, hs]

theorem sessionsFrom_sound (os : OS) (first : Bool) (ss : List (ExitPath × ChildSpec × Load)) :
    sessionsFrom Design.sound os first ss = ss.map (fun s => leave Design.sound os s.1 s.2.1 s.2.2) := by
  induction ss generalizing first with
  | nil => rfl
  | cons x xs ih =>
    obtain ⟨p, c, l⟩ := x
    have hx : Design.sound.exitOnce = false := rfl
    simp only [sessionsFrom, hx, Bool.false_and, Bool.false_eq_true, if_false, List.map_cons, ih]

/-- **Reuse.**  Any number of sequential sessions on one client object, each with its own exit
path, child and backlog: EVERY session's exit returns within two seconds with its child reaped. -/
theorem c16_reuse_sound (os : OS) (ss : List (ExitPath × ChildSpec × Load))
    (hkill : os.killDelay < graceKillMs) (hwait : os.waitReaps = true)
    (hheld : ∀ s ∈ ss, s.2.1.stdoutHeld = false) :
    ∀ r ∈ sessions Design.sound os ss, ∃ t, r = some t ∧ t.duration ≤ 2000 ∧ t.child = .reaped := by
  intro r hr
  simp only [sessions, sessionsFrom_sound, List.mem_map] at hr
  obtain ⟨s, hs, rfl⟩ := hr
  exact c16_leave_sound os s.1 s.2.1 s.2.2 hkill hwait (hheld s hs)

/-- **An exit that runs once per object.**  If the exit is guarded by a flag that entering does
not reset, the second session's exit does nothing: a child that is alive stays running. -/
theorem c16_exit_once_leaks_on_reuse (d : Design) (hd : d.exitOnce = true) (os : OS)
    (s₁ : ExitPath × ChildSpec × Load) (p : ExitPath) (c : ChildSpec) (l : Load)
    (rest : List (ExitPath × ChildSpec × Load)) (hc : c.exited = false) :
    (sessions d os (s₁ :: (p, c, l) :: rest))[1]? = some (some { signals := [], duration := 0, child := .running }) := by
  obtain ⟨p₁, c₁, l₁⟩ := s₁
  simp [sessions, sessionsFrom, hd, skippedExit, hc]

/-- **A handshake that fails on entry cleans up.**  Entering through the handshake wrapper with a
child that never answers raises, and the child is reaped within the bound all the same — whatever
the child otherwise does and however much output is queued. -/
theorem c16_failed_handshake_cleans_up (os : OS) (p : ExitPath) (c : ChildSpec) (l : Load)
    (hkill : os.killDelay < graceKillMs) (hwait : os.waitReaps = true) (hheld : c.stdoutHeld = false) :
    (sessionWithHandshake Design.sound os false p c l).1 = true
    ∧ ∃ t, (sessionWithHandshake Design.sound os false p c l).2 = some t ∧ t.duration ≤ 2000 ∧ t.child = .reaped := by
  refine ⟨rfl, ?_⟩
  exact c16_leave_sound os .exception c l hkill hwait hheld

/-- a child that reacts to SIGTERM 100 ms after the first grace period has run out is killed at g₁ -/
example : leave Design.sound ⟨5, true⟩ .normal (childSpec (.slowTerm 1100) (.after 1)) ⟨0, 131072⟩
    = some { signals := [(0, .term), (1000, .kill)], duration := 1005, child := .reaped } := by decide
/-- ... and one that reacts 100 ms before is not -/
example : leave Design.sound ⟨5, true⟩ .normal (childSpec (.slowTerm 900) (.after 1)) ⟨0, 131072⟩
    = some { signals := [(0, .term)], duration := 900, child := .reaped } := by decide

/-- **Cancellation while entering.**  Without a cancellable await between the spawn and the point
from which the child is owned, a cancellation delivered at ANY point of entering leaves no child
running: either nothing was spawned, or the spawn was undone, or the context is entered and is
then left by `leave` on a cancelled path (`c16_leave_sound`). -/
theorem c16_entry_cancel_no_orphan (d : Design) (h : d.entryGap = false) (cp : CancelPoint) :
    cancelledEntry d cp ≠ some .running := by
  cases cp <;> simp [cancelledEntry, h]

/-- With such an await (e.g. a start-up probe after the spawn) a cancellation landing there leaves
the child running and unowned. -/
theorem c16_entry_gap_orphans (d : Design) (h : d.entryGap = true) :
    cancelledEntry d .afterSpawn = some .running := by
  simp [cancelledEntry, h]

/-- **No fabricated result.**  Whatever a pending request returns is the payload of a response
line with its id that the child wrote. -/
theorem c16_no_fabricated_result {α : Type} (written : List (Nat × α)) (i : Nat) (p : α)
    (h : pending written i = .returned p) : (i, p) ∈ written := by
  unfold pending at h
  split at h
  · rename_i l hl
    have hm := List.mem_of_find?_eq_some hl
    have hi := List.find?_some hl
    simp at hi h
    subst h
    have : l = (i, l.2) := by cases l; simp_all
    rw [← this]
    exact hm
  · simp at h

/-- ... and when the child died (or stays silent) without writing such a line, the request times out. -/
theorem c16_silent_child_times_out {α : Type} (written : List (Nat × α)) (i : Nat)
    (h : ∀ l ∈ written, l.1 ≠ i) : pending written i = .timedOut := by
  unfold pending
  have : written.find? (fun l => l.1 == i) = none := by
    simp only [List.find?_eq_none]
    intro l hl
    simpa using h l hl
  simp [this]

/-- **The negotiated version and what the reader is busy with do not matter**: whatever protocol version the client
settled on and whether or not its reader is in the middle of answering a batch to a child that does not read, leaving
the context is the same bounded, reaping exit. -/
theorem c16_client_settings_irrelevant (s s' : ClientSettings) (d : Design) (os : OS) (p : ExitPath) (c : ChildSpec)
    (l : Load) : leaveWith s d os p c l = leaveWith s' d os p c l := rfl

example : leaveWith { version := none, readerWriting := false, pendingStreams := 3, readerEnded := true } Design.sound
      ⟨5, true⟩ .outerCancel (childSpec .flood .inflight) ⟨0, 131072⟩
    = leave Design.sound ⟨5, true⟩ .outerCancel (childSpec .flood .inflight) ⟨0, 131072⟩ := rfl

example : leaveWith { version := some "2025-06-18", readerWriting := true } Design.sound ⟨5, true⟩ .normal (childSpec .flood .before) ⟨640000, 131072⟩
    = leave Design.sound ⟨5, true⟩ .normal (childSpec .flood .before) ⟨640000, 131072⟩ := rfl

/-- **Concurrent clients do not answer for one another.**  With several clients alive at once, what client `k`'s
pending request returns was written by client `k`'s own child under that id, and it does not change when the OTHER
connections carry different traffic (the same request id included). -/
theorem c16_concurrent_no_fabricated_result {α : Type} (clients : List (List (Nat × α))) (k i : Nat) (p : α)
    (h : pendingOf clients k i = .returned p) : (i, p) ∈ clients.getD k [] :=
  c16_no_fabricated_result _ i p h

theorem c16_concurrent_clients_independent {α : Type} (clients clients' : List (List (Nat × α))) (k i : Nat)
    (h : clients.getD k [] = clients'.getD k []) : pendingOf clients k i = pendingOf clients' k i := by
  unfold pendingOf
  rw [h]

/-- a dead child next to a talkative one, same id on both connections -/
example : pendingOf [[], [(1, "b's answer")]] 0 1 = (.timedOut : ReqOutcome String)
    ∧ pendingOf [[], [(1, "b's answer")]] 1 1 = .returned "b's answer" := by
  constructor
  · exact c16_silent_child_times_out _ _ (by simp)
  · simp [pendingOf, pending]

/-- **A command that cannot be started makes entering raise** (and there is then no exit to run). -/
theorem c16_bad_command_raises (shielded : Bool) (os : OS) (p : ExitPath) (c : ChildSpec) :
    (session shielded os .failed p c).raisedOnEnter = true
    ∧ (session shielded os .failed p c).trace = none := by
  simp [session]

/-! ## Non-vacuity -/

/-- a child that ignores SIGTERM, left by outer cancellation: killed after the first grace
period, reaped 5 ms later -/
example : exit true ⟨5, true⟩ .outerCancel (childSpec .ignoreTerm (.after 1))
    = { signals := [(0, .term), (1000, .kill)], duration := 1005, child := .reaped } := by decide

/-- the same child, unshielded: nothing happens -/
example : exit false ⟨5, true⟩ .outerCancel (childSpec .ignoreTerm (.after 1))
    = { signals := [], duration := 0, child := .running } := by decide

/-- a well-behaved child on the normal path -/
example : exit true ⟨5, true⟩ .normal (childSpec .well .inflight)
    = { signals := [(0, .term)], duration := 0, child := .reaped } := by decide

/-- a child that exited at step 1 of the conversation, seen after the first request -/
example : exit true ⟨5, true⟩ .timeoutAround (childSpec (.exitAt 1) (.after 1))
    = { signals := [], duration := 0, child := .reaped } := by decide

/-- the OS hypotheses of `c16_reaped` are needed: a SIGKILL that takes longer than the grace period -/
example : (exit true ⟨5000, true⟩ .normal (childSpec .ignoreTerm .before)).child = .running := by decide

/-- instance of `c16_reaped`: a flooding child, left by a timeout with a request in flight -/
example : (exit true ⟨5, true⟩ .timeoutAround (childSpec .flood .inflight)).child = .reaped :=
  c16_reaped ⟨5, true⟩ .timeoutAround (childSpec .flood .inflight) (by decide) rfl

/-- a child that never reads, 640 kB queued, normal exit: the sound design is done at once -/
example : leave Design.sound ⟨5, true⟩ .normal (childSpec .neverReads .before) ⟨640000, 131072⟩
    = some { signals := [(0, .term)], duration := 0, child := .reaped } := by decide

/-- the same with an unbounded wait for the writer and a child that ends after 8 s: 8 s -/
example : (leave { shielded := true, flushWait := none, entryGap := false } ⟨5, true⟩ .normal
      { childSpec .neverReads .before with selfExit := some 8000 } ⟨640000, 131072⟩).map (·.duration)
    = some 8000 := by decide

/-- ... and never, with a real server -/
example : leave { shielded := true, flushWait := none, entryGap := false } ⟨5, true⟩ .exception (childSpec .neverReads .inflight) ⟨640000, 131072⟩
    = none := by decide

/-- the hypotheses of `c16_unbounded_flush_never_returns` are needed: a small backlog fits the pipe -/
example : (leave { shielded := true, flushWait := none, entryGap := false } ⟨5, true⟩ .normal (childSpec .neverReads .before) ⟨2000, 131072⟩).isSome
    = true := by decide

/-- a child that closes its stdout after one answer and ignores SIGTERM: killed and reaped -/
example : leave Design.sound ⟨5, true⟩ .normal (childSpec (.closeStdout true 1) (.after 1)) ⟨0, 131072⟩
    = some { signals := [(0, .term), (1000, .kill)], duration := 1005, child := .reaped } := by decide

/-- ... and left running by an exit that trusts the EOF -/
example : (leave { Design.sound with eofMeansGone := true } ⟨5, true⟩ .normal
      (childSpec (.closeStdout false 0) .before) ⟨0, 131072⟩).map (·.child) = some .running := by decide

/-- three sessions on one object -/
example : (sessions Design.sound ⟨5, true⟩
      (List.replicate 3 (.normal, childSpec .well (.after 1), ⟨0, 131072⟩))).map (·.map (·.child))
    = [some .reaped, some .reaped, some .reaped] := by decide
example : (sessions { Design.sound with exitOnce := true } ⟨5, true⟩
      (List.replicate 3 (.normal, childSpec .well (.after 1), ⟨0, 131072⟩))).map (·.map (·.child))
    = [some .reaped, some .running, some .running] := by decide

/-- a grandchild keeps the dead child's stdout open: reaped, and the drain bound on top -/
example : (leave Design.sound ⟨5, true⟩ .normal { childSpec .well .before with stdoutHeld := true } ⟨0, 131072⟩).map
      (fun t => (t.duration, t.child)) = some (Verif.Gen.Shutdown.drainMs, .reaped) := by decide

example : pending [(1, "a"), (2, "b")] 2 = .returned "b" := by simp [pending]
example : pending [(1, "a")] 2 = (.timedOut : ReqOutcome String) :=
  c16_silent_child_times_out _ _ (by simp)

/-! ## No fabricated result, end to end (composition of C05's reader with C01's await)

`c16_no_fabricated_result` above is stated over "the response lines the child wrote".  The
delivery path from the child's bytes to the caller is the stdio reader (C05) followed by
`send_message`'s receive loop (C01); composing their theorems closes the gap: whatever value a
request returns was carried by a line the child actually wrote — for EVERY chunking of the
child's output, every line parser, every arrival timing and every helper classifier. -/
open Verif.Model in
theorem c16_returned_value_was_written_by_child {μ α : Type}
    (cfg : StdioIn.Cfg μ) (toIn : μ → Await.In α)
    (items : List StdioIn.Item) (chunks : List (List Nat))
    (hi : ∀ it ∈ items, Verif.Lemmas.StdioIn.ValidItem it)
    (hc : chunks.flatten = StdioIn.encode (StdioIn.render items))
    (hnb : ∀ it ∈ items, ∀ ms, cfg.parse (StdioIn.strip it.text) ≠ .batch ms)
    (R : Int → Bool) (acfg : Await.Cfg α) (hist : List (Nat × Await.In α))
    (hh : hist.map (·.2) = (StdioIn.delivered (StdioIn.runChunks cfg StdioIn.init chunks).2).map toIn)
    (p : α) (hret : (Await.run R acfg hist).outcome = .returned p) :
    ∃ it ∈ items, ∃ m, Verif.Props.C05.good cfg it = some m ∧ toIn m = Await.In.resp acfg.reqId p := by
  obtain ⟨pre, a, post, he, _⟩ := Verif.Props.C01.c01_result_sound R acfg hist p hret
  have hmem : Await.In.resp acfg.reqId p ∈ hist.map (·.2) := by
    rw [he]; simp
  rw [hh, Verif.Props.C05.c05_good_lines_filterMap cfg items chunks hi hc hnb] at hmem
  obtain ⟨m, hm, hmt⟩ := List.mem_map.mp hmem
  obtain ⟨it, hit, hg⟩ := List.mem_filterMap.mp hm
  exact ⟨it, hit, m, hg, hmt⟩

open Verif.Model in
/-- … in particular a child that wrote no line parsing to a response with the request's id (it
died, stays silent, or only floods other traffic) can only make the request time out or be
cancelled — never return, never raise a server error. -/
theorem c16_dead_child_never_answers {μ α : Type}
    (cfg : StdioIn.Cfg μ) (toIn : μ → Await.In α)
    (items : List StdioIn.Item) (chunks : List (List Nat))
    (hi : ∀ it ∈ items, Verif.Lemmas.StdioIn.ValidItem it)
    (hc : chunks.flatten = StdioIn.encode (StdioIn.render items))
    (hnb : ∀ it ∈ items, ∀ ms, cfg.parse (StdioIn.strip it.text) ≠ .batch ms)
    (R : Int → Bool) (acfg : Await.Cfg α) (hist : List (Nat × Await.In α))
    (hh : hist.map (·.2) = (StdioIn.delivered (StdioIn.runChunks cfg StdioIn.init chunks).2).map toIn)
    (hsilent : ∀ it ∈ items, ∀ m, Verif.Props.C05.good cfg it = some m → Await.isMatch acfg (toIn m) = false) :
    (Await.run R acfg hist).outcome = .timedOut ∨ (Await.run R acfg hist).outcome = .cancelled := by
  apply Verif.Props.C01.c01_never_foreign R acfg hist
  intro x hx
  have hmem : x.2 ∈ hist.map (·.2) := List.mem_map.mpr ⟨x, hx, rfl⟩
  rw [hh, Verif.Props.C05.c05_good_lines_filterMap cfg items chunks hi hc hnb] at hmem
  obtain ⟨m, hm, hmt⟩ := List.mem_map.mp hmem
  obtain ⟨it, hit, hg⟩ := List.mem_filterMap.mp hm
  rw [← hmt]
  exact hsilent it hit m hg

end Verif.Props.C16
