import Verif.Gen.Versions
import Verif.Lemmas.Batching
import Verif.Lemmas.StdioIn

/-! # C13 — batches are accepted exactly for protocol versions older than 2025-06-18

Decision part.  `supportsBatchingGen` is REGENERATED from the if/elif chain of
`supports_batching` (`protocol/features/batching.py`) on every run, so a changed cutoff, a `>`
turned `>=`, an off-by-one in year/month/day makes `c13_iff_before_cutoff` fail to build.
`supportsBatching` (guards + chain) and `pvCompare` (`ProtocolVersion.compare`) are in
`Model/Batching.lean`.
-/
set_option linter.unusedVariables false
namespace Verif.Props.C13
open Verif.Gen.Versions Verif.Model.Batching Verif.Lemmas.Batching

/-- The translator covered the if/elif chain of `supports_batching`. -/
theorem c13_translated : translatable = true := by decide

/-- Main theorem: for EVERY well-formed version `abcd-ef-gh` (eight decimal digits, no calendar
restriction) the regenerated decision is "strictly before 2025-06-18" in the digit-wise
lexicographic order — which is the library's own order on such strings (`c13_agrees_with_compare`). -/
theorem c13_iff_before_cutoff (a b c d e f g h : Nat) (ha : a < 10) (hb : b < 10) (hc : c < 10)
    (hd : d < 10) (he : e < 10) (hf : f < 10) (hg : g < 10) (hh : h < 10) :
    supportsBatchingGen ((1000 * a + 100 * b + 10 * c + d : Nat) : Int) ((10 * e + f : Nat) : Int)
        ((10 * g + h : Nat) : Int)
      = lexLt [a, b, c, d, e, f, g, h] cutoffDigits := by
  simp only [supportsBatchingGen, lexLt, cutoffDigits]
  grind (splits := 80)

example : supportsBatchingGen 2025 6 17 = true ∧ supportsBatchingGen 2025 6 18 = false
    ∧ lexLt [2, 0, 2, 5, 0, 6, 1, 7] cutoffDigits = true ∧ lexLt [2, 0, 2, 5, 0, 6, 1, 8] cutoffDigits = false := by
  decide

/-- The same for ALL integers (no digit or range restriction): the chain accepts exactly the
(year, month, day) triples that precede (2025, 6, 18) in date order. -/
theorem c13_gen_iff_date_before (y m d : Int) :
    supportsBatchingGen y m d = true ↔ dateLt y m d 2025 6 18 := by
  simp only [supportsBatchingGen, dateLt]
  grind

example : dateLt 2024 11 5 2025 6 18 ∧ ¬ dateLt 2025 6 18 2025 6 18 := by
  simp [dateLt]

/-- Monotone in the date, over all integers: if a version supports batching so does every
version that is not later. -/
theorem c13_monotone (y1 m1 d1 y2 m2 d2 : Int) (hle : dateLe y1 m1 d1 y2 m2 d2)
    (h2 : supportsBatchingGen y2 m2 d2 = true) : supportsBatchingGen y1 m1 d1 = true := by
  rw [c13_gen_iff_date_before] at *
  simp only [dateLe, dateLt] at *
  omega

example : dateLe 2024 11 5 2025 3 26 ∧ supportsBatchingGen 2025 3 26 = true := by
  simp [dateLe, dateLt]; decide

/-- No negotiated version (`None`, or an empty string) ⇒ batches are accepted. -/
theorem c13_none_accepts : supportsBatching none = true ∧ supportsBatching (some []) = true := by
  simp [supportsBatching]

/-- String level: on the padded format the hand-modelled guards (`split("-")`, three parts,
`int()` of each) all pass, so `supports_batching("abcd-ef-gh")` IS the digit-order test. -/
theorem c13_string_level (a b c d e f g h : Nat) (ha : a < 10) (hb : b < 10) (hc : c < 10)
    (hd : d < 10) (he : e < 10) (hf : f < 10) (hg : g < 10) (hh : h < 10) :
    supportsBatching (some (fmt a b c d e f g h)) = lexLt [a, b, c, d, e, f, g, h] cutoffDigits := by
  rw [supports_fmt a b c d e f g h ha hb hc hd he hf hg hh,
    c13_iff_before_cutoff a b c d e f g h ha hb hc hd he hf hg hh]

example : fmt 2 0 2 5 0 3 2 6 = "2025-03-26".toList ∧ supportsBatching (some "2025-03-26".toList) = true
    ∧ supportsBatching (some "2025-06-18".toList) = false := by
  refine ⟨by decide, ?_, ?_⟩
  · have := c13_string_level 2 0 2 5 0 3 2 6 (by omega) (by omega) (by omega) (by omega) (by omega)
      (by omega) (by omega) (by omega)
    rw [show "2025-03-26".toList = fmt 2 0 2 5 0 3 2 6 by decide, this]; decide
  · have := c13_string_level 2 0 2 5 0 6 1 8 (by omega) (by omega) (by omega) (by omega) (by omega)
      (by omega) (by omega) (by omega)
    rw [show "2025-06-18".toList = fmt 2 0 2 5 0 6 1 8 by decide, this]; decide

/-- Agreement with the library's own version ordering: for every well-formed version string `v`,
`ProtocolVersion.compare(v, "2025-06-18")` does not raise and is `-1` ("older") exactly when
`supports_batching(v)`; it is `0` exactly for the cutoff itself and `1` otherwise. -/
theorem c13_agrees_with_compare (a b c d e f g h : Nat) (ha : a < 10) (hb : b < 10) (hc : c < 10)
    (hd : d < 10) (he : e < 10) (hf : f < 10) (hg : g < 10) (hh : h < 10) :
    pvCompare (fmt a b c d e f g h) cutoff =
      .ok (if supportsBatching (some (fmt a b c d e f g h)) then -1
           else if [a, b, c, d, e, f, g, h] = cutoffDigits then 0 else 1) := by
  rw [c13_string_level a b c d e f g h ha hb hc hd he hf hg hh]
  unfold pvCompare
  rw [valid_fmt a b c d e f g h ha hb hc hd he hf hg hh, valid_cutoff,
    strLt_cutoff_fmt a b c d e f g h ha hb hc hd he hf hg hh]
  have hq := fmt_eq_cutoff a b c d e f g h ha hb hc hd he hf hg hh
  rcases lex_trichotomy a b c d e f g h with ⟨h1, h2, h3⟩ | ⟨h1, h2, h3⟩ | ⟨h1, h2, h3⟩
  · have : fmt a b c d e f g h ≠ cutoff := fun hx => h3 (hq.mp hx)
    simp [h1, h2, this]
  · have : fmt a b c d e f g h = cutoff := hq.mpr h3
    simp [h3, this]; decide
  · have : fmt a b c d e f g h ≠ cutoff := fun hx => h3 (hq.mp hx)
    simp [h1, h2, h3, this]

example : pvCompare "2024-11-05".toList cutoff = .ok (-1) ∧ pvCompare "2025-06-18".toList cutoff = .ok 0
    ∧ pvCompare "2025-06-19".toList cutoff = .ok 1 ∧ pvCompare "2025-6-19".toList cutoff = .error () := by
  refine ⟨by rfl, by rfl, by rfl, by rfl⟩

/-- Monotone at the string level, in the library's own order: if `v1` is not newer than `v2`
(both well-formed) and `v2` supports batching then so does `v1`. -/
theorem c13_monotone_strings (a b c d e f g h a' b' c' d' e' f' g' h' : Nat)
    (ha : a < 10) (hb : b < 10) (hc : c < 10) (hd : d < 10) (he : e < 10) (hf : f < 10) (hg : g < 10)
    (hh : h < 10) (ha' : a' < 10) (hb' : b' < 10) (hc' : c' < 10) (hd' : d' < 10) (he' : e' < 10)
    (hf' : f' < 10) (hg' : g' < 10) (hh' : h' < 10)
    (hle : lexLt [a', b', c', d', e', f', g', h'] [a, b, c, d, e, f, g, h] = false)
    (h2 : supportsBatching (some (fmt a' b' c' d' e' f' g' h')) = true) :
    supportsBatching (some (fmt a b c d e f g h)) = true := by
  rw [c13_string_level _ _ _ _ _ _ _ _ ha hb hc hd he hf hg hh]
  rw [c13_string_level _ _ _ _ _ _ _ _ ha' hb' hc' hd' he' hf' hg' hh'] at h2
  simp only [lexLt, cutoffDigits] at *
  grind (splits := 200)

/-- The mode of a `BatchProcessor` after any sequence of version updates is the decision for the
last version set (no memory of earlier versions). -/
theorem c13_mode_follows_last_version (init : Option (List Char)) (sets : List (Option (List Char)))
    (v : Option (List Char)) : modeAfter init (sets ++ [v]) = supportsBatching v := by
  simp [modeAfter]

example : modeAfter none [some "2024-11-05".toList, some "2025-06-18".toList] = false
    ∧ modeAfter none [some "2025-06-18".toList, some "2025-03-26".toList] = true := by
  decide

/-! ## Transport part (stdio reader, `Model/StdioIn.lean`)

`cfg.parse` is the library's parser as a parameter: a stripped line is junk, one message, or a
JSON array with, per member, the message `parse_message` returns or `none` when it raises.  All
statements are for every parser, every version (string or `None`), every batch of any length,
every stream and every chunking of it. -/
section transport
open Verif.Model.StdioIn Verif.Lemmas.StdioIn
variable {μ : Type}

/-- the reader after a handshake at version `v` -/
def negotiated (v : Option (List Char)) : St := { init with batching := supportsBatching v }

/-- What the reader does with a stream of complete lines received after `set_protocol_version(v)`,
for every chunking: line by line, in the mode decided by `v`. -/
theorem c13_reader_after_handshake (cfg : Cfg μ) (v : Option (List Char)) (items : List Item)
    (chunks : List (List Nat)) (hi : ∀ it ∈ items, ValidItem it)
    (hc : chunks.flatten = encode (render items)) :
    (run cfg init (.setVersion v :: chunks.map Ev.chunk)).2
      = items.flatMap (fun it => processLine cfg (supportsBatching v) it.text) := by
  rw [run_setVersion]
  have := run_items cfg (supportsBatching v) items chunks hi hc
  simp only [init] at this ⊢
  rw [this]

/-- **Without batching: one −32600 error, nothing delivered.**  At a version that does not support
batching a JSON array line — whatever its members, valid or not, even empty — produces exactly one
rejection written back and no delivery and no notification offer. -/
theorem c13_reject_single_error_no_delivery (cfg : Cfg μ) (v : Option (List Char)) (line : List Nat)
    (ms : List (Option μ)) (hv : supportsBatching v = false) (hne : strip line ≠ [])
    (hp : cfg.parse (strip line) = .batch ms) :
    processLine cfg (supportsBatching v) line = [.reject]
    ∧ delivered (processLine cfg (supportsBatching v) line) = []
    ∧ offered (processLine cfg (supportsBatching v) line) = []
    ∧ rejections (processLine cfg (supportsBatching v) line) = 1 := by
  have : processLine cfg (supportsBatching v) line = [.reject] := by
    simp [processLine, hne, hp, hv]
  simp [this, delivered, offered, rejections]

/-- **With batching: every member the parser accepts is delivered, in order**, id-less members are
also offered on the notification stream, and nothing is written back. -/
theorem c13_accept_delivers_members (cfg : Cfg μ) (v : Option (List Char)) (line : List Nat)
    (ms : List (Option μ)) (hv : supportsBatching v = true) (hne : strip line ≠ [])
    (hp : cfg.parse (strip line) = .batch ms) :
    delivered (processLine cfg (supportsBatching v) line) = ms.filterMap id
    ∧ offered (processLine cfg (supportsBatching v) line) = (ms.filterMap id).filter cfg.isNotif
    ∧ rejections (processLine cfg (supportsBatching v) line) = 0 := by
  have : processLine cfg (supportsBatching v) line = ms.flatMap (routeMember cfg) := by
    simp [processLine, hne, hp, hv]
  rw [this]
  exact ⟨members_delivered cfg ms, members_offered cfg ms, members_rejections cfg ms⟩

/-- **An invalid member is dropped alone**: a batch with a rejected member anywhere is processed
exactly as the batch without that member. -/
theorem c13_bad_member_isolated (cfg : Cfg μ) (a b : List (Option μ)) :
    (a ++ none :: b).flatMap (routeMember cfg) = (a ++ b).flatMap (routeMember cfg)
    ∧ delivered ((a ++ none :: b).flatMap (routeMember cfg)) = a.filterMap id ++ b.filterMap id := by
  constructor
  · simp [List.flatMap_append, List.flatMap_cons, routeMember]
  · rw [members_delivered]; simp [List.filterMap_append]

/-- A single message line is untouched by the mode: delivered at every version. -/
theorem c13_single_messages_unaffected (cfg : Cfg μ) (b₁ b₂ : Bool) (line : List Nat) (m : μ)
    (hp : cfg.parse (strip line) = .single m) :
    processLine cfg b₁ line = processLine cfg b₂ line := by
  simp [processLine, hp]

/-- **Version changes mid-connection.**  Lines received before a `set_protocol_version` are
processed in the old mode, lines received after it in the new one; with `c13_mode_follows_last_version`
the mode is always that of the last version set. -/
theorem c13_version_change_mid_connection (cfg : Cfg μ) (v₁ v₂ : Option (List Char))
    (items₁ items₂ : List Item) (ch₁ ch₂ : List (List Nat))
    (h₁ : ∀ it ∈ items₁, ValidItem it) (h₂ : ∀ it ∈ items₂, ValidItem it)
    (hc₁ : ch₁.flatten = encode (render items₁)) (hc₂ : ch₂.flatten = encode (render items₂)) :
    (run cfg init (.setVersion v₁ :: ch₁.map Ev.chunk ++ .setVersion v₂ :: ch₂.map Ev.chunk)).2
      = items₁.flatMap (fun it => processLine cfg (supportsBatching v₁) it.text)
        ++ items₂.flatMap (fun it => processLine cfg (supportsBatching v₂) it.text) := by
  rw [show (Ev.setVersion v₁ :: ch₁.map Ev.chunk ++ Ev.setVersion v₂ :: ch₂.map Ev.chunk)
      = (Ev.setVersion v₁ :: ch₁.map Ev.chunk) ++ (Ev.setVersion v₂ :: ch₂.map Ev.chunk) by simp]
  have e1 : run cfg init (.setVersion v₁ :: ch₁.map Ev.chunk)
      = ({ init with batching := supportsBatching v₁ },
         items₁.flatMap (fun it => processLine cfg (supportsBatching v₁) it.text)) := by
    rw [run_setVersion]; exact run_items cfg (supportsBatching v₁) items₁ ch₁ h₁ hc₁
  have e2 : run cfg { init with batching := supportsBatching v₁ } (.setVersion v₂ :: ch₂.map Ev.chunk)
      = ({ init with batching := supportsBatching v₂ },
         items₂.flatMap (fun it => processLine cfg (supportsBatching v₂) it.text)) := by
    rw [run_setVersion]; exact run_items cfg (supportsBatching v₂) items₂ ch₂ h₂ hc₂
  rw [run_append, e1]
  simp only
  rw [e2]

/-! Non-vacuity: a parser that knows one batch line `[..]` with members (valid, invalid, valid
notification); the same bytes before and after the cutoff version. -/
def exCfg : Cfg Nat :=
  { parse := fun s => if s = [91, 49, 93] then .batch [some 1, none, some 2] else .junk,
    isNotif := fun m => m = 2 }

example : (run exCfg init [.setVersion (some "2025-06-18".toList), .chunk [91, 49], .chunk [93, 13, 10]]).2 = [.reject] := by
  decide

example : (run exCfg init [.setVersion (some "2025-03-26".toList), .chunk [91, 49], .chunk [93, 13, 10]]).2
    = [.deliver 1, .notify 2, .deliver 2] := by
  decide

example : (run exCfg init [.chunk [91, 49, 93, 10], .setVersion (some "2025-06-18".toList), .chunk [91, 49, 93, 10],
    .setVersion (some "2024-11-05".toList), .chunk [91, 49, 93, 10]]).2
    = [.deliver 1, .notify 2, .deliver 2, .reject, .deliver 1, .notify 2, .deliver 2] := by
  decide

end transport

end Verif.Props.C13
