import Verif.Lemmas.StdioOut

/-! # C06 — stdio outbound framing: one message, one line, in order

Model: `Verif.Model.StdioOut.writer` (type dispatch str / value / unserialisable, per-message
`try … except: continue`, `aclose()` when the outgoing stream ends) over a local JSON value type
with a compact and a stdlib-style encoder.  Every theorem is for every sequence of outbound items
of any length, every JSON value (any nesting, strings over all code points), both serialiser
styles (in fact every style whose separators contain no line break).

PARTIAL with respect to the property text in one respect, named here: "whose decoded value equals
the message" would need a JSON decoder with `dec (enc v) = v` (that is C17's theorem); in this
file the line of a value item IS `enc v` by definition of the model, and that the real serialisers
(`model_dump_json(exclude_none=True)`, orjson, stdlib json) produce a text denoting the message's
value is decided by the correspondence run, which decodes every line the real writer emitted.
-/
set_option linter.unusedVariables false
set_option linter.unusedSimpArgs false
namespace Verif.Props.C06
open Verif.Model.StdioIn Verif.Model.StdioOut Verif.Lemmas.StdioIn Verif.Lemmas.StdioOut

/-- a serialiser style whose separators contain no line break (compact and stdlib both) -/
def GoodStyle (sty : Style) : Prop := NoBreak sty.itemSep ∧ NoBreak sty.kvSep

theorem goodStyle_compact : GoodStyle Style.compact := compact_seps
theorem goodStyle_std : GoodStyle Style.std := std_seps

/-- The JSON encoder never emits a raw LF or CR, for every value: line breaks inside strings
(and U+2028, NUL, quotes, … ) are escaped or harmless; by mutual induction over values, arrays,
objects. -/
theorem c06_encoder_no_raw_break (sty : Style) (h : GoodStyle sty) (v : Json) : NoBreak (enc sty v) :=
  enc_noBreak sty h.1 h.2 v

/-- **No raw line break inside a line**: every line written for a typed message / dict, and for a
caller-supplied string under the guard that it is a single-line pre-serialised message. -/
theorem c06_no_raw_break (sty : Style) (h : GoodStyle sty) (items : List Outbound)
    (hg : ∀ it ∈ items, Guarded it) : ∀ l ∈ items.filterMap (ser sty), NoBreak l := by
  intro l hl
  simp only [List.mem_filterMap] at hl
  obtain ⟨it, hit, hs⟩ := hl
  cases it with
  | value v => simp only [ser, Option.some.injEq] at hs; subst hs; exact c06_encoder_no_raw_break sty h v
  | raw s => simp only [ser, Option.some.injEq] at hs; subst hs; exact hg _ hit
  | unserialisable => simp [ser] at hs

/-- **One message, one line, in order.**  Splitting the bytes the child received at LF gives back
exactly the UTF-8 encodings of the serialisable items' lines, in the order sent, and nothing is
left over (the stream ends with the LF of the last line). -/
theorem c06_one_line_each (sty : Style) (h : GoodStyle sty) (items : List Outbound)
    (hg : ∀ it ∈ items, Guarded it) :
    split LF (childBytes sty items) = ((items.filterMap (ser sty)).map encode, []) := by
  unfold childBytes
  rw [sends_eq]
  exact split_lines _ (fun l hl => (c06_no_raw_break sty h items hg l hl).1)

/-- … and each accepted message is one `send()` of one LF-terminated line. -/
theorem c06_one_send_each (sty : Style) (items : List Outbound) :
    sends sty items = (items.filterMap (ser sty)).map (fun l => encode l ++ [LF]) := by
  rw [sends_eq]
  congr 1
  funext l
  rw [encode_append, encode_lf]

/-- the number of lines is the number of serialisable messages -/
theorem c06_line_count (sty : Style) (h : GoodStyle sty) (items : List Outbound)
    (hg : ∀ it ∈ items, Guarded it) :
    (split LF (childBytes sty items)).1.length = (items.filterMap (ser sty)).length := by
  rw [c06_one_line_each sty h items hg]; simp

/-- **The bytes are UTF-8 and decode to the lines** (every code point a scalar value): the
incremental decoder of the reader model recovers the texts with their terminators. -/
theorem c06_utf8_roundtrip (sty : Style) (items : List Outbound)
    (hs : ∀ l ∈ items.filterMap (ser sty), ∀ c ∈ l, isScalar c = true) :
    decBytes [] (childBytes sty items) = .ok ((items.filterMap (ser sty)).flatMap (fun l => l ++ [LF]), []) := by
  unfold childBytes
  rw [sends_eq]
  have : ((items.filterMap (ser sty)).map (fun l => encode (l ++ [LF]))).flatten
      = encode ((items.filterMap (ser sty)).flatMap (fun l => l ++ [LF])) := by
    generalize items.filterMap (ser sty) = ls
    induction ls with
    | nil => rfl
    | cons l ls ih =>
      simp only [List.map_cons, List.flatten_cons, List.flatMap_cons]
      rw [ih, ← encode_append]
  rw [this]
  apply dec_encode
  intro c hc
  simp only [List.mem_flatMap, List.mem_append, List.mem_singleton] at hc
  obtain ⟨l, hl, hc⟩ := hc
  rcases hc with hc | hc
  · exact hs l hl c hc
  · subst hc; decide

/-- **An unserialisable message is dropped alone**: removing it from the sequence changes neither
the bytes nor the individual sends; everything before and after it is written as without it. -/
theorem c06_drop_isolated (sty : Style) (a b : List Outbound) :
    sends sty (a ++ .unserialisable :: b) = sends sty (a ++ b)
    ∧ childBytes sty (a ++ .unserialisable :: b) = childBytes sty (a ++ b) := by
  have : sends sty (a ++ .unserialisable :: b) = sends sty (a ++ b) := by
    simp [sends, List.filterMap_append, ser]
  exact ⟨this, by unfold childBytes; rw [this]⟩

/-- later messages are still delivered: the bytes of a sequence are the bytes of its parts -/
theorem c06_sequence_is_concatenation (sty : Style) (a b : List Outbound) :
    childBytes sty (a ++ b) = childBytes sty a ++ childBytes sty b := by
  simp [childBytes, sends, List.filterMap_append]

/-- **Closing the write stream closes the child's stdin** — after everything was written — and
stdin is not closed while the stream is open. -/
theorem c06_close_closes_stdin (sty : Style) (items : List Outbound) :
    (writer sty items true).stdinClosed = true ∧ (writer sty items false).stdinClosed = false
    ∧ (writer sty items true).bytes = childBytes sty items := by
  simp [writer]

/-! ## Two writers on the child's stdin

The outgoing-stream writer is not alone: the stdout reader task writes a rejection error line
(`_send_error_response`) for every batch received at a version without batching.  Both use one
`send()` per complete line, and a `send()` is atomic; the scheduler interleaves the two tasks'
sends in any order.  The next theorems are for EVERY interleaving. -/

/-- **Lines are never torn, whatever the interleaving.**  If the sends reaching the pipe are any
interleaving `m` of the writer task's sends and the reader task's rejection sends, then the byte
stream splits at LF into an interleaving of exactly the accepted outbound lines (in the order
sent) and the rejection lines, nothing left over, no line with a raw break. -/
theorem c06_two_writers_lines_intact (sty : Style) (h : GoodStyle sty) (items : List Outbound)
    (rejs : List Json) (hg : ∀ it ∈ items, Guarded it) (m : List (List Nat))
    (hm : Interleaving (sends sty items) (rejectionSends sty rejs) m) :
    ∃ lines, Interleaving (items.filterMap (ser sty)) (rejs.map (enc sty)) lines
      ∧ split LF m.flatten = (lines.map encode, [])
      ∧ (∀ l ∈ lines, NoBreak l)
      ∧ (items.filterMap (ser sty)).Sublist lines := by
  rw [sends_eq, rejectionSends_eq] at hm
  obtain ⟨lines, hl, rfl⟩ := interleaving_map_inv _ m _ _ hm
  have hnb : ∀ l ∈ lines, NoBreak l := by
    intro l hlm
    rcases interleaving_mem hl l hlm with h1 | h1
    · exact c06_no_raw_break sty h items hg l h1
    · simp only [List.mem_map] at h1
      obtain ⟨r, _, rfl⟩ := h1
      exact c06_encoder_no_raw_break sty h r
  exact ⟨lines, hl, split_lines lines (fun l hlm => (hnb l hlm).1), hnb, interleaving_sublist_left hl⟩

/-- … in particular for every schedule of the executable two-writer model. -/
theorem c06_two_writers_every_schedule (sty : Style) (h : GoodStyle sty) (items : List Outbound)
    (rejs : List Json) (hg : ∀ it ∈ items, Guarded it) (sched : List Bool) :
    ∃ lines, Interleaving (items.filterMap (ser sty)) (rejs.map (enc sty)) lines
      ∧ split LF (childBytes2 sty items rejs sched) = (lines.map encode, [])
      ∧ (items.filterMap (ser sty)).Sublist lines := by
  obtain ⟨lines, h1, h2, _, h4⟩ := c06_two_writers_lines_intact sty h items rejs hg _
    (mergeAll_interleaving sched (sends sty items) (rejectionSends sty rejs))
  exact ⟨lines, h1, h2, h4⟩

/-- **Every line the child receives is one complete outbound message or one complete rejection
error** — never a fragment, never two glued together. -/
theorem c06_each_line_message_or_rejection (sty : Style) (h : GoodStyle sty) (items : List Outbound)
    (rejs : List Json) (hg : ∀ it ∈ items, Guarded it) (m : List (List Nat))
    (hm : Interleaving (sends sty items) (rejectionSends sty rejs) m) :
    ∀ b ∈ (split LF m.flatten).1,
      (∃ l ∈ items.filterMap (ser sty), b = encode l) ∨ (∃ r ∈ rejs, b = encode (enc sty r)) := by
  obtain ⟨lines, hl, hs, _, _⟩ := c06_two_writers_lines_intact sty h items rejs hg m hm
  intro b hb
  rw [hs] at hb
  simp only [List.mem_map] at hb
  obtain ⟨l, hlm, rfl⟩ := hb
  rcases interleaving_mem hl l hlm with h1 | h1
  · exact Or.inl ⟨l, h1, rfl⟩
  · simp only [List.mem_map] at h1
    obtain ⟨r, hr, rfl⟩ := h1
    exact Or.inr ⟨r, hr, rfl⟩

/-- the number of lines is the number of accepted messages plus the number of rejections -/
theorem c06_two_writers_line_count (sty : Style) (h : GoodStyle sty) (items : List Outbound)
    (rejs : List Json) (hg : ∀ it ∈ items, Guarded it) (m : List (List Nat))
    (hm : Interleaving (sends sty items) (rejectionSends sty rejs) m) :
    (split LF m.flatten).1.length = (items.filterMap (ser sty)).length + rejs.length := by
  obtain ⟨lines, hl, hs, _, _⟩ := c06_two_writers_lines_intact sty h items rejs hg m hm
  rw [hs]; simp [interleaving_length hl]

/-! Why "one `send()` per line" is what the theorem rests on: a writer that hands the line `[1,2]`
to the pipe in two sends can have the rejection `{}` land between them; the child then sees the
lines `[1,{}` and `2]`, neither a message nor a rejection.  (This is an interleaving of the
*slices*, not of whole-line sends, so it is outside the hypothesis above — and it is the behaviour
the correspondence run's slow-stdin cases look for.) -/
example : split LF ([[91, 49, 44], [123, 125, 10], [50, 93, 10]] : List (List Nat)).flatten
    = ([[91, 49, 44, 123, 125], [50, 93]], []) := by decide

example : sends Style.compact [.value (.arr [.int 1, .int 2])] = [[91, 49, 44, 50, 93, 10]]
    ∧ rejectionSends Style.compact [.obj []] = [[123, 125, 10]]
    ∧ childBytes2 Style.compact [.value (.arr [.int 1, .int 2]), .raw [120]] [.obj []] [true, false]
        = [91, 49, 44, 50, 93, 10, 123, 125, 10, 120, 10] := by
  simp [sends, rejectionSends, childBytes2, mergeAll, ser, enc, encList, encKvs, intText, natDigits, encode,
    encodeChar, Style.compact, LF]

/-! ## Non-vacuity: a dict whose string holds LF, CR, U+2028, NUL, a quote and U+1F600, then an
unserialisable object, then a pre-serialised line -/

def exItems : List Outbound :=
  [.value (.obj [([109], .str [10, 13, 8232, 0, 34, 128512]), ([110], .arr [.int (-12), .null, .bool true])]),
   .unserialisable,
   .raw [123, 125]]

example : ∀ it ∈ exItems, Guarded it := by
  intro it h
  simp only [exItems, List.mem_cons, List.mem_nil_iff, or_false] at h
  rcases h with rfl | rfl | rfl <;> simp [Guarded, NoBreak, LF, CR]

example : exItems.filterMap (ser Style.compact)
    = ["{\"m\":\"\\n\\r\u2028\\u0000\\\"😀\",\"n\":[-12,null,true]}".toList.map Char.toNat, [123, 125]] := by
  simp [exItems, ser, List.filterMap, enc, encKvs, encList, encStr, escChar, u4, hex, intText, natDigits, Style.compact]

example : exItems.filterMap (ser Style.std)
    = ["{\"m\": \"\\n\\r\\u2028\\u0000\\\"\\ud83d\\ude00\", \"n\": [-12, null, true]}".toList.map Char.toNat,
       [123, 125]] := by
  simp [exItems, ser, List.filterMap, enc, encKvs, encList, encStr, escChar, u4, hex, intText, natDigits, Style.std]

end Verif.Props.C06
