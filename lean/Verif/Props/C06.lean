import Verif.Lemmas.StdioOut

/-! # C06 — stdio outbound framing: one message, one line, in order, content preserved

Model: `Verif.Model.StdioOut` (type dispatch str / dict / typed envelope / unserialisable,
per-message `try … except: continue`, `aclose()` when the outgoing stream ends, and the SECOND
writer of the child's stdin: the reader task's batch-rejection lines).  JSON values, encoders and
decoder are the shared ones of `Model/Json.lean` (C17); a typed envelope is an `Rpc.Msg`, its wire
object `Rpc.emit m` (C02).  Every theorem is for every sequence of outbound items of any length,
every JSON value (any nesting, strings over all Unicode scalar values, integers of any size), and
EVERY encoder style `st` (separators with or without a space, raw UTF-8 or `ensure_ascii`: orjson /
pydantic-core and stdlib `json` are two of the four).

Guards (`Guarded`): a caller-supplied string is a single-line pre-serialised message (no raw LF/CR)
— the property's own restriction; float tokens inside payloads are well-formed JSON numbers
(`wf`, floats are opaque tokens as in C17).

Outside the proof, sampled by the correspondence run: that `model_dump_json(exclude_none=True)` /
`json.dumps` write `Json.enc st` of the value for some style `st` (Pydantic, orjson, stdlib json).
-/
set_option linter.unusedVariables false
set_option linter.unusedSimpArgs false
namespace Verif.Props.C06
open Verif.Model.StdioIn Verif.Model.StdioOut Verif.Lemmas.StdioIn Verif.Lemmas.StdioOut
open Verif.Model.Json Verif.Model.Rpc
open Verif.Model.Carrier (codes chars)

/-- The JSON encoders never emit a raw LF or CR, for every value and every style (C17's encoder
theorem, by mutual induction over values, arrays, objects). -/
theorem c06_encoder_no_raw_break (st : Style) (v : Json) (h : wf v = true) : OneLine (enc st v) :=
  Verif.Model.Json.enc_noBreak st v h

/-- **No raw line break inside a line**: every line written for a dict / typed message, and for a
caller-supplied string under the guard that it is a single-line pre-serialised message. -/
theorem c06_no_raw_break (st : Style) (items : List Outbound)
    (hg : ∀ it ∈ items, Guarded it) : ∀ l ∈ items.filterMap (ser st), OneLine l := by
  intro l hl
  simp only [List.mem_filterMap] at hl
  obtain ⟨it, hit, hs⟩ := hl
  have g := hg it hit
  cases it with
  | value v => simp only [ser, Option.some.injEq] at hs; subst hs; exact c06_encoder_no_raw_break st v g
  | typed m =>
    simp only [ser, Option.some.injEq] at hs; subst hs
    exact c06_encoder_no_raw_break st _ (Verif.Model.Rpc.wf_emit m g)
  | raw s => simp only [ser, Option.some.injEq] at hs; subst hs; exact g
  | unserialisable => simp [ser] at hs

/-- **One message, one line, in order.**  Splitting the bytes the child received at LF gives back
exactly the UTF-8 encodings of the serialisable items' lines, in the order sent, and nothing is
left over (the stream ends with the LF of the last line). -/
theorem c06_one_line_each (st : Style) (items : List Outbound) (hg : ∀ it ∈ items, Guarded it) :
    split LF (childBytes st items) = ((items.filterMap (ser st)).map (fun l => encode (codes l)), []) := by
  unfold childBytes
  rw [sends_eq]
  exact split_lines _ (fun l hl => (c06_no_raw_break st items hg l hl).1)

/-- … and each accepted message is one `send()` of one LF-terminated line. -/
theorem c06_one_send_each (st : Style) (items : List Outbound) :
    sends st items = (items.filterMap (ser st)).map (fun l => encode (codes l) ++ [LF]) := by
  rw [sends_eq]
  congr 1
  funext l
  rw [encode_append, encode_lf]

/-- the number of lines is the number of serialisable messages -/
theorem c06_line_count (st : Style) (items : List Outbound) (hg : ∀ it ∈ items, Guarded it) :
    (split LF (childBytes st items)).1.length = (items.filterMap (ser st)).length := by
  rw [c06_one_line_each st items hg]; simp

/-- **The bytes are UTF-8 and decode to the lines**: the incremental decoder of the reader model
recovers the texts with their terminators. -/
theorem c06_utf8_roundtrip (st : Style) (items : List Outbound) :
    decBytes [] (childBytes st items)
      = .ok ((items.filterMap (ser st)).flatMap (fun l => codes l ++ [LF]), []) := by
  unfold childBytes
  rw [sends_eq]
  have : ((items.filterMap (ser st)).map (fun l => encode (codes l ++ [LF]))).flatten
      = encode ((items.filterMap (ser st)).flatMap (fun l => codes l ++ [LF])) := by
    generalize items.filterMap (ser st) = ls
    induction ls with
    | nil => rfl
    | cons l ls ih =>
      simp only [List.map_cons, List.flatten_cons, List.flatMap_cons]
      rw [ih, ← encode_append]
  rw [this]
  apply dec_encode
  intro c hc
  simp only [List.mem_flatMap, List.mem_append, List.mem_singleton] at hc
  obtain ⟨l, hl, hc⟩ := hc
  rcases hc with hc | hc
  · exact Verif.Lemmas.StdioCodec.validText_codes l c hc
  · subst hc; decide

/-- **Content preserved — one message.**  The line the child receives for a plain dict decodes
(UTF-8, then the RFC 8259 decoder `Json.dec`) to exactly the dict's value; the line for a typed
envelope decodes to exactly `Rpc.emit m`: the message with absent optional members omitted
(top-level `exclude_none`; nulls nested in `params` / `result` / `error` stay, C02) — for every
encoder style, every value, integers of any size. -/
theorem c06_decodes_to_message (st : Style) :
    (∀ v : Json, wf v = true →
      ∃ l, ser st (.value v) = some l ∧ dec l = some v ∧ decLine (encode (codes l)) = some v)
    ∧ (∀ m : Msg, wfMsg m = true →
      ∃ l, ser st (.typed m) = some l ∧ dec l = some (emit m) ∧ decLine (encode (codes l)) = some (emit m)) := by
  constructor
  · intro v h
    have := Verif.Model.Json.dec_enc st v h
    exact ⟨enc st v, rfl, this, by rw [decLine_codes, this]⟩
  · intro m h
    have := Verif.Model.Json.dec_enc st (emit m) (Verif.Model.Rpc.wf_emit m h)
    exact ⟨enc st (emit m), rfl, this, by rw [decLine_codes, this]⟩

/-- … and read back with the library's own parser the typed envelope is the message that was
sent: same kind, id (value and JSON type), method, params, result, error (C02's wire round trip). -/
theorem c06_typed_parses_back (st : Style) (m : Msg) (hb : Built m) (hw : wfMsg m = true) :
    ∃ l, ser st (.typed m) = some l ∧ (decLine (encode (codes l))).map parseMsg = some (.ok (view m)) := by
  refine ⟨enc st (emit m), rfl, ?_⟩
  rw [decLine_codes, Verif.Model.Json.dec_enc st (emit m) (Verif.Model.Rpc.wf_emit m hw)]
  simp [parse_emit_of_ok m (built_ok hb)]

/-- per item: decoding the line of an accepted item gives what the item denotes -/
theorem c06_item_decodes (st : Style) (it : Outbound) (g : Guarded it) :
    (ser st it).map (fun l => decLine (encode (codes l))) = decoded it := by
  cases it with
  | value v => simp [ser, decoded, decLine_codes, Verif.Model.Json.dec_enc st v g]
  | typed m =>
    simp [ser, decoded, decLine_codes, Verif.Model.Json.dec_enc st (emit m) (Verif.Model.Rpc.wf_emit m g)]
  | raw s => simp [ser, decoded, decLine_codes]
  | unserialisable => simp [ser, decoded]

/-- **Content preserved — the whole sequence.**  The child's byte stream, split at LF and decoded
line by line, is the list of what the accepted items denote, in order: the value of every dict,
`emit m` of every typed envelope, whatever a pre-serialised string denotes; nothing for an
unserialisable item. -/
theorem c06_stream_decodes (st : Style) (items : List Outbound) (hg : ∀ it ∈ items, Guarded it) :
    (split LF (childBytes st items)).1.map decLine = items.filterMap decoded := by
  rw [c06_one_line_each st items hg]
  simp only [List.map_map]
  induction items with
  | nil => rfl
  | cons it rest ih =>
    have h1 := c06_item_decodes st it (hg it (by simp))
    have ih' := ih (fun x hx => hg x (by simp [hx]))
    simp only [List.filterMap_cons]
    cases hs : ser st it with
    | none => simp only [hs, Option.map_none] at h1 ⊢; rw [← h1]; exact ih'
    | some l =>
      simp only [hs, Option.map_some] at h1
      rw [← h1]
      simp only [List.map_cons, Function.comp_apply, ih']

/-- … so for a sequence of dicts and typed envelopes (unserialisable objects anywhere between
them) the decoded lines are exactly the messages' values, in order. -/
theorem c06_stream_decodes_to_messages (st : Style) (items : List Outbound) (hg : ∀ it ∈ items, Guarded it)
    (hnr : ∀ it ∈ items, ∀ s, it ≠ .raw s) :
    (split LF (childBytes st items)).1.map decLine = (items.filterMap valueOf).map some := by
  rw [c06_stream_decodes st items hg]
  clear hg
  induction items with
  | nil => rfl
  | cons it rest ih =>
    have ih' := ih (fun x hx => hnr x (by simp [hx]))
    have h0 := hnr it (by simp)
    cases it with
    | value v => simp [List.filterMap_cons, decoded, valueOf, ih']
    | typed m => simp [List.filterMap_cons, decoded, valueOf, ih']
    | raw s => exact absurd rfl (h0 s)
    | unserialisable => simp [List.filterMap_cons, decoded, valueOf, ih']

/-- **An unserialisable message is dropped alone**: removing it from the sequence changes neither
the bytes nor the individual sends; everything before and after it is written as without it. -/
theorem c06_drop_isolated (st : Style) (a b : List Outbound) :
    sends st (a ++ .unserialisable :: b) = sends st (a ++ b)
    ∧ childBytes st (a ++ .unserialisable :: b) = childBytes st (a ++ b) := by
  have : sends st (a ++ .unserialisable :: b) = sends st (a ++ b) := by
    simp [sends, List.filterMap_append, ser]
  exact ⟨this, by unfold childBytes; rw [this]⟩

/-- later messages are still delivered: the bytes of a sequence are the bytes of its parts -/
theorem c06_sequence_is_concatenation (st : Style) (a b : List Outbound) :
    childBytes st (a ++ b) = childBytes st a ++ childBytes st b := by
  simp [childBytes, sends, List.filterMap_append]

/-- **Closing the write stream closes the child's stdin** — after everything was written — and
stdin is not closed while the stream is open. -/
theorem c06_close_closes_stdin (st : Style) (items : List Outbound) :
    (writer st items true).stdinClosed = true ∧ (writer st items false).stdinClosed = false
    ∧ (writer st items true).bytes = childBytes st items := by
  simp [writer]

/-! ## Two writers on the child's stdin

The outgoing-stream writer is not alone: the stdout reader task writes a rejection error line
(`_send_error_response`) for every batch received at a version without batching.  Both use one
`send()` per complete line, and a `send()` is atomic; the scheduler interleaves the two tasks'
sends in any order.  The next theorems are for EVERY interleaving. -/

/-- **Lines are never torn, whatever the interleaving.**  If the sends reaching the pipe are any
interleaving `m` of the writer task's sends and the reader task's rejection sends, then the byte
stream splits at LF into an interleaving of exactly the accepted outbound lines (in the order
sent) and the rejection lines, nothing left over, no line with a raw break. -/
theorem c06_two_writers_lines_intact (st : Style) (items : List Outbound)
    (rejs : List Json) (hg : ∀ it ∈ items, Guarded it) (hr : ∀ r ∈ rejs, wf r = true) (m : List (List Nat))
    (hm : Interleaving (sends st items) (rejectionSends st rejs) m) :
    ∃ lines, Interleaving (items.filterMap (ser st)) (rejs.map (enc st)) lines
      ∧ split LF m.flatten = (lines.map (fun l => encode (codes l)), [])
      ∧ (∀ l ∈ lines, OneLine l)
      ∧ (items.filterMap (ser st)).Sublist lines := by
  rw [sends_eq, rejectionSends_eq] at hm
  obtain ⟨lines, hl, rfl⟩ := interleaving_map_inv _ m _ _ hm
  have hnb : ∀ l ∈ lines, OneLine l := by
    intro l hlm
    rcases interleaving_mem hl l hlm with h1 | h1
    · exact c06_no_raw_break st items hg l h1
    · simp only [List.mem_map] at h1
      obtain ⟨r, hrm, rfl⟩ := h1
      exact c06_encoder_no_raw_break st r (hr r hrm)
  exact ⟨lines, hl, split_lines lines (fun l hlm => (hnb l hlm).1), hnb, interleaving_sublist_left hl⟩

/-- … in particular for every schedule of the executable two-writer model. -/
theorem c06_two_writers_every_schedule (st : Style) (items : List Outbound)
    (rejs : List Json) (hg : ∀ it ∈ items, Guarded it) (hr : ∀ r ∈ rejs, wf r = true) (sched : List Bool) :
    ∃ lines, Interleaving (items.filterMap (ser st)) (rejs.map (enc st)) lines
      ∧ split LF (childBytes2 st items rejs sched) = (lines.map (fun l => encode (codes l)), [])
      ∧ (items.filterMap (ser st)).Sublist lines := by
  obtain ⟨lines, h1, h2, _, h4⟩ := c06_two_writers_lines_intact st items rejs hg hr _
    (mergeAll_interleaving sched (sends st items) (rejectionSends st rejs))
  exact ⟨lines, h1, h2, h4⟩

/-- **Every line the child receives is one complete outbound message or one complete rejection
error** — never a fragment, never two glued together — and decodes accordingly. -/
theorem c06_each_line_message_or_rejection (st : Style) (items : List Outbound)
    (rejs : List Json) (hg : ∀ it ∈ items, Guarded it) (hr : ∀ r ∈ rejs, wf r = true) (m : List (List Nat))
    (hm : Interleaving (sends st items) (rejectionSends st rejs) m) :
    ∀ b ∈ (split LF m.flatten).1,
      (∃ l ∈ items.filterMap (ser st), b = encode (codes l))
      ∨ (∃ r ∈ rejs, b = encode (codes (enc st r)) ∧ decLine b = some r) := by
  obtain ⟨lines, hl, hs, _, _⟩ := c06_two_writers_lines_intact st items rejs hg hr m hm
  intro b hb
  rw [hs] at hb
  simp only [List.mem_map] at hb
  obtain ⟨l, hlm, rfl⟩ := hb
  rcases interleaving_mem hl l hlm with h1 | h1
  · exact Or.inl ⟨l, h1, rfl⟩
  · simp only [List.mem_map] at h1
    obtain ⟨r, hrm, rfl⟩ := h1
    exact Or.inr ⟨r, hrm, rfl, by rw [decLine_codes, Verif.Model.Json.dec_enc st r (hr r hrm)]⟩

/-- the number of lines is the number of accepted messages plus the number of rejections -/
theorem c06_two_writers_line_count (st : Style) (items : List Outbound)
    (rejs : List Json) (hg : ∀ it ∈ items, Guarded it) (hr : ∀ r ∈ rejs, wf r = true) (m : List (List Nat))
    (hm : Interleaving (sends st items) (rejectionSends st rejs) m) :
    (split LF m.flatten).1.length = (items.filterMap (ser st)).length + rejs.length := by
  obtain ⟨lines, hl, hs, _, _⟩ := c06_two_writers_lines_intact st items rejs hg hr m hm
  rw [hs]; simp [interleaving_length hl]

/-! Why "one `send()` per line" is what the theorem rests on: a writer that hands the line `[1,2]`
to the pipe in two sends can have the rejection `{}` land between them; the child then sees the
lines `[1,{}` and `2]`, neither a message nor a rejection.  (This is an interleaving of the
*slices*, not of whole-line sends, so it is outside the hypothesis above — and it is the behaviour
the correspondence run's slow-stdin cases look for.) -/
example : split LF ([[91, 49, 44], [123, 125, 10], [50, 93, 10]] : List (List Nat)).flatten
    = ([[91, 49, 44, 123, 125], [50, 93]], []) := by decide


/-! ## Several connections, and other users of the serialiser, in one process -/

/-- **Instances are independent.**  Outbound items of several live connections put on their write
streams in any alternation (equal ids, equal messages …): the child of connection `i` receives exactly
the sends of connection `i`'s own items, in order — one line each, whatever the others do (an
unserialisable object on one connection costs the others nothing). -/
theorem c06_instances_independent (st : Style) (items : List (Nat × Outbound)) :
    ∀ (pipes : Nat → List (List Nat)) (i : Nat),
      playTagged st pipes items i = pipes i ++ sendsTagged st items i := by
  induction items with
  | nil => intro pipes i; simp [playTagged, sendsTagged, sends]
  | cons p rest ih =>
    intro pipes i
    obtain ⟨j, it⟩ := p
    simp only [playTagged]
    rw [ih]
    by_cases hij : i = j
    · subst hij
      cases hs : ser st it <;> simp [sendsTagged, sends, List.filterMap_cons, hs]
    · have hji : ¬ j = i := fun e => hij e.symm
      simp [sendsTagged, sends, List.filterMap_cons, hij, hji]


/-- **Connections one after the other on one object.**  What the child of the second connection receives is the
sends of the second connection's own items - whatever the first connection sent and however it ended (its items are
simply not the second child's). -/
theorem c06_connections_one_after_another (st : Style) (first second : List Outbound) :
    sendsTagged st (first.map (fun x => (0, x)) ++ second.map (fun x => (1, x))) 1 = sends st second
    ∧ sendsTagged st (first.map (fun x => (0, x)) ++ second.map (fun x => (1, x))) 0 = sends st first := by
  have hn : ∀ l : List Outbound, List.filterMap (fun _ : Outbound => (none : Option Outbound)) l = [] := by
    intro l; induction l with
    | nil => rfl
    | cons x xs ih => simp [List.filterMap_cons, ih]
  constructor <;> simp [sendsTagged, List.filterMap_append, List.filterMap_map, Function.comp_def, hn]

/-- **What the process serialised before does not matter.**  Other calls of the serialiser between the
writer's messages — with `indent`, `sort_keys`, anything — leave the child's bytes exactly those of the
messages alone: the serialiser keeps nothing between calls.  (The correspondence run performs such
calls in the same process before and between writer scenarios.) -/
theorem c06_history_irrelevant (st : Style) (calls : List Call) :
    playCalls st calls = sends st (messagesOf calls) := by
  induction calls with
  | nil => rfl
  | cons c rest ih =>
    cases c with
    | dumps kw v => simpa [playCalls, messagesOf] using ih
    | message it =>
      simp only [playCalls, messagesOf, ih, sends, List.filterMap_cons]
      cases ser st it <;> simp

example : playTagged orjsonStyle (fun _ => [])
    [(0, .raw ['a']), (1, .unserialisable), (1, .raw ['b']), (0, .raw ['c'])] 0 = [[97, 10], [99, 10]]
    ∧ playCalls orjsonStyle [.dumps ⟨true, true⟩ (.obj []), .message (.raw ['a']), .dumps ⟨true, false⟩ .null, .message (.raw ['b'])]
        = [[97, 10], [98, 10]] := by decide

/-- **How long the child takes does not matter.**  Whatever time each write has to wait (a child that
stalls for longer than any timeout, with any amount outstanding), the child finds exactly the sends of
the items, once each, in order: no line is written twice, none is skipped. -/
theorem c06_stall_irrelevant (st : Style) (xs : List (Outbound × Nat)) :
    (playDelayed st xs).2 = sends st (xs.map (·.1)) := by
  induction xs with
  | nil => rfl
  | cons x rest ih =>
    obtain ⟨it, w⟩ := x
    simp only [playDelayed, List.map_cons, sends, List.filterMap_cons] at ih ⊢
    cases ser st it <;> simp [ih]

example : playDelayed orjsonStyle [(.raw ['a'], 5000), (.unserialisable, 7), (.raw ['b'], 0)] = (5000, [[97, 10], [98, 10]]) := by
  decide

/-! ## Non-vacuity: a dict whose string holds LF, CR, U+2028, NUL, a quote and U+1F600, a typed
request with `params` absent and one with a nested null, an unserialisable object, a pre-serialised
line -/

theorem natDigits_small (n : Nat) (h : n < 10) : natDigits n = [digitChar n] := by
  rw [natDigits]; simp [h]

def exItems : List Outbound :=
  [.value (.obj [(['m'], .str ['\n', '\r', '\u2028', '\x00', '"', '😀']), (['n'], .arr [.int 5, .null, .bool true])]),
   .typed (.request (.int 7) ['p', 'i', 'n', 'g'] none),
   .unserialisable,
   .typed (.notification ['n'] (some [(['a'], .null)])),
   .raw ['{', '}']]

example : ∀ it ∈ exItems, Guarded it := by
  intro it h
  simp only [exItems, List.mem_cons, List.mem_nil_iff, or_false] at h
  rcases h with rfl | rfl | rfl | rfl | rfl <;> simp [Guarded, OneLine, wf, wfKvs, wfList, wfMsg, wfObj]

example : exItems.filterMap (ser orjsonStyle)
    = List.map String.toList ["{\"m\":\"\\n\\r\u2028\\u0000\\\"😀\",\"n\":[5,null,true]}",
       "{\"jsonrpc\":\"2.0\",\"id\":7,\"method\":\"ping\"}",
       "{\"jsonrpc\":\"2.0\",\"method\":\"n\",\"params\":{\"a\":null}}", "{}"] := by
  simp [exItems, ser, List.filterMap, enc, encKvs, encList, encStr, escChar, u4, hexDigit, intTok, natDigits_small, digitChar, sep, emit,
    optParams, Id.toJson, kJsonrpc, kId, kMethod, kParams, v20, orjsonStyle]
  try decide

example : exItems.filterMap (ser stdStyle)
    = List.map String.toList ["{\"m\": \"\\n\\r\\u2028\\u0000\\\"\\ud83d\\ude00\", \"n\": [5, null, true]}",
       "{\"jsonrpc\": \"2.0\", \"id\": 7, \"method\": \"ping\"}",
       "{\"jsonrpc\": \"2.0\", \"method\": \"n\", \"params\": {\"a\": null}}", "{}"] := by
  simp [exItems, ser, List.filterMap, enc, encKvs, encList, encStr, escChar, u4, hexDigit, intTok, natDigits_small, digitChar, sep, emit,
    optParams, Id.toJson, kJsonrpc, kId, kMethod, kParams, v20, stdStyle]
  try decide

example : exItems.filterMap decoded
    = [some (.obj [(['m'], .str ['\n', '\r', '\u2028', '\x00', '"', '😀']), (['n'], .arr [.int 5, .null, .bool true])]),
       some (emit (.request (.int 7) ['p', 'i', 'n', 'g'] none)),
       some (emit (.notification ['n'] (some [(['a'], .null)]))), some (.obj [])] := by
  simp [exItems, decoded, List.filterMap]
  rfl

end Verif.Props.C06
