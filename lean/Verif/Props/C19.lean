import Verif.Lemmas.Session

/-! # C19 — server session bookkeeping behaves like a map from unique ids to records

Model: `Verif.Model.Session` (association list, clock and id supply as inputs, the two
`ProtocolHandler` entry points that touch the store).  Specification: the standard library's
finite map `Std.ExtHashMap` with its own `insert / erase / modify / filter / size / [·]?`
(`Verif.Model.Session.specStep`).  All statements are for histories of any length, any clock
values (no monotonicity is assumed) and any `max_age` (zero and negative included).

"Listing returns a copy" has no content in a value-semantics model (`step … .list` returns the
store and leaves it as it is; nothing done to the returned value can reach the store).  That
part of the property is decided by the correspondence run, which mutates the dict the real
`list_sessions()` returned and compares the store with the model afterwards. -/
set_option linter.unusedSectionVars false
namespace Verif.Props.C19
open Verif.Model.Session

section
variable {ι κ ν : Type} [DecidableEq ι] [Hashable ι]

/-- Refinement: for EVERY history the store is, as a finite map, what the map specification
computes, and every operation hands back what the specification hands back (lookups, found /
not-found flags, removal counts, listings, the new id and answered version of initialize). -/
theorem c19_refines_map (cfg : Cfg κ ν) (h : Hist ι κ ν) :
    abs (run cfg h).1 = (specRun cfg h).1
    ∧ (run cfg h).2.map (Out.map abs) = (specRun cfg h).2 := by
  have := runFrom_refines cfg ([] : Store ι κ ν) h (by simp [WF, keys])
  simpa [run, specRun, abs] using this

/-- Expiry is exact.  After any history, `cleanup_expired(a)` at clock value `now`
keeps a session iff it was there and NOT idle for longer than the limit, keeps its record
as it was, removes nothing else, and reports the number of sessions it removed. -/
theorem c19_cleanup_exact (cfg : Cfg κ ν) (h : Hist ι κ ν) (now a : Int) (i : ι) :
    (i ∈ keys (cleanup now a (run cfg h).1).1
        ↔ ∃ r, get (run cfg h).1 i = some r ∧ ¬ (now - r.last > a))
    ∧ get (cleanup now a (run cfg h).1).1 i
        = (get (run cfg h).1 i).filter (fun r => !decide (now - r.last > a))
    ∧ (cleanup now a (run cfg h).1).2
        = (run cfg h).1.length - (cleanup now a (run cfg h).1).1.length := by
  have hw := wf_run cfg h
  have hg : get (cleanup now a (run cfg h).1).1 i
      = (get (run cfg h).1 i).filter (fun r => !decide (now - r.last > a)) := by
    have := get_filter (run cfg h).1 (fun _ r => !expired now a r) i hw
    simpa [cleanup, expired] using this
  refine ⟨?_, hg, ?_⟩
  · rw [← get_isSome_iff_mem, hg]
    cases get (run cfg h).1 i with
    | none => simp
    | some r =>
      by_cases hx : now - r.last > a
      · simp [Option.filter, hx]
      · simp [Option.filter, hx]; omega
  · simp only [cleanup]
    exact length_filter_split (run cfg h).1 (fun p => expired now a p.2)

/-- The loop the code actually runs (collect the expired ids, then delete them one by one)
computes the same store and the same count as the filter used in the model. -/
theorem c19_cleanup_loop (cfg : Cfg κ ν) (h : Hist ι κ ν) (now a : Int) :
    cleanupLoop now a (run cfg h).1 = cleanup now a (run cfg h).1 :=
  cleanupLoop_eq now a _ (wf_run cfg h)

/-- Ids are unique.  Unconditionally: two live sessions never share an id, and every live id
was handed out by the id supply.  Under the explicit hypothesis that the supply never repeats
itself (`uuid4`, trusted): whenever an operation draws a new id, no live session has it — no
create or initialize ever replaces an existing session — and the store grows by exactly one. -/
theorem c19_ids_unique (cfg : Cfg κ ν) (h : Hist ι κ ν) :
    (keys (run cfg h).1).Nodup
    ∧ (∀ i ∈ keys (run cfg h).1, i ∈ supplied h)
    ∧ ((supplied h).Nodup → ∀ pre now op post id, h = pre ++ (now, op) :: post →
        op.newId = some id →
          get (run cfg pre).1 id = none
          ∧ keys (run cfg (pre ++ [(now, op)])).1 = keys (run cfg pre).1 ++ [id]) := by
  refine ⟨wf_run cfg h, ?_, ?_⟩
  · intro i hi
    rcases keys_runFrom_subset cfg [] h i hi with h1 | h1
    · simp [keys] at h1
    · exact h1
  · intro hf pre now op post id he hn
    have hnot : id ∉ keys (run cfg pre).1 := by
      intro hm
      rcases keys_runFrom_subset cfg [] pre id hm with h1 | h1
      · simp [keys] at h1
      · subst he
        rw [supplied_append] at hf
        have hd := (List.nodup_append.mp hf).2.2 id h1 id (by simp [supplied, hn])
        exact hd rfl
    refine ⟨(get_none_iff _ _).mpr hnot, ?_⟩
    unfold run at *
    rw [runFrom_append]
    cases op with
    | create i c v =>
      simp only [Op.newId, Option.some.injEq] at hn; subst hn
      simp only [runFrom, step]
      exact keys_put_fresh _ _ _ hnot
    | init sid i c rq =>
      simp only [Op.newId, Option.some.injEq] at hn; subst hn
      simp only [runFrom, step]
      rw [keys_put_fresh _ _ _ (by rw [keys_touchOpt]; exact hnot), keys_touchOpt]
    | get _ => simp [Op.newId] at hn
    | touch _ => simp [Op.newId] at hn
    | delete _ => simp [Op.newId] at hn
    | cleanup _ => simp [Op.newId] at hn
    | list => simp [Op.newId] at hn
    | clear => simp [Op.newId] at hn
    | count => simp [Op.newId] at hn
    | request _ => simp [Op.newId] at hn
    | message _ _ => simp [Op.newId] at hn
    | initSilent sid i c rq =>
      simp only [Op.newId, Option.some.injEq] at hn; subst hn
      simp only [runFrom, step]
      rw [keys_put_fresh _ _ _ (by rw [keys_touchOpt]; exact hnot), keys_touchOpt]

/-- Every initialize creates exactly one session: on any store in which the drawn id is not
live, the live ids afterwards are the old ones plus the new id; the new record holds the client's
info (`{}` when the params carry none), the version written into the RESPONSE (`cfg.answer rq`,
whatever the server's answer policy is) and the current clock value; the response names the
new id; every other session keeps its client info, version and creation time. -/
theorem c19_initialize_creates_one (cfg : Cfg κ ν) (s : Store ι κ ν) (now : Int)
    (sid : Option ι) (id : ι) (c : Option κ) (rq : Option ν) (hfresh : id ∉ keys s) :
    (step cfg s now (.init sid id c rq)).2 = .inited id (cfg.answer rq)
    ∧ keys (step cfg s now (.init sid id c rq)).1 = keys s ++ [id]
    ∧ get (step cfg s now (.init sid id c rq)).1 id
        = some ⟨c.getD cfg.noClient, cfg.answer rq, now, now⟩
    ∧ ∀ j, j ≠ id → get (step cfg s now (.init sid id c rq)).1 j
        = if sid = some j then (get s j).map (fun r => { r with last := now }) else get s j := by
  refine ⟨rfl, ?_, ?_, ?_⟩
  · simp only [step]
    rw [keys_put_fresh _ _ _ (by rw [keys_touchOpt]; exact hfresh), keys_touchOpt]
  · simp [step, get_put]
  · intro j hj
    have hj' : ¬ id = j := fun e => hj e.symm
    simp only [step, get_put, hj', if_false]
    cases sid with
    | none => simp [touchOpt]
    | some k =>
      simp only [touchOpt, touch]
      cases hg : get s k with
      | none =>
        by_cases hk : k = j
        · subst hk; simp [hg]
        · simp [hk]
      | some r =>
        by_cases hk : k = j
        · subst hk; simp [get_put, hg]
        · simp [get_put, hk]

/-- Activity is updated on dispatch: handling a message that carries a session id sets that
session's last-activity to the current clock value (if the session exists) and changes nothing
else; without a session id nothing changes. -/
theorem c19_activity_on_dispatch (cfg : Cfg κ ν) (s : Store ι κ ν) (now : Int) (sid : Option ι) :
    keys (step cfg s now (.request sid)).1 = keys s
    ∧ ∀ j, get (step cfg s now (.request sid)).1 j
        = if sid = some j then (get s j).map (fun r => { r with last := now }) else get s j := by
  refine ⟨by simp [step, keys_touchOpt], ?_⟩
  intro j
  cases sid with
  | none => simp [step, touchOpt]
  | some k =>
    simp only [step, touchOpt, touch]
    cases hg : get s k with
    | none =>
      by_cases hk : k = j
      · subst hk; simp [hg]
      · simp [hk]
    | some r =>
      by_cases hk : k = j
      · subst hk; simp [get_put, hg]
      · simp [get_put, hk]

/-- ProtocolHandler ↔ session manager, for EVERY kind of message (request or notification alike):
a message without a method never touches the store; every other message refreshes the activity of
the carried session id BEFORE the handler is looked up or called — so the store afterwards is the
same whether the method is unknown, the handler returns, raises or returns nonsense — and changes
nothing else; no session is created or removed. -/
theorem c19_activity_on_every_message_kind (cfg : Cfg κ ν) (s : Store ι κ ν) (now : Int)
    (sid : Option ι) (k : MsgKind) :
    (k = .noMethod → (step cfg s now (.message sid k)).1 = s)
    ∧ (k ≠ .noMethod → (step cfg s now (.message sid k)).1 = touchOpt s sid now
        ∧ (step cfg s now (.message sid k)).1 = (step cfg s now (.request sid)).1)
    ∧ keys (step cfg s now (.message sid k)).1 = keys s
    ∧ (step cfg s now (.message sid k)).2 = .unit := by
  cases k <;> simp [step, keys_touchOpt]

/-- An initialize WITHOUT an id (a notification by shape) still creates its session — the
handler runs, the response cannot be built for a null id, the dispatcher swallows that — so the
store afterwards is exactly the store after the same initialize sent as a request, but nothing
is handed back: the session exists and nobody was told its id. -/
theorem c19_initialize_without_id_leaves_a_session (cfg : Cfg κ ν) (s : Store ι κ ν) (now : Int)
    (sid : Option ι) (id : ι) (c : Option κ) (rq : Option ν) :
    (step cfg s now (.initSilent sid id c rq)).1 = (step cfg s now (.init sid id c rq)).1
    ∧ (step cfg s now (.initSilent sid id c rq)).2 = .unit
    ∧ get (step cfg s now (.initSilent sid id c rq)).1 id
        = some ⟨c.getD cfg.noClient, cfg.answer rq, now, now⟩ := by
  simp [step, get_put]

/-- What the freshness assumption buys: when the id supply REPEATS a live id (a subclass may
override `generate_session_id`), create replaces that session's record — same ids, same count,
the old record is gone — exactly as `dict[id] = session` does. -/
theorem c19_repeated_id_overwrites (cfg : Cfg κ ν) (s : Store ι κ ν) (now : Int)
    (id : ι) (c : κ) (v : ν) (hlive : id ∈ keys s) :
    keys (step cfg s now (.create id c v)).1 = keys s
    ∧ get (step cfg s now (.create id c v)).1 id = some ⟨c, v, now, now⟩
    ∧ ∀ j, j ≠ id → get (step cfg s now (.create id c v)).1 j = get s j := by
  refine ⟨by simp [step, keys_put, hlive], by simp [step, get_put], ?_⟩
  intro j hj
  have : ¬ id = j := fun e => hj e.symm
  simp [step, get_put, this]

/-- Two session managers alive in one process (two `ProtocolHandler`s) are independent: however
their operations are interleaved, each store and each list of outputs is what that manager
produces on its own operations alone — nothing one of them does is visible in the other. -/
theorem c19_managers_independent (cfg : Cfg κ ν) (p : Store ι κ ν × Store ι κ ν)
    (xs : List (Bool × Int × Op ι κ ν)) :
    (runPairFrom cfg p xs).1.1 = (runFrom cfg p.1 ((xs.filter (·.1)).map (·.2))).1
    ∧ (runPairFrom cfg p xs).1.2 = (runFrom cfg p.2 ((xs.filter (fun y => !y.1)).map (·.2))).1
    ∧ ((runPairFrom cfg p xs).2.filter (·.1)).map (·.2) = (runFrom cfg p.1 ((xs.filter (·.1)).map (·.2))).2
    ∧ ((runPairFrom cfg p xs).2.filter (fun y => !y.1)).map (·.2)
        = (runFrom cfg p.2 ((xs.filter (fun y => !y.1)).map (·.2))).2 :=
  runPairFrom_proj cfg p xs

/-- Nothing removes a session behind the caller's back, whatever the clock says: only
`delete_session`, `cleanup_expired` and `clear_all_sessions` can make a live id disappear — every other
operation (create, lookups, activity updates, listings, every dispatched message and initialize),
at ANY clock value, hours or years after the previous one or before it, keeps every live session;
and a session whose activity was just updated is there, stamped with the current clock value. -/
theorem c19_no_silent_removal (cfg : Cfg κ ν) (s : Store ι κ ν) (now : Int) (op : Op ι κ ν)
    (hop : (∀ i, op ≠ .delete i) ∧ (∀ a, op ≠ .cleanup a) ∧ op ≠ .clear) :
    (∀ j ∈ keys s, j ∈ keys (step cfg s now op).1)
    ∧ ∀ i, (touch s i now).2 = true →
        ∃ r, get (touch s i now).1 i = some r ∧ r.last = now ∧ keys (touch s i now).1 = keys s := by
  obtain ⟨hd, hc, hk⟩ := hop
  constructor
  · intro j hj
    cases op with
    | create id c v => simp only [step, keys_put]; split <;> simp_all
    | get id => exact hj
    | touch id => simp only [step, keys_touch]; exact hj
    | delete id => exact absurd rfl (hd id)
    | cleanup a => exact absurd rfl (hc a)
    | list => exact hj
    | clear => exact absurd rfl hk
    | count => exact hj
    | init sid id c rq => simp only [step, keys_put, keys_touchOpt]; split <;> simp_all
    | request sid => simp only [step, keys_touchOpt]; exact hj
    | initSilent sid id c rq => simp only [step, keys_put, keys_touchOpt]; split <;> simp_all
    | message sid k => cases k <;> simp only [step, keys_touchOpt] <;> exact hj
  · intro i hi
    unfold touch at hi ⊢
    cases hg : get s i with
    | none => simp [hg] at hi
    | some r =>
      refine ⟨{ r with last := now }, by simp [get_put], rfl, ?_⟩
      have : i ∈ keys s := by rw [← get_isSome_iff_mem, hg]; rfl
      simp [keys_put, this]

/-- The class an incoming message arrives as does not matter for the session: the unified
`JSONRPCMessage`, the typed classes and what `parse_message` returns are treated alike — in particular a
typed NOTIFICATION carrying a live session id refreshes that session's activity exactly as the
unified one does, so it cannot be expired while its client is talking. -/
theorem c19_envelope_class_irrelevant (cfg : Cfg κ ν) (s : Store ι κ ν) (now : Int)
    (e e' : Envelope) (sid : Option ι) (k : MsgKind) :
    dispatchStep cfg s now e sid k = dispatchStep cfg s now e' sid k
    ∧ (k ≠ .noMethod → (dispatchStep cfg s now e sid k).1 = touchOpt s sid now) := by
  refine ⟨by cases e <;> cases e' <;> rfl, ?_⟩
  intro hk
  cases e <;> cases k <;> simp_all [dispatchStep, step]

end

/-! ## Non-vacuity: concrete histories (ids `Nat`, client info and versions `String`) -/

def cfgEx : Cfg String String := { answer := fun r => r.getD "2025-03-26", noClient := "{}" }

/-- create, idle exactly `max_age` (stays), one more tick (expires); the other session was touched
through a dispatched request and stays -/
def histEx : Hist Nat String String :=
  [(0, .create 7 "a" "2025-06-18"), (0, .init none 9 (some "b") none), (5, .request (some 9)),
   (10, .cleanup 10), (10, .count), (11, .cleanup 10), (11, .list)]

example : (supplied histEx).Nodup := by decide

example : keys (run cfgEx histEx).1 = [9]
    ∧ (get (run cfgEx histEx).1 9).map (fun r => (r.client, r.version, r.created, r.last))
        = some ("b", "2025-03-26", 0, 5) := by decide

example : ((run cfgEx histEx).2.map (fun o => match o with
    | .count n => some n | _ => none)) = [none, none, none, some 0, some 2, some 1, none] := by
  decide

/-- the instance of the refinement theorem for that history -/
example : abs (run cfgEx histEx).1 = (specRun cfgEx histEx).1 := (c19_refines_map cfgEx histEx).1

/-- the boundary: idle for exactly `max_age` is NOT expired, one tick more is -/
example : (7 ∈ keys (cleanup 10 10 (run cfgEx (histEx.take 3)).1).1)
    ∧ ¬ (7 ∈ keys (cleanup 11 10 (run cfgEx (histEx.take 3)).1).1) := by decide

/-- every message kind with a session id: only the method-less one leaves the stamp alone; an
id-less initialize leaves a session behind; a repeated id replaces the record -/
example :
    ((run cfgEx [(0, .create 7 "a" "v"), (3, .message (some 7) .noMethod)]).1.map (fun p => p.2.last)) = [0]
    ∧ ((run cfgEx [(0, .create 7 "a" "v"), (3, .message (some 7) .unknownMethod)]).1.map (fun p => p.2.last)) = [3]
    ∧ ((run cfgEx [(0, .create 7 "a" "v"), (3, .message (some 7) .handlerRaised)]).1.map (fun p => p.2.last)) = [3]
    ∧ keys (run cfgEx [(0, .create 7 "a" "v"), (3, .initSilent (some 7) 8 none none)]).1 = [7, 8]
    ∧ ((run cfgEx [(0, .create 7 "a" "v"), (3, .create 7 "b" "w")]).1.map (fun p => (p.1, p.2.client, p.2.created)))
        = [(7, "b", 3)] := by decide

/-- idle for a year, then one more message with the session id: the session is still there, freshly stamped -/
example : (run cfgEx [(0, .create 7 "a" "v"), (31536000, .message (some 7) .handlerReturned)]).1.map
    (fun p => (p.1, p.2.last)) = [(7, 31536000)] := by decide

/-- two managers, interleaved creates with the SAME id: each keeps its own session -/
example : (runPairFrom cfgEx (([] : Store Nat String String), []) [(true, 0, .create 7 "a" "v"), (false, 1, .create 7 "b" "w"),
      (true, 2, .delete 7)]).1.2.map (fun q => (q.1, q.2.client))
      = [(7, "b")]
    ∧ keys (runPairFrom cfgEx (([] : Store Nat String String), []) [(true, 0, .create 7 "a" "v"),
        (false, 1, .create 7 "b" "w"), (true, 2, .delete 7)]).1.1 = [] := by decide

/-- the freshness hypothesis of `c19_initialize_creates_one` is satisfiable and the conclusion
is about a non-empty store -/
example : (5 : Nat) ∉ keys (run cfgEx (histEx.take 3)).1
    ∧ keys (step cfgEx (run cfgEx (histEx.take 3)).1 3 (.init (some 7) 5 none (some "2024-11-05"))).1
        = [7, 9, 5] := by decide

theorem filter_sublist_of_imp {α : Type} (p q : α → Bool) (l : List α) (h : ∀ x, p x = true → q x = true) :
    (l.filter p).Sublist (l.filter q) := by
  induction l with
  | nil => simp
  | cons x l ih =>
    simp only [List.filter_cons]
    cases hp : p x
    · cases hq : q x
      · simpa using ih
      · simpa using ih.cons x
    · simp only [h x hp, if_true]
      exact ih.cons₂ x

/-- **A sweep is idempotent, monotone in the limit and in the clock.**  For every store (reachable
or not), every clock value and every limit: a second `cleanup_expired` at the same clock value
with the same limit removes nothing; a more generous limit keeps every session a stricter one
keeps; and a session removed at clock value `now` would also have been removed at any later
clock value had nothing touched it (expiry never "un-expires"). -/
theorem c19_cleanup_idempotent_monotone {ι κ ν : Type} (s : Store ι κ ν) (now now' a a' : Int) :
    cleanup now a (cleanup now a s).1 = ((cleanup now a s).1, 0)
    ∧ (a ≤ a' → (cleanup now a s).1.Sublist (cleanup now a' s).1)
    ∧ (now ≤ now' → (cleanup now' a s).1.Sublist (cleanup now a s).1) := by
  refine ⟨?_, ?_, ?_⟩
  · simp only [cleanup, List.filter_filter, Bool.and_self, Prod.mk.injEq, true_and]
    rw [List.length_eq_zero_iff, List.filter_eq_nil_iff]
    intro p hp
    cases h : expired now a p.2 <;> simp [h]
  · intro h
    simp only [cleanup]
    apply filter_sublist_of_imp
    intro p hp
    simp only [expired, Bool.not_eq_true', decide_eq_false_iff_not] at hp ⊢
    omega
  · intro h
    simp only [cleanup]
    apply filter_sublist_of_imp
    intro p hp
    simp only [expired, Bool.not_eq_true', decide_eq_false_iff_not] at hp ⊢
    omega

/-- non-vacuity: a sweep that removes something, repeated; a stricter and a more generous limit -/
example : (cleanup 11 10 (run cfgEx (histEx.take 3)).1).2 ≠ 0
    ∧ (cleanup 11 10 (cleanup 11 10 (run cfgEx (histEx.take 3)).1).1).2 = 0 := by decide

end Verif.Props.C19
