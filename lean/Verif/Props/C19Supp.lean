import Verif.Props.C19
import Verif.Lemmas.SessionId

/-! # C19 — supplementary obligations (not stated by the property text)

Built and audited on every run like `Props/C19.lean`; a failure here is reported as INFO and in
the evidence, never as a verdict about C19 (DESIGN 9.9).  `generate_session_id` is regenerated
from `server/session/base.py` into `Gen/SessionId.lean`; the property text says "session ids are
unique" and trusts uuid4 — the shape of the id text is next to it, not in it. -/
namespace Verif.Props.C19

/-! ## The text of a session id (`generate_session_id`, regenerated from `server/session/base.py`) -/
section
open Verif.Gen.SessionId Verif.Model.SessionId

/-- The translator covered `generate_session_id`. -/
theorem c19_session_id_translated : translatable = true := by decide

/-- For every canonical uuid text (8-4-4-4-12 lower-case hex digits joined by `-`) the session id
is the 32 hex digits without the dashes: 32 characters, all hexadecimal, no `-`. -/
theorem c19_session_id_format (p : Parts) (h : p.Canonical) :
    sessionIdOfUuid p.text = p.hex
    ∧ (sessionIdOfUuid p.text).length = 32
    ∧ (∀ x ∈ sessionIdOfUuid p.text, isHex x = true)
    ∧ '-' ∉ sessionIdOfUuid p.text := by
  have ht := sessionId_text rfl p h
  obtain ⟨pa, pb, pc, pd, pe, hx⟩ := h
  refine ⟨ht, ?_, ?_, ?_⟩
  · rw [ht]; simp [Parts.hex, pa, pb, pc, pd, pe]
  · rw [ht]; exact hx
  · rw [ht]
    intro hm
    have := hx _ hm
    revert this; decide

/-- Ids are as unique as the uuids: two canonical uuid texts with the same session id are the
same text.  (The freshness of `uuid4` itself is the trusted hypothesis of `c19_ids_unique`.) -/
theorem c19_session_id_injective (p q : Parts) (hp : p.Canonical) (hq : q.Canonical)
    (h : sessionIdOfUuid p.text = sessionIdOfUuid q.text) : p.text = q.text := by
  rw [sessionId_text rfl p hp, sessionId_text rfl q hq] at h
  exact text_injective p q hp hq h

def uuidEx : Parts :=
  { a := "123e4567".toList, b := "e89b".toList, c := "42d3".toList, d := "a456".toList, e := "426614174000".toList }

example : uuidEx.Canonical := by
  refine ⟨rfl, rfl, rfl, rfl, rfl, ?_⟩
  decide

example : sessionIdOfUuid "123e4567-e89b-42d3-a456-426614174000".toList
    = "123e4567e89b42d3a456426614174000".toList := by decide
end

end Verif.Props.C19
