import Verif.Lemmas.Await
import Verif.Lemmas.ClientApi
import Verif.Lemmas.AwaitSlow

/-! # C01 — a request completes only with the response that bears its own id

Model: `Verif.Model.Await.run` (timed model of `send_message` / `_await_response`), for an
arbitrary classifier `R`, an arbitrary positive poll period, both tie orders and histories of
any length.  `isMatch cfg m` = "`m` is a response or error response (no method) whose id equals
the id sent, JSON type included". -/
namespace Verif.Props.C01
open Verif.Model.Await Verif.Model.ClientApi Verif.Lemmas.ClientApi
variable {α : Type}

/-- (a)+(b) A normal return is the payload of the FIRST message of the history that is a
response bearing the sent id; nothing before it in the history is such a message.  In
particular server requests reusing the id, notifications, progress, batches and other ids are
never the source of the result. -/
theorem c01_result_sound (R : Int → Bool) (cfg : Cfg α) (ev : List (Nat × In α)) (p : α)
    (h : (run R cfg ev).outcome = .returned p) :
    ∃ pre a post, ev = pre ++ (a, In.resp cfg.reqId p) :: post ∧ NoMatch cfg pre := by
  unfold run at h
  split at h
  · simp at h
  · exact loop_returned_sound R cfg 0 ev _ _ _ p h

/-- (b) stated on its own: a history without a matching response never makes the call return
or raise a server error — whatever else it contains. -/
theorem c01_never_foreign (R : Int → Bool) (cfg : Cfg α) (ev : List (Nat × In α))
    (hno : NoMatch cfg ev) :
    (run R cfg ev).outcome = .timedOut ∨ (run R cfg ev).outcome = .cancelled := by
  cases hout : (run R cfg ev).outcome with
  | timedOut => simp
  | cancelled => simp
  | returned p =>
    exfalso
    obtain ⟨pre, a, post, he, _⟩ := c01_result_sound R cfg ev p hout
    have := hno (a, In.resp cfg.reqId p) (by rw [he]; simp)
    simp [isMatch] at this
  | raised r c s =>
    exfalso
    unfold run at hout
    split at hout
    · simp at hout
    · obtain ⟨pre, a, post, code, he, _⟩ := loop_raised_sound R cfg 0 ev _ _ _ r c s hout
      have := hno (a, In.err cfg.reqId code s) (by rw [he]; simp)
      simp [isMatch] at this

/-- the messages that are NOT responses to this request, by kind (non-vacuity of `NoMatch`) -/
theorem c01_foreign_kinds (cfg : Cfg α) (other : Id) (ho : other ≠ cfg.reqId) (p : α) (s : String) :
    isMatch cfg (In.req cfg.reqId s) = false ∧ isMatch cfg (In.notif s) = false
    ∧ isMatch cfg (In.batch) = false ∧ isMatch cfg (In.resp other p) = false
    ∧ isMatch cfg (In.progress (some cfg.reqId) none none none) = false := by
  simp [isMatch, ho]

/-- (d) no matching response and no cancellation ⇒ `TimeoutError`, exactly at the deadline,
with exactly the one request written. -/
theorem c01_timeout_complete (R : Int → Bool) (cfg : Cfg α) (ev : List (Nat × In α))
    (hpre : cfg.preCancelled = false) (hc : cfg.cancelAt = none) (hno : NoMatch cfg ev) :
    (run R cfg ev).outcome = .timedOut ∧ (run R cfg ev).time = cfg.D
      ∧ (run R cfg ev).writes = [Write.request] := by
  have h1 := c01_never_foreign R cfg ev hno
  have hrun : run R cfg ev = loop R cfg 0 ev [.request] [] 0 := by simp [run, hpre]
  have hnc : (run R cfg ev).outcome ≠ .cancelled := by
    intro h
    rw [hrun] at h
    obtain ⟨c, h2, _⟩ := loop_cancelled_sound R cfg 0 ev _ _ _ h
    simp [hc] at h2
  have hto : (run R cfg ev).outcome = .timedOut := by
    rcases h1 with h | h
    · exact h
    · exact absurd h hnc
  refine ⟨hto, ?_, ?_⟩
  · rw [hrun] at hto ⊢; exact loop_timedOut_time R cfg 0 ev _ _ _ hto
  · rw [hrun] at hto ⊢
    rw [loop_writes, hto]; simp [Outcome.isCancelled]

/-- (a) completeness: without cancellation, if the first matching message of a (time-ordered)
history is a response arriving strictly before the deadline, the call returns exactly its
payload, at its arrival tick. (An arrival exactly at the deadline may go either way: that is
the tie order.) -/
theorem c01_complete (R : Int → Bool) (cfg : Cfg α) (pre post : List (Nat × In α)) (a : Nat) (p : α)
    (hpre : cfg.preCancelled = false) (hc : cfg.cancelAt = none)
    (hno : NoMatch cfg pre) (hs : Sorted (pre ++ [(a, In.resp cfg.reqId p)])) (ha : a < cfg.D) :
    (run R cfg (pre ++ (a, In.resp cfg.reqId p) :: post)).outcome = .returned p
      ∧ (run R cfg (pre ++ (a, In.resp cfg.reqId p) :: post)).time = a := by
  have hrun : ∀ ev, run R cfg ev = loop R cfg 0 ev [.request] [] 0 := by intro ev; simp [run, hpre]
  rw [hrun, loop_complete R cfg hc 0 _ _ _ _ pre a _ post rfl hno (by simp [isMatch]) hs
    (by intro x _; exact Nat.zero_le _) ha]
  simp [final, classify]

/-- (c) exactly one request is written, first; the only other write there can ever be is one
cancelled notification (whatever the state of the write stream).  A call cancelled before sending
writes no request at all. -/
theorem c01_single_request_written (R : Int → Bool) (cfg : Cfg α) (ev : List (Nat × In α)) :
    (cfg.preCancelled = false →
      (run R cfg ev).writes = [Write.request] ∨ (run R cfg ev).writes = [Write.request, Write.cancelNotif])
    ∧ (cfg.preCancelled = true → (run R cfg ev).writes = [Write.cancelNotif]) := by
  constructor
  · intro hpre
    have hrun : run R cfg ev = loop R cfg 0 ev [.request] [] 0 := by simp [run, hpre]
    rw [hrun, loop_writes]
    cases (loop R cfg 0 ev [Write.request] [] 0).outcome <;> simp [Outcome.isCancelled]
    exact Decidable.em _
  · intro hpre; simp [run, hpre]

/-- id equality is JSON-type sensitive: the integer 7 is not the string "7" -/
theorem c01_id_type_sensitive (cfg : Cfg α) (p : α) (h : cfg.reqId = .str "7") :
    isMatch cfg (In.resp (.int 7) p) = false := by
  simp [isMatch, h]

/-- Requests issued one after the other (or side by side on separate connections) do not see each
other: without a shared cancellation token each observation of a sequence is the observation of
that request alone on its own history — whatever ids, payloads or leftovers its siblings had.  (The
model says so by construction; the `siblings` correspondence suite is what checks it of the code:
consecutive calls in one process with equal / twin ids and strays bearing the siblings' ids.) -/
theorem c01_siblings_independent (R : Int → Bool) (s0 : Nat)
    (reqs : List (Cfg α × Nat × List (Nat × In α))) :
    (runSeq R none s0 reqs).map (·.2) = reqs.map (fun r => run R (withToken r.1 none 0) r.2.2) := by
  induction reqs generalizing s0 with
  | nil => simp [runSeq]
  | cons r rest ih =>
    obtain ⟨cfg, gap, ev⟩ := r
    simp only [runSeq, List.map_cons, ih]
    simp [withToken]

/-! ## One connection, consecutive requests; the high-level client (`MCPClient`)

`connSeq` / `clientSeq` (`Model/ClientApi.lean`): the requests share ONE read stream; what an earlier
request did not consume (late answers to a request that timed out, duplicates, strays) is still in the
stream when the next request starts. -/

/-- On one connection every request that returns normally returns the payload of the first response
bearing ITS OWN id among the messages no earlier request consumed — leftovers of earlier requests
(whatever ids they bear) included in the search, never returned unless they bear this id. -/
theorem c01_connection_result_sound (R : Int → Bool) (start used : Nat) (ev : List (Nat × In α))
    (reqs : List (Cfg α × Nat)) :
    ∀ x ∈ (connSeq R start used ev reqs).zip reqs, ∀ p, x.1.2.2.outcome = .returned p →
      used ≤ x.1.2.1 ∧ ∃ pre a post, ev.drop x.1.2.1 = pre ++ (a, In.resp x.2.1.reqId p) :: post
        ∧ NoMatch x.2.1 pre := by
  induction reqs generalizing start used with
  | nil => simp [connSeq]
  | cons r rest ih =>
    obtain ⟨cfg, gap⟩ := r
    intro x hx p hp
    simp only [connSeq, List.zip_cons_cons, List.mem_cons] at hx
    rcases hx with rfl | hx
    · simp only at hp ⊢
      obtain ⟨pre, a, post, he, hn⟩ := run_returned_sound R cfg _ p hp
      obtain ⟨pre', a', post', he', hn', _⟩ := shift_decomp _ _ _ _ _ _ cfg he hn
      exact ⟨Nat.le_refl _, pre', a', post', he', hn'⟩
    · obtain ⟨h1, h2⟩ := ih _ _ x hx p hp
      exact ⟨by omega, h2⟩

/-- a message is consumed by at most one request of the connection: the requests read disjoint,
consecutive segments of the stream -/
theorem c01_connection_segments (R : Int → Bool) (start used : Nat) (ev : List (Nat × In α))
    (reqs : List (Cfg α × Nat)) :
    List.Pairwise (fun x y => x.2.1 + x.2.2.consumed ≤ y.2.1) (connSeq R start used ev reqs)
      ∧ ∀ x ∈ connSeq R start used ev reqs, used ≤ x.2.1 := by
  induction reqs generalizing start used with
  | nil => simp [connSeq]
  | cons r rest ih =>
    obtain ⟨cfg, gap⟩ := r
    obtain ⟨h1, h2⟩ := ih (start + (run R cfg (shift start (ev.drop used))).time + gap)
      (used + (run R cfg (shift start (ev.drop used))).consumed)
    simp only [connSeq, List.pairwise_cons, List.mem_cons]
    refine ⟨⟨fun y hy => by simpa using h2 y hy, h1⟩, ?_⟩
    rintro x (rfl | hx)
    · simp
    · have := h2 x hx; omega

/-- `MCPClient`: a call that returns normally returns the payload of the first response bearing the
id of ITS OWN request among the messages nothing earlier on the connection consumed — in
particular never the (possibly duplicated or late) answer to the `initialize` request the call
itself issued, nor anything addressed to an earlier call. -/
theorem c01_client_result_sound (R : Int → Bool) (okInit : α → Bool) (b : Bool) (start used : Nat)
    (ev : List (Nat × In α)) (calls : List (Call α)) :
    ∀ x ∈ (clientSeq R okInit b start used ev calls).zip calls, ∀ s u o p,
      x.1.req = some (s, u, o) → o.outcome = .returned p →
      used ≤ u ∧ ∃ pre a post, ev.drop u = pre ++ (a, In.resp x.2.req.reqId p) :: post
        ∧ NoMatch x.2.req pre := by
  induction calls generalizing b start used with
  | nil => simp [clientSeq]
  | cons c rest ih =>
    intro x hx s u o p hreq hp
    cases b with
    | true =>
      simp only [clientSeq, List.zip_cons_cons, List.mem_cons] at hx
      rcases hx with rfl | hx
      · simp only [Option.some.injEq, Prod.mk.injEq] at hreq
        obtain ⟨rfl, rfl, rfl⟩ := hreq
        obtain ⟨pre, a, post, he, hn⟩ := run_returned_sound R c.req _ p hp
        obtain ⟨pre', a', post', he', hn', _⟩ := shift_decomp _ _ _ _ _ _ c.req he hn
        exact ⟨Nat.le_refl _, pre', a', post', he', hn'⟩
      · obtain ⟨h1, h2⟩ := ih _ _ _ x hx s u o p hreq hp
        exact ⟨by omega, h2⟩
    | false =>
      simp only [clientSeq] at hx
      split at hx
      · simp only [List.zip_cons_cons, List.mem_cons] at hx
        rcases hx with rfl | hx
        · simp only [Option.some.injEq, Prod.mk.injEq] at hreq
          obtain ⟨rfl, rfl, rfl⟩ := hreq
          obtain ⟨pre, a, post, he, hn⟩ := run_returned_sound R c.req _ p hp
          obtain ⟨pre', a', post', he', hn', _⟩ := shift_decomp _ _ _ _ _ _ c.req he hn
          exact ⟨by omega, pre', a', post', he', hn'⟩
        · obtain ⟨h1, h2⟩ := ih _ _ _ x hx s u o p hreq hp
          exact ⟨by omega, h2⟩
      · simp only [List.zip_cons_cons, List.mem_cons] at hx
        rcases hx with rfl | hx
        · simp at hreq
        · obtain ⟨h1, h2⟩ := ih _ _ _ x hx s u o p hreq hp
          exact ⟨by omega, h2⟩

/-- once initialized, always initialized: an initialized client never issues `initialize` again and
every call issues exactly its own request -/
theorem c01_client_initialized_stays (R : Int → Bool) (okInit : α → Bool) (start used : Nat)
    (ev : List (Nat × In α)) (calls : List (Call α)) :
    ∀ x ∈ clientSeq R okInit true start used ev calls, x.init = none ∧ x.req.isSome = true := by
  induction calls generalizing start used with
  | nil => simp [clientSeq]
  | cons c rest ih =>
    intro x hx
    simp only [clientSeq, List.mem_cons] at hx
    rcases hx with rfl | hx
    · simp
    · exact ih _ _ x hx

/-- a call's own request is written exactly when the client was initialized before the call or the
`initialize` request issued by the call ended with an accepted result; a call whose `initialize`
failed writes nothing else -/
theorem c01_client_request_iff_initialized (R : Int → Bool) (okInit : α → Bool) (b : Bool)
    (start used : Nat) (ev : List (Nat × In α)) (calls : List (Call α)) :
    ∀ x ∈ clientSeq R okInit b start used ev calls,
      x.req.isSome = (match x.init with | none => true | some oi => initOk okInit oi) := by
  induction calls generalizing b start used with
  | nil => simp [clientSeq]
  | cons c rest ih =>
    intro x hx
    cases b with
    | true =>
      simp only [clientSeq, List.mem_cons] at hx
      rcases hx with rfl | hx
      · simp
      · exact ih _ _ _ x hx
    | false =>
      simp only [clientSeq] at hx
      split at hx
      · rename_i hok
        simp only [List.mem_cons] at hx
        rcases hx with rfl | hx
        · simp [hok]
        · exact ih _ _ _ x hx
      · rename_i hok
        simp only [List.mem_cons] at hx
        rcases hx with rfl | hx
        · simp [hok]
        · exact ih _ _ _ x hx

/-- an uninitialized client issues `initialize` first, on every call, until one succeeds -/
theorem c01_client_uninitialized_initializes (R : Int → Bool) (okInit : α → Bool)
    (start used : Nat) (ev : List (Nat × In α)) (c : Call α) (rest : List (Call α)) :
    ((clientSeq R okInit false start used ev (c :: rest)).head?.bind (·.init)).isSome = true := by
  simp only [clientSeq]
  split <;> simp

/-! ## Progress callbacks that take time -/
open Verif.Model.AwaitSlow in
/-- However long the caller's progress callbacks take, a normal return is still the payload of the
first response bearing the sent id. -/
theorem c01_result_sound_slow_callbacks (R : Int → Bool) (cfg : Cfg α) (dur : Nat → Nat)
    (ev : List (Nat × In α)) (p : α) (h : (runD R cfg dur ev).outcome = .returned p) :
    ∃ pre a post, ev = pre ++ (a, In.resp cfg.reqId p) :: post ∧ NoMatch cfg pre := by
  unfold runD at h
  split at h
  · simp at h
  · exact loopD_returned_sound R cfg dur 0 ev _ _ _ p h

/-! Non-vacuity: a concrete history meeting the hypotheses of `c01_complete` (a same-id server
request and a foreign response precede the answer) and one meeting `c01_timeout_complete`. -/
def exCfg : Cfg Nat :=
  { reqId := .str "r1", D := 2048, P := 500, hP := by decide, preCancelled := false,
    cancelAt := none, token := none, zero := 0, eventsFirst := true, cbRaises := fun _ => false }

example : (run (fun _ => true) exCfg
    [(3, .req (.str "r1") "sampling/createMessage"), (600, .resp (.str "other") 5),
     (700, .resp (.str "r1") 42), (800, .resp (.str "r1") 43)]).outcome = .returned 42 := by
  have := (c01_complete (fun _ => true) exCfg
    [(3, .req (.str "r1") "sampling/createMessage"), (600, .resp (.str "other") 5)]
    [(800, .resp (.str "r1") 43)] 700 42 rfl rfl
    (by intro x hx; simp at hx; rcases hx with rfl | rfl <;> simp [isMatch, exCfg])
    (by simp [Sorted]) (by decide)).1
  simpa [exCfg] using this

example : NoMatch exCfg [(3, .req (.str "r1") "m"), (9, .notif "n"), (10, .batch)] := by
  intro x hx; simp at hx; rcases hx with rfl | rfl | rfl <;> simp [isMatch]

/-! Non-vacuity of the client theorems: an uninitialized client's first call issues `initialize`, whose
answer arrives twice; the duplicate and a stray are still in the stream when the call's own request
starts, and the call returns the payload bearing its own id.  With an `initialize` that fails the
call's request is never issued, and the next call initializes again. -/
def exInit : Cfg Nat := { exCfg with reqId := .str "init-1", D := 5000 }
def exReq : Cfg Nat := { exCfg with reqId := .str "r1", D := 5000 }
def exStream : List (Nat × In Nat) :=
  [(10, .resp (.str "init-1") 1), (12, .resp (.str "init-1") 2), (40, .resp (.str "zz") 3),
   (50, .resp (.str "r1") 42)]
def exOutcomes (l : List (CallObs Nat)) : List (Option Nat × Option (Nat × Nat × Option Nat)) :=
  l.map (fun x => (x.init.bind (fun o => match o.outcome with | .returned p => some p | _ => none),
    x.req.map (fun r => (r.1, r.2.1, match r.2.2.outcome with | .returned p => some p | _ => none))))

example : exOutcomes (clientSeq (fun _ => true) (fun _ => true) false 0 0 exStream [⟨exInit, exReq, 5⟩])
    = [(some 1, some (10, 1, some 42))] := by
  simp [exOutcomes, clientSeq, initOk, run, loop, shift, exStream, exInit, exReq, exCfg, classify,
    cancelVisible, arrivesInTime]

example : exOutcomes (clientSeq (fun _ => true) (fun p => p != 1) false 0 0 exStream
      [⟨exInit, exReq, 5⟩, ⟨exInit, exReq, 5⟩])
    = [(some 1, none), (some 2, some (15, 2, some 42))] := by
  simp [exOutcomes, clientSeq, initOk, run, loop, shift, exStream, exInit, exReq, exCfg, classify,
    cancelVisible, arrivesInTime]

end Verif.Props.C01
