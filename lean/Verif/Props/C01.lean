import Verif.Lemmas.Await

/-! # C01 — a request completes only with the response that bears its own id

Model: `Verif.Model.Await.run` (timed model of `send_message` / `_await_response`), for an
arbitrary classifier `R`, an arbitrary positive poll period, both tie orders and histories of
any length.  `isMatch cfg m` = "`m` is a response or error response (no method) whose id equals
the id sent, JSON type included". -/
namespace Verif.Props.C01
open Verif.Model.Await
variable {α : Type}

/-- (a)+(b) A normal return is the payload of the FIRST message of the history that is a
response bearing the sent id; nothing before it in the history is such a message.  In
particular server requests reusing the id, notifications, progress, batches and other ids are
never the source of the result. -/
theorem c01_result_sound (R : Int → Bool) (cfg : Cfg α) (ev : List (Nat × In α)) (p : α)
    (h : (run R cfg ev).outcome = .returned p) :
    ∃ pre a post, ev = pre ++ (a, In.resp cfg.reqId p) :: post ∧ NoMatch cfg pre := by
  unfold run at h
  split at h
  · simp at h
  · exact loop_returned_sound R cfg 0 ev _ _ _ p h

/-- (b) stated on its own: a history without a matching response never makes the call return
or raise a server error — whatever else it contains. -/
theorem c01_never_foreign (R : Int → Bool) (cfg : Cfg α) (ev : List (Nat × In α))
    (hno : NoMatch cfg ev) :
    (run R cfg ev).outcome = .timedOut ∨ (run R cfg ev).outcome = .cancelled := by
  cases hout : (run R cfg ev).outcome with
  | timedOut => simp
  | cancelled => simp
  | returned p =>
    exfalso
    obtain ⟨pre, a, post, he, _⟩ := c01_result_sound R cfg ev p hout
    have := hno (a, In.resp cfg.reqId p) (by rw [he]; simp)
    simp [isMatch] at this
  | raised r c s =>
    exfalso
    unfold run at hout
    split at hout
    · simp at hout
    · obtain ⟨pre, a, post, code, he, _⟩ := loop_raised_sound R cfg 0 ev _ _ _ r c s hout
      have := hno (a, In.err cfg.reqId code s) (by rw [he]; simp)
      simp [isMatch] at this

/-- the messages that are NOT responses to this request, by kind (non-vacuity of `NoMatch`) -/
theorem c01_foreign_kinds (cfg : Cfg α) (other : Id) (ho : other ≠ cfg.reqId) (p : α) (s : String) :
    isMatch cfg (In.req cfg.reqId s) = false ∧ isMatch cfg (In.notif s) = false
    ∧ isMatch cfg (In.batch) = false ∧ isMatch cfg (In.resp other p) = false
    ∧ isMatch cfg (In.progress (some cfg.reqId) none none none) = false := by
  simp [isMatch, ho]

/-- (d) no matching response and no cancellation ⇒ `TimeoutError`, exactly at the deadline,
with exactly the one request written. -/
theorem c01_timeout_complete (R : Int → Bool) (cfg : Cfg α) (ev : List (Nat × In α))
    (hpre : cfg.preCancelled = false) (hc : cfg.cancelAt = none) (hno : NoMatch cfg ev) :
    (run R cfg ev).outcome = .timedOut ∧ (run R cfg ev).time = cfg.D
      ∧ (run R cfg ev).writes = [Write.request] := by
  have h1 := c01_never_foreign R cfg ev hno
  have hrun : run R cfg ev = loop R cfg 0 ev [.request] [] 0 := by simp [run, hpre]
  have hnc : (run R cfg ev).outcome ≠ .cancelled := by
    intro h
    rw [hrun] at h
    obtain ⟨c, h2, _⟩ := loop_cancelled_sound R cfg 0 ev _ _ _ h
    simp [hc] at h2
  have hto : (run R cfg ev).outcome = .timedOut := by
    rcases h1 with h | h
    · exact h
    · exact absurd h hnc
  refine ⟨hto, ?_, ?_⟩
  · rw [hrun] at hto ⊢; exact loop_timedOut_time R cfg 0 ev _ _ _ hto
  · rw [hrun] at hto ⊢
    rw [loop_writes, hto]; simp [Outcome.isCancelled]

/-- (a) completeness: without cancellation, if the first matching message of a (time-ordered)
history is a response arriving strictly before the deadline, the call returns exactly its
payload, at its arrival tick. (An arrival exactly at the deadline may go either way: that is
the tie order.) -/
theorem c01_complete (R : Int → Bool) (cfg : Cfg α) (pre post : List (Nat × In α)) (a : Nat) (p : α)
    (hpre : cfg.preCancelled = false) (hc : cfg.cancelAt = none)
    (hno : NoMatch cfg pre) (hs : Sorted (pre ++ [(a, In.resp cfg.reqId p)])) (ha : a < cfg.D) :
    (run R cfg (pre ++ (a, In.resp cfg.reqId p) :: post)).outcome = .returned p
      ∧ (run R cfg (pre ++ (a, In.resp cfg.reqId p) :: post)).time = a := by
  have hrun : ∀ ev, run R cfg ev = loop R cfg 0 ev [.request] [] 0 := by intro ev; simp [run, hpre]
  rw [hrun, loop_complete R cfg hc 0 _ _ _ _ pre a _ post rfl hno (by simp [isMatch]) hs
    (by intro x _; exact Nat.zero_le _) ha]
  simp [final, classify]

/-- (c) exactly one request is written, first; the only other write there can ever be is one
cancelled notification (whatever the state of the write stream).  A call cancelled before sending
writes no request at all. -/
theorem c01_single_request_written (R : Int → Bool) (cfg : Cfg α) (ev : List (Nat × In α)) :
    (cfg.preCancelled = false →
      (run R cfg ev).writes = [Write.request] ∨ (run R cfg ev).writes = [Write.request, Write.cancelNotif])
    ∧ (cfg.preCancelled = true → (run R cfg ev).writes = [Write.cancelNotif]) := by
  constructor
  · intro hpre
    have hrun : run R cfg ev = loop R cfg 0 ev [.request] [] 0 := by simp [run, hpre]
    rw [hrun, loop_writes]
    cases (loop R cfg 0 ev [Write.request] [] 0).outcome <;> simp [Outcome.isCancelled]
    exact Decidable.em _
  · intro hpre; simp [run, hpre]

/-- id equality is JSON-type sensitive: the integer 7 is not the string "7" -/
theorem c01_id_type_sensitive (cfg : Cfg α) (p : α) (h : cfg.reqId = .str "7") :
    isMatch cfg (In.resp (.int 7) p) = false := by
  simp [isMatch, h]

/-- Requests issued one after the other (or side by side on separate connections) do not see each
other: without a shared cancellation token each observation of a sequence is the observation of
that request alone on its own history — whatever ids, payloads or leftovers its siblings had.  (The
model says so by construction; the `siblings` correspondence suite is what checks it of the code:
consecutive calls in one process with equal / twin ids and strays bearing the siblings' ids.) -/
theorem c01_siblings_independent (R : Int → Bool) (s0 : Nat)
    (reqs : List (Cfg α × Nat × List (Nat × In α))) :
    (runSeq R none s0 reqs).map (·.2) = reqs.map (fun r => run R (withToken r.1 none 0) r.2.2) := by
  induction reqs generalizing s0 with
  | nil => simp [runSeq]
  | cons r rest ih =>
    obtain ⟨cfg, gap, ev⟩ := r
    simp only [runSeq, List.map_cons, ih]
    simp [withToken]

/-! Non-vacuity: a concrete history meeting the hypotheses of `c01_complete` (a same-id server
request and a foreign response precede the answer) and one meeting `c01_timeout_complete`. -/
def exCfg : Cfg Nat :=
  { reqId := .str "r1", D := 2048, P := 500, hP := by decide, preCancelled := false,
    cancelAt := none, token := none, zero := 0, eventsFirst := true, cbRaises := fun _ => false }

example : (run (fun _ => true) exCfg
    [(3, .req (.str "r1") "sampling/createMessage"), (600, .resp (.str "other") 5),
     (700, .resp (.str "r1") 42), (800, .resp (.str "r1") 43)]).outcome = .returned 42 := by
  have := (c01_complete (fun _ => true) exCfg
    [(3, .req (.str "r1") "sampling/createMessage"), (600, .resp (.str "other") 5)]
    [(800, .resp (.str "r1") 43)] 700 42 rfl rfl
    (by intro x hx; simp at hx; rcases hx with rfl | rfl <;> simp [isMatch, exCfg])
    (by simp [Sorted]) (by decide)).1
  simpa [exCfg] using this

example : NoMatch exCfg [(3, .req (.str "r1") "m"), (9, .notif "n"), (10, .batch)] := by
  intro x hx; simp at hx; rcases hx with rfl | rfl | rfl <;> simp [isMatch]

end Verif.Props.C01
