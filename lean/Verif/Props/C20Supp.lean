import Verif.Props.C20
import Verif.Model.Host
import Verif.Gen.Legacy

/-! # C20 — supplementary obligations (not stated by the property text)

The library's default environment (`get_default_environment`), the command line of
`python -m chuk_mcp` (option table, defaults, default configuration locations) and the legacy
import paths of `chuk_mcp.mcp_client`, each with data REGENERATED from the source
(`Gen/HostEnv.lean`, `Gen/Cli.lean`, `Gen/Legacy.lean`).  C20's text speaks of "the configured
environment" and of "the command-line connectivity test"; what the default environment contains,
how argv is parsed and where a default configuration is looked for are the library's own
definitions.  Built and audited on every run like `Props/C20.lean`; a failure here is reported as
INFO and in the evidence, never as a verdict about C20 (DESIGN 9.9). -/
set_option linter.unusedSimpArgs false
namespace Verif.Props.C20
open Verif.Model.Config Verif.Lemmas.Config

/-! ## The default environment (`get_default_environment`, lists regenerated from the source) -/
section Host
open Verif.Model.Host Verif.Gen.HostEnv Verif.Gen.Cli

/-- the translator located the inherited-name lists, the option table and the default locations -/
theorem c20_host_translated :
    Verif.Gen.HostEnv.translatable = true ∧ Verif.Gen.Cli.translatable = true := by decide

/-- **Nothing leaks.**  Every member of the default environment is one of the listed names, carries
the parent's value of that name, and that value is non-empty and does not start with the barred
prefix. -/
theorem c20_default_env_sound (w : Bool) (parent : Env) (k v : String) (h : (k, v) ∈ defaultEnv w parent) :
    k ∈ inherited w ∧ parent.lookup k = some v ∧ keep v = true := by
  simp only [defaultEnv, List.mem_filterMap] at h
  obtain ⟨k', hk, hm⟩ := h
  split at hm
  · rename_i v' hl
    split at hm
    · rename_i hkeep
      simp only [Option.some.injEq, Prod.mk.injEq] at hm
      obtain ⟨rfl, rfl⟩ := hm
      exact ⟨hk, hl, hkeep⟩
    · simp at hm
  · simp at hm

/-- ... and everything listed that the parent has (non-empty, not barred) is inherited. -/
theorem c20_default_env_complete (w : Bool) (parent : Env) (k v : String) (hk : k ∈ inherited w)
    (hl : parent.lookup k = some v) (hv : keep v = true) : (k, v) ∈ defaultEnv w parent := by
  simp only [defaultEnv, List.mem_filterMap]
  exact ⟨k, hk, by simp [hl, hv]⟩

theorem c20_nothing_else_leaks (w : Bool) (parent : Env) (k v : String) (hk : k ∉ inherited w) :
    (k, v) ∉ defaultEnv w parent :=
  fun h => hk (c20_default_env_sound w parent k v h).1

/-- an empty value is never inherited, whatever the barred prefix -/
example : keep "" = false := by decide
example : blockedPrefix = some "()" → keep "() { :; }; x" = false ∧ keep "x()" = true := by
  intro h; simp [keep, h, isPrefix]
example : defaultEnv false [("HOME", "/root"), ("SECRET", "1"), ("TERM", ""), ("PATH", "/bin"), ("Path", "x")]
    = [("HOME", "/root"), ("PATH", "/bin")] := by decide

/-- **The child's environment, exactly.**  For a valid configuration every entry point gives the
child the configured mapping when that is non-empty, and otherwise `defaultEnv` of the parent's
environment — no union of the two, nothing of the parent beyond the listed names. -/
theorem c20_child_env_exact (e : EntryPoint) (w : Bool) (parent : Env) (cfg : J) (n : String) (s : Spec)
    (h : ValidFor cfg n s) :
    entry e (defaultEnv w parent) (.json cfg) [n]
      = { launches := [{ argv := s.command :: s.args,
                         env := (match s.env with
                           | some (kv :: rest) => kv :: rest
                           | _ => defaultEnv w parent),
                         handshake := true }], raised := none } := by
  rw [c20_launch_exact e (defaultEnv w parent) cfg n s h]
  cases hs : s.env with
  | none => simp [configured, envOrDefault, hs]
  | some l => cases l <;> simp [configured, envOrDefault, hs]

/-! ## The command line (`__main__.main`, option table and default locations regenerated) -/

theorem run_append (xs ys : List String) : run (xs ++ ys) = ys.foldl step (run xs) := by
  simp [run, List.foldl_append]

theorem parse_some {xs : List String} {o : Options} (h : parse xs = some o) :
    run xs = { o := o, pending := .nothing, bad := false } := by
  unfold parse at h
  simp only at h
  split at h
  · simp at h
  · rename_i hc
    simp only [Bool.or_eq_true, bne_iff_ne, ne_eq, not_or, Bool.not_eq_true, Decidable.not_not] at hc
    simp only [Option.some.injEq] at h
    cases hr : run xs with
    | mk o' p' b' =>
      simp only [hr] at hc h
      obtain ⟨hb, hp⟩ := hc
      subst h hb hp
      rfl

/-- no arguments: the regenerated defaults -/
theorem c20_cli_defaults :
    parse [] = some { config := defaultConfig, server := defaultServer, list := false, verbose := false } := by
  decide

/-- **A value option, wherever it stands, in its long or short form, overrides what came before**
and leaves everything else alone. -/
theorem c20_cli_value_option (xs : List String) (o : Options) (h : parse xs = some o) (v : String)
    (hv : optionLike v = false) :
    parse (xs ++ [serverLong, v]) = some { o with server := v }
    ∧ parse (xs ++ [serverShort, v]) = some { o with server := v }
    ∧ parse (xs ++ [configLong, v]) = some { o with config := some v }
    ∧ parse (xs ++ [configShort, v]) = some { o with config := some v } := by
  have hr := parse_some h
  refine ⟨?_, ?_, ?_, ?_⟩ <;>
    simp [parse, run_append, hr, step, hv, serverLong, serverShort, configLong, configShort]

/-- the two flags -/
theorem c20_cli_flags (xs : List String) (o : Options) (h : parse xs = some o) :
    parse (xs ++ [listLong]) = some { o with list := true }
    ∧ parse (xs ++ [listShort]) = some { o with list := true }
    ∧ parse (xs ++ [verboseLong]) = some { o with verbose := true }
    ∧ parse (xs ++ [verboseShort]) = some { o with verbose := true } := by
  have hr := parse_some h
  refine ⟨?_, ?_, ?_, ?_⟩ <;>
    simp [parse, run_append, hr, step, serverLong, serverShort, configLong, configShort, listLong, listShort,
      verboseLong, verboseShort]

/-- an option that takes a value but is last, or is followed by another option, is a usage error -/
theorem c20_cli_missing_value (xs : List String) (o : Options) (h : parse xs = some o) (t : String)
    (ht : optionLike t = true) :
    parse (xs ++ [serverLong]) = none ∧ parse (xs ++ [configLong]) = none
    ∧ parse (xs ++ [serverLong, t]) = none ∧ parse (xs ++ [configShort, t]) = none := by
  have hr := parse_some h
  refine ⟨?_, ?_, ?_, ?_⟩ <;>
    simp [parse, run_append, hr, step, ht, serverLong, serverShort, configLong, configShort]

/-- **Default configuration discovery takes the FIRST existing location of the list.** -/
theorem c20_cli_discovery_first (existing : List String) (home p : String)
    (h : findDefault existing home = some p) :
    existing.contains p = true
    ∧ ∃ before after, candidates.map (candidatePath home) = before ++ p :: after
        ∧ ∀ q ∈ before, existing.contains q = false := by
  unfold findDefault at h
  obtain ⟨hp, before, after, heq, hb⟩ := List.find?_eq_some_iff_append.mp h
  exact ⟨hp, before, after, heq, fun q hq => by simpa using hb q hq⟩

theorem c20_cli_discovery_none (existing : List String) (home : String) :
    findDefault existing home = none ↔ ∀ c ∈ candidates, existing.contains (candidatePath home c) = false := by
  simp [findDefault, List.find?_eq_none]

/-- **What the command line does.**  With a parsed command line: an explicit non-empty `--config`
is used as it is; otherwise the first existing default location; none ⇒ nothing to do (exit 1);
`--list-servers` never tests a server. -/
theorem c20_cli_decision (existing : List String) (home : String) (argv : List String) (o : Options)
    (hp : parse argv = some o) :
    (∀ p, o.config = some p → p ≠ "" → o.list = false → act existing home argv = .test p o.server o.verbose)
    ∧ (∀ p, (o.config = none ∨ o.config = some "") → findDefault existing home = some p → o.list = false →
         act existing home argv = .test p o.server o.verbose)
    ∧ ((o.config = none ∨ o.config = some "") → findDefault existing home = none →
         act existing home argv = .noConfig)
    ∧ (o.list = true → ∀ p n v, act existing home argv ≠ .test p n v) := by
  refine ⟨?_, ?_, ?_, ?_⟩
  · intro p hc hne hl
    simp [act, hp, hc, hne, hl]
  · intro p hc hf hl
    rcases hc with hc | hc <;> simp [act, hp, hc, hf, hl]
  · intro hc hf
    rcases hc with hc | hc <;> simp [act, hp, hc, hf]
  · intro hl p n v
    simp only [act, hp]
    split <;> simp [hl]

/-- a usage error, a missing configuration and `--list-servers` launch nothing -/
theorem c20_cli_nothing_launched (files : List String) (dflt : Env) (fs : String → File) (existing : List String)
    (home : String) (argv : List String) (h : ∀ p n v, act existing home argv ≠ .test p n v) :
    (cliLaunch files dflt fs existing home argv).launches = [] := by
  unfold cliLaunch
  split
  · rename_i p n v hd
    exact absurd hd (h p n v)
  · rfl

/-- **The command line launches exactly the server it names from the configuration it selects.** -/
theorem c20_cli_launch_exact (files : List String) (dflt : Env) (fs : String → File) (existing : List String)
    (home : String) (argv : List String) (p n : String) (v : Bool) (cfg : J) (s : Spec) (exe : String)
    (hd : act existing home argv = .test p n v) (hf : fs p = .json cfg) (hvalid : ValidFor cfg n s)
    (hr : resolve files (envOrDefault dflt s.env) s.command = some exe) :
    cliLaunch files dflt fs existing home argv
      = { launches := [{ argv := exe :: s.args, env := envOrDefault dflt s.env, handshake := true }], raised := none } := by
  simp only [cliLaunch, hd, hf]
  exact c20_executable_exact files .cliTest dflt cfg n s exe hvalid hr

/-! non-vacuity: defaults, overriding, `=` form, discovery order -/
example : act ["config.json", "/h/.mcp_config.json"] "/h" [] = .test "config.json" "sqlite" false := by decide
example : act ["/h/.mcp_config.json"] "/h" ["-s", "a", "--verbose", "--server", "b"]
    = .test "/h/.mcp_config.json" "b" true := by decide
example : act ["config.json"] "/h" ["--config=my conf.json", "--server=x y", "-c", ""] = .test "config.json" "x y" false := by
  decide
example : act [] "/h" ["--server", "db"] = .noConfig := by decide
example : act ["config.json"] "/h" ["-l", "--server", "db"] = .list "config.json" := by decide
example : act ["config.json"] "/h" ["--server"] = .usage ∧ act [] "/h" ["db"] = .usage
    ∧ act [] "/h" ["--server", "--verbose"] = .usage := by decide

/-! ## The legacy import paths (`chuk_mcp.mcp_client` re-exports and module shims; table by introspection) -/

theorem c20_legacy_translated : Verif.Gen.Legacy.translatable = true := by decide

/-- every legacy import path of a host entry point resolves to the VERY SAME object as the present-day
name it stands for — a host written against the old package layout launches through the same code -/
theorem c20_legacy_aliases_same_object :
    ∀ r ∈ Verif.Gen.Legacy.exports, r.2.2.1 = r.2.2.2 := by decide +kernel

example : Verif.Gen.Legacy.exports ≠ [] := by decide

end Host

end Verif.Props.C20
