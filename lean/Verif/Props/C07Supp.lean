import Verif.Props.C07

/-! # C07 — supplementary obligations (not stated by the property text)

Built and audited on every run like `Props/C07.lean`; a failure here is reported as INFO and in
the evidence, never as a verdict about C07 (DESIGN 9.9). -/
set_option linter.unusedSimpArgs false
namespace Verif.Props.C07
open Verif.Gen.Errors
open Verif.Model.Await
variable {α : Type}

/-! ## Supplementary: the helpers next to the classifier (regenerated too)

`get_error_message`, `is_server_error`, `is_standard_jsonrpc_error`, `is_mcp_specific_error` and the
text of the exception assembled in `_process_response` are regenerated into `Gen/Errors.lean`
under their own flag `auxTranslatable`.  C07's text names none of them except "carrying the
server's … message"; a difference in the `error-helpers` correspondence suite is an evidence
note, not a verdict. -/

/-- Proof scripts below start with `aux_gate`: when the auxiliary part was not translated the
generated definitions are placeholders and the hypothesis `auxTranslatable = true` is false. -/
macro "aux_gate " t:tacticSeq : tactic =>
  `(tactic| first | (intro h; exact absurd h (by decide)) | (intro _; ($t)))

/-- `is_server_error` is the JSON-RPC implementation-defined range, nothing else; every
MCP-specific code lies in it; a code is never both standard and MCP-specific; and every code the
two set helpers recognise has a description. -/
theorem c07_aux_code_classes (c : Int) : auxTranslatable = true →
    (isServerError c = true ↔ (-32099 ≤ c ∧ c ≤ -32000))
    ∧ (isMcpSpecificError c = true → isServerError c = true)
    ∧ ¬ (isStandardJsonrpcError c = true ∧ isMcpSpecificError c = true)
    ∧ (isStandardJsonrpcError c = true ∨ isMcpSpecificError c = true → c ∈ named) := by
  aux_gate
    refine ⟨?_, ?_, ?_, ?_⟩
    · simp [isServerError]
    · intro h
      simp [isMcpSpecificError] at h
      rcases h with h | h | h | h | h | h | h <;> subst h <;> decide
    · intro ⟨h1, h2⟩
      simp [isStandardJsonrpcError] at h1
      rcases h1 with h | h | h | h | h <;> subst h <;> simp [isMcpSpecificError] at h2
    · intro h
      rcases h with h | h
      · simp [isStandardJsonrpcError] at h
        rcases h with h | h | h | h | h <;> subst h <;> decide
      · simp [isMcpSpecificError] at h
        rcases h with h | h | h | h | h | h | h <;> subst h <;> decide

/-- `get_error_message` is total: a named code gets its table entry, every other integer the
"unknown" text with the code in decimal; the table has exactly one entry per named code. -/
theorem c07_aux_message_total (c : Int) : auxTranslatable = true →
    (c ∈ named → (c, getErrorMessage c) ∈ messages)
    ∧ (c ∉ named → getErrorMessage c = "Unknown error: Code " ++ toString c)
    ∧ messages.map (·.1) = named := by
  aux_gate
    refine ⟨?_, ?_, by decide⟩
    · intro h
      have : c ∈ messages.map (·.1) := by simpa [show messages.map (·.1) = named by decide] using h
      simp only [named] at h
      simp at h
      rcases h with h | h | h | h | h | h | h | h | h | h | h | h | h | h <;> subst h <;> decide
    · intro h
      have hl : messages.lookup c = none := by
        rw [List.lookup_eq_none_iff]
        intro p hp
        have : p.1 ∈ named := by
          rw [← (show messages.map (·.1) = named by decide)]
          exact List.mem_map_of_mem hp
        simp only [bne_iff_ne, ne_eq]
        intro he
        exact h (he ▸ this)
      simp [getErrorMessage, hl]

/-- The exception raised for an error response carries the server's message verbatim and the
code in decimal (the server's message when there is one, the description of the code otherwise). -/
theorem c07_err_text_carries (m : Option String) (c : Int) : auxTranslatable = true →
    errText m c = "JSON-RPC Error: " ++ m.getD (getErrorMessage c) ++ " (code: " ++ toString c ++ ")" := by
  aux_gate
    rfl

/-- the code assumed for an error object that carries none is the one the model's `errOutcome`
uses (`-32603`, internal error — retryable) -/
theorem c07_default_code_regenerated : auxTranslatable = true →
    defaultErrorCode = -32603
    ∧ ∀ (msg : Option String), (errOutcome (α := Unit) isRetryableError none msg) = .raised true defaultErrorCode msg := by
  aux_gate
    refine ⟨by decide, ?_⟩
    intro msg
    simp [errOutcome, defaultErrorCode]
    decide

example : auxTranslatable = true → errText (some "boom") (-32601) = "JSON-RPC Error: boom (code: -32601)" := by
  aux_gate
    decide +kernel

end Verif.Props.C07
