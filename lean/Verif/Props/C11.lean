import Verif.Lemmas.HttpDecide

/-! # C11 — Streamable HTTP: exactly one terminal message per request, whatever the server

Statements about the models `Verif.Model.Sse` (the text parser `_process_sse_text` applies to
an SSE body, and a renderer of every spec-conformant encoding) and
`Verif.Model.HttpDecide` (`internal` = `_send_message_internal`, `outcome` =
`_send_message_via_http`, `run` = the serial sender loop).  Both model the *repaired*
transport (`fixes/C11-*.diff`); the correspondence run of `./check C11` diffs them against the
code on every run.  JSON decoding + message validation is the parameter `dec`; every
theorem holds for every decoder, every id, every behaviour, every sequence length.
-/
namespace Verif.Props.C11
open Verif.Model.Sse Verif.Model.HttpDecide

variable {P : Type}

/-- a decoder that decodes nothing (for examples about failures) -/
def toyDecN : Dec Nat := ⟨fun _ => none⟩

/-- SSE grammar.  For EVERY list of events and EVERY conformant choice of encoding — event
field present or absent and of any type, a space after the colon or not (per field line),
comment / `id:` / `retry:` lines before any field line and before the blank line, any number
of data lines INCLUDING NONE (keep-alive events, comment-only events, extra blank lines), CRLF
or LF per line (`eols`), and the stream ending with a blank line, at end of file after the last
terminator, or inside the last line (`tail`) — the parser hands over exactly the events that
have data, in order: the event type (default "message" — a data-less event resets it, it never
leaks into the next event) and the data lines joined by LF. -/
theorem c11_parse_render (evs : List Event) (eols : List Bool) (tail : Tail)
    (h : ∀ e ∈ evs, Conformant e = true) :
    parseText (renderText evs eols tail) =
      (evs.filter (fun e => !e.data.isEmpty)).map (fun e => (effType e.name, joinNl e.data)) := by
  rw [parseText_render evs eols tail h]
  clear h
  induction evs with
  | nil => rfl
  | cons e es ih =>
    cases hd : e.data <;> simp [evOuts, evOut, hd, ih]

/-- non-vacuity: a data-less `ping` keep-alive, then an event without event field and without
    spaces (it must NOT inherit "ping"), a comment-only event, a typed event; CRLF on some lines,
    a comment and an `id:` line, multi-line data, end of file inside the last line -/
example :
    let e0 : Event := { name := some "ping".toList, data := [], nameChoice := dflt, dataChoices := [] }
    let e1 : Event := { name := none, data := ["{\"a\":".toList, "1}".toList],
                        nameChoice := dflt, dataChoices := [⟨false, [.comment " hi".toList]⟩] }
    let e2 : Event := { name := none, data := [], nameChoice := dflt, dataChoices := [],
                        after := [.comment "keep".toList] }
    let e3 : Event := { name := some "message".toList, data := ["{}".toList],
                        nameChoice := ⟨false, [.idField true "7".toList]⟩, dataChoices := [] }
    (Conformant e0 && Conformant e1 && Conformant e2 && Conformant e3) = true ∧
    renderText [e0, e1, e2, e3] [false, false, true, false, true] .noEol
      = "event: ping\n\n: hi\r\ndata:{\"a\":\ndata: 1}\r\n\n:keep\n\nid: 7\nevent:message\ndata: {}".toList ∧
    parseText (renderText [e0, e1, e2, e3] [false, false, true, false, true] .noEol)
      = [("message".toList, "{\"a\":\n1}".toList), ("message".toList, "{}".toList)] := by
  decide

/-- Exactly one terminal message.  An error status, an empty or malformed body (a body that
contains no message), a connection failure or a timeout makes the transport deliver exactly
one message that is terminal for the request's id … -/
theorem c11_exactly_one_terminal (dec : Dec P) (id : Id) (b : Behaviour) (h : Failure dec b) :
    ((outcome dec (some id) b).filter (Out.terminalFor id)).length = 1 := by
  simp [outcome_failure dec id b h, Out.terminalFor]

/-- … which is the synthesised one, and nothing else is delivered for that POST. -/
theorem c11_failure_only_synthesised (dec : Dec P) (id : Id) (b : Behaviour) (h : Failure dec b) :
    outcome dec (some id) b = [.synth (some id)] :=
  outcome_failure dec id b h

/-- Success passes through without loss or invention: on an accepted status, whenever the body
(JSON, SSE, or unlabelled and non-empty) contains messages, exactly those are delivered, in
order, and nothing is synthesised. -/
theorem c11_success_passthrough (dec : Dec P) (id : Option Id) (r : Resp)
    (hs : r.status < 400) (hne : contained dec r ≠ [])
    (hbody : r.ctype = .other ∨ r.ctype = .absent → r.body.text ≠ []) :
    outcome dec id (.resp r) = (contained dec r).map .pass := by
  have hi := internal_passthrough dec id r hs hne hbody
  rw [outcome_of_internal_ne dec id _ (by simp [hi, hne]), hi]

/-- JSON body: a single message yields that message; a batch array yields its members in order. -/
theorem c11_json_body_messages (dec : Dec P) (id : Option Id) (r : Resp)
    (hs : r.status < 400) (hc : r.ctype = .json) (hu : r.body.utf8 = true) :
    (∀ m, dec.json r.body.text = some (.msg m) → outcome dec id (.resp r) = [.pass m]) ∧
    (∀ ms, ms ≠ [] → dec.json r.body.text = some (.arr (ms.map .msg)) →
        outcome dec id (.resp r) = ms.map .pass) := by
  constructor
  · intro m hm
    have hcont : contained dec r = [m] := by simp [contained, hc, hu, hm, routeAll]
    have := c11_success_passthrough dec id r hs (by simp [hcont]) (by simp [hc])
    simpa [hcont] using this
  · intro ms hne hm
    have hcont : contained dec r = ms := by simp [contained, hc, hu, hm, routeAll_batch]
    have := c11_success_passthrough dec id r hs (by simpa [hcont] using hne) (by simp [hc])
    simpa [hcont] using this

/-- Partial failure inside a batch: a member the message class rejects (a non-object result, a
scalar, an object without result and error, …) at ANY position — first, middle, last, several of
them — is skipped where it stands; every deliverable member before and after it is still delivered,
in order.  In particular the request's own answer behind a rejected member is not lost. -/
theorem c11_batch_invalid_member_skipped (dec : Dec P) (id : Option Id) (r : Resp) (a b : List (JVal P))
    (hs : r.status < 400) (hc : r.ctype = .json) (hu : r.body.utf8 = true)
    (hd : dec.json r.body.text = some (.arr (a ++ .junk :: b)))
    (hne : routeAll (.arr a) ++ routeAll (.arr b) ≠ []) :
    outcome dec id (.resp r) = (routeAll (.arr a) ++ routeAll (.arr b)).map .pass := by
  have hcont : contained dec r = routeAll (.arr a) ++ routeAll (.arr b) := by
    simp [contained, hc, hu, hd, routeAll_skip_junk]
  have := c11_success_passthrough dec id r hs (by rw [hcont]; exact hne) (by simp [hc])
  rw [this, hcont]

/-- SSE body: in ANY conformant encoding of ANY number of events — message events, events of
other types, data-less keep-alives, in any order — every JSON-RPC message the events carry is
delivered, in order (`g e` = the messages event `e` carries; data-less events carry none and do
not disturb their neighbours). -/
theorem c11_sse_body_messages (dec : Dec P) (id : Option Id) (r : Resp)
    (evs : List Event) (eols : List Bool) (tail : Tail) (g : Event → List (Msg P))
    (hs : r.status < 400) (hc : r.ctype = .sse)
    (hconf : ∀ e ∈ evs, Conformant e = true)
    (hmsg : ∀ e ∈ evs, e.data ≠ [] → sseEventMsgs dec (effType e.name, joinNl e.data) = g e)
    (hnone : ∀ e ∈ evs, e.data = [] → g e = [])
    (hne : evs.flatMap g ≠ [])
    (hbody : r.body.text = renderText evs eols tail) :
    outcome dec id (.resp r) = (evs.flatMap g).map .pass := by
  have hcont : contained dec r = evs.flatMap g := by
    simp only [contained, hc, hbody, sseMsgs_render dec evs eols tail hconf]
    clear hbody hconf hne
    induction evs with
    | nil => rfl
    | cons e es ih =>
      simp only [List.flatMap_cons]
      rw [ih (fun x hx => hmsg x (by simp [hx])) (fun x hx => hnone x (by simp [hx]))]
      by_cases hd : e.data = []
      · simp [hd, hnone e (by simp) hd]
      · simp [hd, hmsg e (by simp) hd]
  have := c11_success_passthrough dec id r hs (by simpa [hcont] using hne) (by simp [hc])
  simpa [hcont] using this

/-- Encoding twins: the same message text, once as an `application/json` body and once as the data
of an SSE message event (any conformant encoding of that one event), is turned into the same
delivery — both bodies are decoded by the same decoder, and what it accepts in one it accepts in
the other. -/
theorem c11_encoding_twins (dec : Dec P) (id : Option Id) (rj rs : Resp) (e : Event) (eols : List Bool) (tail : Tail)
    (m : Msg P)
    (hj : rj.status < 400 ∧ rj.ctype = .json ∧ rj.body.utf8 = true) (hdec : dec.json rj.body.text = some (.msg m))
    (hs : rs.status < 400 ∧ rs.ctype = .sse) (hconf : Conformant e = true) (hbody : rs.body.text = renderText [e] eols tail)
    (hname : effType e.name = "message".toList) (hdata : joinNl e.data = rj.body.text) (hne : e.data ≠ [])
    (hstrip : strip rj.body.text = rj.body.text) (hbrace : rj.body.text.head? = some '{') :
    outcome dec id (.resp rj) = outcome dec id (.resp rs) := by
  have h1 := (c11_json_body_messages dec id rj hj.1 hj.2.1 hj.2.2).1 m hdec
  have hev : sseEventMsgs dec (effType e.name, joinNl e.data) = [m] := by
    simp [sseEventMsgs, hname, hdata, hstrip, hbrace, hdec, routeAll]
  have h2 := c11_sse_body_messages dec id rs [e] eols tail (fun _ => [m]) hs.1 hs.2
    (by intro x hx; simp at hx; subst hx; exact hconf)
    (by intro x hx _; simp at hx; subst hx; exact hev)
    (by intro x hx hd; simp at hx; subst hx; exact absurd hd hne)
    (by simp) hbody
  rw [h1, h2]; simp

/-- Notification POST: nothing the transport synthesises carries an id, whatever the answer;
and when the answer is a failure nothing at all carrying an id is delivered. -/
theorem c11_no_id_for_notification (dec : Dec P) (b : Behaviour) :
    (∀ i, Out.synth (some i) ∉ outcome dec none b) ∧
    (Failure dec b → ∀ o ∈ outcome dec none b, o.id? = none) := by
  rw [outcome_notification]
  constructor
  · intro i hi
    have := internal_synth_id dec none b _ hi
    cases this
  · intro hf o ho
    rcases internal_failure dec none b hf with h | h <;> simp [h] at ho
    simp [ho, Out.id?]

/-- The sender loop is a fold: what is delivered for `a ++ b` is what is delivered for `a`
followed by what is delivered for `b` (started with the session id left by `a`) — … -/
theorem c11_failures_independent (dec : Dec P) (s : Option String) (a b : List (Req × Behaviour)) :
    (run dec s (a ++ b)).outs = (run dec s a).outs ++ (run dec (run dec s a).session b).outs ∧
    (run dec s (a ++ b)).hdrs = (run dec s a).hdrs ++ (run dec (run dec s a).session b).hdrs :=
  ⟨(run_append dec s a b).1, (run_append dec s a b).2.1⟩

/-- … and every request is processed whatever happened before it: the transcript is the
concatenation of the per-request outcomes, which depend on nothing but the request's own id
and the server's answer to it. -/
theorem c11_every_request_processed (dec : Dec P) (s : Option String) (rs : List (Req × Behaviour)) :
    (run dec s rs).outs = rs.flatMap (fun p => outcome dec p.1.id p.2) ∧
    (run dec s rs).hdrs.length = rs.length :=
  ⟨run_outs dec s rs, run_hdrs_length dec s rs⟩

/-- Session header: the `k`-th POST carries the most recent session id issued (header on a
response with a non-error status) by the answers to the POSTs before it, or the configured
one when none was issued yet. -/
theorem c11_session_header_latest (dec : Dec P) (s : Option String) (rs : List (Req × Behaviour))
    (k : Nat) (hk : k < rs.length) :
    (run dec s rs).hdrs[k]? = some (hdr ((issued (rs.take k)).getLast?.or s)) :=
  run_hdr_latest dec s rs k hk

/-- The method of the POSTed message does not matter: `initialize`, `ping`, a notification, an
unknown method, the empty string — whatever methods the requests of a sequence carry, the same
messages are delivered and every POST carries the same session header (in particular an
`initialize` sent while a session id is known carries it like any other request). -/
theorem c11_method_irrelevant (dec : Dec P) (s : Option String) (rs : List (ReqM × Behaviour)) (f : ReqM → String) :
    (runM dec s (rs.map (fun p => ({ p.1 with method := f p.1 }, p.2)))).outs = (runM dec s rs).outs ∧
    (runM dec s (rs.map (fun p => ({ p.1 with method := f p.1 }, p.2)))).hdrs = (runM dec s rs).hdrs := by
  simp [runM, List.map_map, Function.comp_def]

example :
    (runM toyDecN (some "S") [(⟨some (.int 1), "initialize"⟩, .exc .other), (⟨none, ""⟩, .exc .other)]).hdrs
      = [some "S", some "S"] := by
  decide

/-- Repeated failures leave nothing behind: after ANY number of failing requests (the same
failure twice, three times, …, any mixture) the following requests are processed exactly as if
nothing had happened before — no counter, no fail-fast state. -/
theorem c11_repeated_failures (dec : Dec P) (s : Option String) (fs rest : List (Req × Behaviour))
    (hf : ∀ p ∈ fs, Failure dec p.2 ∧ p.1.id.isSome) :
    (run dec s (fs ++ rest)).outs =
      fs.map (fun p => Out.synth p.1.id) ++ rest.flatMap (fun p => outcome dec p.1.id p.2) := by
  simp only [run_outs, List.flatMap_append]
  congr 1
  clear rest
  induction fs with
  | nil => rfl
  | cons p ps ih =>
    obtain ⟨hfail, hid⟩ := hf p (by simp)
    obtain ⟨r, b⟩ := p
    cases hi : r.id with
    | none => simp [hi] at hid
    | some i =>
      simp only [List.flatMap_cons, List.map_cons, hi, outcome_failure dec i b hfail]
      rw [ih (fun q hq => hf q (by simp [hq]))]
      rfl

example :
    (run toyDecN none ((List.replicate 5 (⟨some (.int 1)⟩, Behaviour.exc .other)) ++ [(⟨some (.int 2)⟩, .exc .timeout)])).outs
      = List.replicate 5 (.synth (some (.int 1))) ++ [.synth (some (.int 2))] := by
  decide

/-! ### non-vacuity of the outcome theorems on a concrete decoder -/

/-- a toy decoder: "R" is the response to request 1, "N" a notification, "B" the batch [N, R],
    "J" a JSON value that is no message; everything else is not JSON -/
def toyDec : Dec Nat where
  json s :=
    if s = "M".toList then some (.arr [.msg ⟨.notification, none, 20⟩, .junk, .msg ⟨.result, some (.int 1), 10⟩]) else
    if s = "{R}".toList then some (.msg ⟨.result, some (.int 1), 10⟩)
    else if s = "{N}".toList then some (.msg ⟨.notification, none, 20⟩)
    else if s = "B".toList then some (.arr [.msg ⟨.notification, none, 20⟩, .msg ⟨.result, some (.int 1), 10⟩])
    else if s = "J".toList then some .junk
    else none

def resp (st : Nat) (ct : CType) (sess : Option String) (t : String) : Behaviour :=
  .resp { status := st, ctype := ct, session := sess, body := { text := t.toList, utf8 := true } }

example :
    -- failures of every class: one synthesised terminal each
    Failure toyDec (.exc .other) ∧ Failure toyDec (.exc .timeout) ∧ Failure toyDec (resp 500 .json none "{R}") ∧
    Failure toyDec (resp 200 .json none "") ∧ Failure toyDec (resp 200 .json none "J") ∧
    Failure toyDec (resp 202 .other none "<html>") ∧ Failure toyDec (resp 200 .sse none ": nothing\n\n") ∧
    Failure toyDec (resp 204 .absent none "") ∧
    outcome toyDec (some (.int 0)) (resp 204 .absent none "") = [.synth (some (.int 0))] ∧
    outcome toyDec (some (.int 1)) (resp 202 .other none "<html>") = [.synth (some (.int 1))] ∧
    -- error status with a JSON-RPC body for a foreign id: still the synthesised terminal, nothing passed through
    Failure toyDec (resp 404 .json none "{R}") ∧
    outcome toyDec (some (.int 7)) (resp 404 .json none "{R}") = [.synth (some (.int 7))] ∧
    -- pass-through: single, batch, SSE with two events in two encodings
    outcome toyDec (some (.int 1)) (resp 200 .json none "{R}") = [.pass ⟨.result, some (.int 1), 10⟩] ∧
    outcome toyDec (some (.int 1)) (resp 200 .json none "B")
      = [.pass ⟨.notification, none, 20⟩, .pass ⟨.result, some (.int 1), 10⟩] ∧
    outcome toyDec (some (.int 1)) (resp 200 .sse none "event: ping\n\ndata: {R}\n\n")
      = [.pass ⟨.result, some (.int 1), 10⟩] ∧
    outcome toyDec (some (.int 1)) (resp 200 .sse none "data:{N}\r\n\r\nevent: message\ndata: {R}")
      = [.pass ⟨.notification, none, 20⟩, .pass ⟨.result, some (.int 1), 10⟩] ∧
    -- a batch whose middle member is rejected: the members around it are delivered
    outcome toyDec (some (.int 1)) (resp 200 .json none "M")
      = [.pass ⟨.notification, none, 20⟩, .pass ⟨.result, some (.int 1), 10⟩] ∧
    -- notification POST: nothing with an id on failure
    outcome toyDec none (resp 500 .json none "") = [.synth none] ∧
    outcome toyDec none (resp 202 .absent none "") = [] := by
  decide

example :
    let rs : List (Req × Behaviour) :=
      [(⟨some (.int 1)⟩, resp 200 .json (some "A") "{R}"), (⟨some (.int 2)⟩, .exc .other),
       (⟨none⟩, resp 500 .json (some "X") ""), (⟨some (.int 3)⟩, resp 200 .json (some "B") "J"),
       (⟨some (.int 4)⟩, resp 200 .json none "{R}")]
    (run toyDec none rs).hdrs = [none, some "A", some "A", some "A", some "B"] ∧
    (run toyDec none rs).outs =
      [.pass ⟨.result, some (.int 1), 10⟩, .synth (some (.int 2)), .synth none, .synth (some (.int 3)),
       .pass ⟨.result, some (.int 1), 10⟩] := by
  decide

end Verif.Props.C11
