import Verif.Lemmas.HttpDecide
import Verif.Lemmas.HttpHeaders
import Verif.Lemmas.SseStream
import Verif.Gen.HttpParams

/-! # C11 — Streamable HTTP: exactly one terminal message per request, whatever the server

Statements about the models `Verif.Model.Sse` (the text parser `_process_sse_text` applies to
an SSE body, and a renderer of every spec-conformant encoding) and
`Verif.Model.HttpDecide` (`internal` = `_send_message_internal`, `outcome` =
`_send_message_via_http`, `run` = the serial sender loop).  Both model the *repaired*
transport (`fixes/C11-*.diff`); the correspondence run of `./check C11` diffs them against the
code on every run.  JSON decoding + message validation is the parameter `dec`; every
theorem holds for every decoder, every id, every behaviour, every sequence length.
-/
namespace Verif.Props.C11
open Verif.Model.Sse Verif.Model.HttpDecide

variable {P : Type}

/-- a decoder that decodes nothing (for examples about failures) -/
def toyDecN : Dec Nat := ⟨fun _ => none⟩

/-- SSE grammar.  For EVERY list of events and EVERY conformant choice of encoding — event
field present or absent and of any type, a space after the colon or not (per field line),
comment / `id:` / `retry:` lines before any field line and before the blank line, any number
of data lines INCLUDING NONE (keep-alive events, comment-only events, extra blank lines), CRLF
or LF per line (`eols`), and the stream ending with a blank line, at end of file after the last
terminator, or inside the last line (`tail`) — the parser hands over exactly the events that
have data, in order: the event type (default "message" — a data-less event resets it, it never
leaks into the next event) and the data lines joined by LF. -/
theorem c11_parse_render (evs : List Event) (eols : List Bool) (tail : Tail)
    (h : ∀ e ∈ evs, Conformant e = true) :
    parseText (renderText evs eols tail) =
      (evs.filter (fun e => !e.data.isEmpty)).map (fun e => (effType e.name, joinNl e.data)) := by
  rw [parseText_render evs eols tail h]
  clear h
  induction evs with
  | nil => rfl
  | cons e es ih =>
    cases hd : e.data <;> simp [evOuts, evOut, hd, ih]

/-- non-vacuity: a data-less `ping` keep-alive, then an event without event field and without
    spaces (it must NOT inherit "ping"), a comment-only event, a typed event; CRLF on some lines,
    a comment and an `id:` line, multi-line data, end of file inside the last line -/
example :
    let e0 : Event := { name := some "ping".toList, data := [], nameChoice := dflt, dataChoices := [] }
    let e1 : Event := { name := none, data := ["{\"a\":".toList, "1}".toList],
                        nameChoice := dflt, dataChoices := [⟨false, [.comment " hi".toList]⟩] }
    let e2 : Event := { name := none, data := [], nameChoice := dflt, dataChoices := [],
                        after := [.comment "keep".toList] }
    let e3 : Event := { name := some "message".toList, data := ["{}".toList],
                        nameChoice := ⟨false, [.idField true "7".toList]⟩, dataChoices := [] }
    (Conformant e0 && Conformant e1 && Conformant e2 && Conformant e3) = true ∧
    renderText [e0, e1, e2, e3] [false, false, true, false, true] .noEol
      = "event: ping\n\n: hi\r\ndata:{\"a\":\ndata: 1}\r\n\n:keep\n\nid: 7\nevent:message\ndata: {}".toList ∧
    parseText (renderText [e0, e1, e2, e3] [false, false, true, false, true] .noEol)
      = [("message".toList, "{\"a\":\n1}".toList), ("message".toList, "{}".toList)] := by
  decide

/-- Exactly one terminal message.  An error status, an empty or malformed body (a body that
contains no message), a connection failure or a timeout makes the transport deliver exactly
one message that is terminal for the request's id … -/
theorem c11_exactly_one_terminal (dec : Dec P) (id : Id) (b : Behaviour) (h : Failure dec b) :
    ((outcome dec (some id) b).filter (Out.terminalFor id)).length = 1 := by
  simp [outcome_failure dec id b h, Out.terminalFor]

/-- … which is the synthesised one, and nothing else is delivered for that POST. -/
theorem c11_failure_only_synthesised (dec : Dec P) (id : Id) (b : Behaviour) (h : Failure dec b) :
    outcome dec (some id) b = [.synth (some id)] :=
  outcome_failure dec id b h

/-- Success passes through without loss or invention: on an accepted status, whenever the body
(JSON, SSE, or unlabelled and non-empty) contains messages, exactly those are delivered, in
order, and nothing is synthesised. -/
theorem c11_success_passthrough (dec : Dec P) (id : Option Id) (r : Resp)
    (hs : r.status < 400) (hne : contained dec r ≠ [])
    (hbody : r.ctype = .other ∨ r.ctype = .absent → r.body.text ≠ []) :
    outcome dec id (.resp r) = (contained dec r).map .pass := by
  have hi := internal_passthrough dec id r hs hne hbody
  rw [outcome_of_internal_ne dec id _ (by simp [hi, hne]), hi]

/-- JSON body: a single message yields that message; a batch array yields its members in order. -/
theorem c11_json_body_messages (dec : Dec P) (id : Option Id) (r : Resp)
    (hs : r.status < 400) (hc : r.ctype = .json) (hu : r.body.utf8 = true) :
    (∀ m, dec.json r.body.text = some (.msg m) → outcome dec id (.resp r) = [.pass m]) ∧
    (∀ ms, ms ≠ [] → dec.json r.body.text = some (.arr (ms.map .msg)) →
        outcome dec id (.resp r) = ms.map .pass) := by
  constructor
  · intro m hm
    have hcont : contained dec r = [m] := by simp [contained, hc, hu, hm, routeAll]
    have := c11_success_passthrough dec id r hs (by simp [hcont]) (by simp [hc])
    simpa [hcont] using this
  · intro ms hne hm
    have hcont : contained dec r = ms := by simp [contained, hc, hu, hm, routeAll_batch]
    have := c11_success_passthrough dec id r hs (by simpa [hcont] using hne) (by simp [hc])
    simpa [hcont] using this

/-- SSE body: in ANY conformant encoding of ANY number of events — message events, events of
other types, data-less keep-alives, in any order — every JSON-RPC message the events carry is
delivered, in order (`g e` = the messages event `e` carries; data-less events carry none and do
not disturb their neighbours). -/
theorem c11_sse_body_messages (dec : Dec P) (id : Option Id) (r : Resp)
    (evs : List Event) (eols : List Bool) (tail : Tail) (g : Event → List (Msg P))
    (hs : r.status < 400) (hc : r.ctype = .sse)
    (hconf : ∀ e ∈ evs, Conformant e = true)
    (hmsg : ∀ e ∈ evs, e.data ≠ [] → sseEventMsgs dec (effType e.name, joinNl e.data) = g e)
    (hnone : ∀ e ∈ evs, e.data = [] → g e = [])
    (hne : evs.flatMap g ≠ [])
    (hbody : r.body.text = renderText evs eols tail) :
    outcome dec id (.resp r) = (evs.flatMap g).map .pass := by
  have hcont : contained dec r = evs.flatMap g := by
    simp only [contained, hc, hbody, sseMsgs_render dec evs eols tail hconf]
    clear hbody hconf hne
    induction evs with
    | nil => rfl
    | cons e es ih =>
      simp only [List.flatMap_cons]
      rw [ih (fun x hx => hmsg x (by simp [hx])) (fun x hx => hnone x (by simp [hx]))]
      by_cases hd : e.data = []
      · simp [hd, hnone e (by simp) hd]
      · simp [hd, hmsg e (by simp) hd]
  have := c11_success_passthrough dec id r hs (by simpa [hcont] using hne) (by simp [hc])
  simpa [hcont] using this

/-- Notification POST: nothing the transport synthesises carries an id, whatever the answer;
and when the answer is a failure nothing at all carrying an id is delivered. -/
theorem c11_no_id_for_notification (dec : Dec P) (b : Behaviour) :
    (∀ i, Out.synth (some i) ∉ outcome dec none b) ∧
    (Failure dec b → ∀ o ∈ outcome dec none b, o.id? = none) := by
  rw [outcome_notification]
  constructor
  · intro i hi
    have := internal_synth_id dec none b _ hi
    cases this
  · intro hf o ho
    rcases internal_failure dec none b hf with h | h <;> simp [h] at ho
    simp [ho, Out.id?]

/-- The sender loop is a fold: what is delivered for `a ++ b` is what is delivered for `a`
followed by what is delivered for `b` (started with the session id left by `a`) — … -/
theorem c11_failures_independent (dec : Dec P) (s : Option String) (a b : List (Req × Behaviour)) :
    (run dec s (a ++ b)).outs = (run dec s a).outs ++ (run dec (run dec s a).session b).outs ∧
    (run dec s (a ++ b)).hdrs = (run dec s a).hdrs ++ (run dec (run dec s a).session b).hdrs :=
  ⟨(run_append dec s a b).1, (run_append dec s a b).2.1⟩

/-- … and every request is processed whatever happened before it: the transcript is the
concatenation of the per-request outcomes, which depend on nothing but the request's own id
and the server's answer to it. -/
theorem c11_every_request_processed (dec : Dec P) (s : Option String) (rs : List (Req × Behaviour)) :
    (run dec s rs).outs = rs.flatMap (fun p => outcome dec p.1.id p.2) ∧
    (run dec s rs).hdrs.length = rs.length :=
  ⟨run_outs dec s rs, run_hdrs_length dec s rs⟩

/-- Session header: the `k`-th POST carries the most recent session id issued (header on a
response with a non-error status) by the answers to the POSTs before it, or the configured
one when none was issued yet. -/
theorem c11_session_header_latest (dec : Dec P) (s : Option String) (rs : List (Req × Behaviour))
    (k : Nat) (hk : k < rs.length) :
    (run dec s rs).hdrs[k]? = some (hdr ((issued (rs.take k)).getLast?.or s)) :=
  run_hdr_latest dec s rs k hk

/-- Options do not matter: whatever `enable_streaming`, `max_retries`, `retry_delay`, `timeout`,
`max_concurrent_requests` and `user_agent` are set to, every answer — failures and unusual bodies
included — is turned into the same messages and the same session headers. -/
theorem c11_options_irrelevant (o1 o2 : Options) (dec : Dec P) (s : Option String) (rs : List (Req × Behaviour)) :
    (runWith o1 dec s rs).outs = (runWith o2 dec s rs).outs ∧ (runWith o1 dec s rs).hdrs = (runWith o2 dec s rs).hdrs ∧
    (runWith o1 dec s rs).outs = rs.flatMap (fun p => outcome dec p.1.id p.2) :=
  ⟨rfl, rfl, run_outs dec s rs⟩

/-- Repeated failures leave nothing behind: after ANY number of failing requests (the same
failure twice, three times, …, any mixture) the following requests are processed exactly as if
nothing had happened before — no counter, no fail-fast state. -/
theorem c11_repeated_failures (o : Options) (dec : Dec P) (s : Option String) (fs rest : List (Req × Behaviour))
    (hf : ∀ p ∈ fs, Failure dec p.2 ∧ p.1.id.isSome) :
    (runWith o dec s (fs ++ rest)).outs =
      fs.map (fun p => Out.synth p.1.id) ++ rest.flatMap (fun p => outcome dec p.1.id p.2) := by
  simp only [runWith, run_outs, List.flatMap_append]
  congr 1
  clear rest
  induction fs with
  | nil => rfl
  | cons p ps ih =>
    obtain ⟨hfail, hid⟩ := hf p (by simp)
    obtain ⟨r, b⟩ := p
    cases hi : r.id with
    | none => simp [hi] at hid
    | some i =>
      simp only [List.flatMap_cons, List.map_cons, hi, outcome_failure dec i b hfail]
      rw [ih (fun q hq => hf q (by simp [hq]))]
      rfl

example :
    (runWith {} toyDecN none ((List.replicate 5 (⟨some (.int 1)⟩, Behaviour.exc .other)) ++ [(⟨some (.int 2)⟩, .exc .timeout)])).outs
      = List.replicate 5 (.synth (some (.int 1))) ++ [.synth (some (.int 2))] := by
  decide

/-- Several transports in one process, their POSTs interleaved in any order: what instance `i`
delivers and the session headers it sends are what it would deliver and send alone — no state is
shared between instances, equal ids on different instances do not meet. -/
theorem c11_instances_independent (dec : Dec P) (σ : Nat → Option String) (i : Nat)
    (evs : List (Nat × Req × Behaviour)) :
    (runInterleaved dec σ evs).filterMap (fun t => if t.1 = i then some t.2 else none)
      = runSteps dec (σ i) (ofInstance i evs) ∧
    (runSteps dec (σ i) (ofInstance i evs)).flatMap (·.1) = (run dec (σ i) (ofInstance i evs)).outs ∧
    (runSteps dec (σ i) (ofInstance i evs)).map (·.2) = (run dec (σ i) (ofInstance i evs)).hdrs :=
  ⟨runInterleaved_instance dec i evs σ, (runSteps_run dec _ _).1, (runSteps_run dec _ _).2⟩

/-- Closing the connection.  What is delivered is exactly what the POSTs completed before the
close deliver (each of those requests has its one terminal message by the theorems above);
nothing is delivered for a request outstanding at close, and then — and only then — the reader
sees end-of-stream instead of waiting: every request gets its terminal message or the stream
is closed. -/
theorem c11_close (dec : Dec P) (s : Option String) (evs : List Ev) :
    (runEvents dec s evs).outs = (beforeClose evs).flatMap (fun p => outcome dec p.1.id p.2) ∧
    (runEvents dec s evs).hdrs = (run dec s (beforeClose evs)).hdrs ∧
    ((runEvents dec s evs).closed = true ↔ Ev.close ∈ evs) ∧
    (outstanding evs ≠ [] → (runEvents dec s evs).closed = true) := by
  have h := runEvents_eq dec s evs
  refine ⟨by rw [h.1, run_outs], h.2.1, h.2.2, ?_⟩
  intro hne
  rw [h.2.2]
  clear h
  induction evs with
  | nil => simp [outstanding] at hne
  | cons e es ih =>
    cases e with
    | close => simp
    | post r b => simp only [outstanding] at hne; simp [ih hne]

example :
    let evs : List Ev := [.post ⟨some (.int 1)⟩ (.exc .other), .close, .post ⟨some (.int 2)⟩ (.exc .other)]
    (runEvents (P := Nat) ⟨fun _ => none⟩ none evs).outs = [.synth (some (.int 1))] ∧
    (runEvents (P := Nat) ⟨fun _ => none⟩ none evs).closed = true ∧
    outstanding evs = [⟨some (.int 2)⟩] := by
  decide

/-! ## Header construction (supplementary: `parameters.py` `setup_auth_headers`,
`transport.py` `_send_message_internal` lines 171-200) -/

section headers
open Verif.Model.HttpHeaders

/-- Every POST carries `Content-Type: application/json` and
`Accept: application/json, text/event-stream` under exactly those keys, whatever the caller
configured: configured headers never replace the two protocol headers. -/
theorem c11_post_protocol_headers (cfg : Hdrs) (env session : Option (List Char)) :
    dictGet (postHeaders cfg env session) kContentType = some vJson ∧
    dictGet (postHeaders cfg env session) kAccept = some vAccept :=
  post_protocol_headers cfg env session

/-- Session header.  Under the key `Mcp-Session-Id` a POST carries the known session id; when
none is known (none received, none configured) only what the caller's own header dict says.
On the wire: provided the caller configured no header spelt `mcp-session-id` in any case, the
values sent for that name are exactly the known session id — nothing before one is known, and
only the latest afterwards (`session` is the state of `c11_session_header_latest`). -/
theorem c11_post_session_header (cfg : Hdrs) (env session : Option (List Char)) :
    dictGet (postHeaders cfg env session) kSession =
      (truthy session).or (dictGetLast cfg kSession) ∧
    (hasCI cfg ciSession = false →
      wireValues (postHeaders cfg env session) kSession = (truthy session).toList) :=
  ⟨post_session_get cfg env session, post_session_wire cfg env session⟩

/-- Authorization, transport stage: a configured `Authorization` header wins; otherwise the
`MCP_BEARER_TOKEN` environment variable (when non-empty) is sent as a bearer token. -/
theorem c11_post_authorization (cfg : Hdrs) (env session : Option (List Char)) :
    dictGet (postHeaders cfg env session) kAuthorization =
      (dictGetLast cfg kAuthorization).or ((truthy env).map bearerFmt) :=
  post_authorization cfg env session

/-- Authorization and User-Agent, parameters stage: the caller's own entries are kept as they
are (the stage only appends); `bearer_token` becomes an `Authorization` header exactly when it is
non-empty and the caller configured no header spelt `authorization` in any case; a `User-Agent`
is added exactly when none is configured in any case. -/
theorem c11_params_auth_headers (c : Cfg) :
    (∃ extra, setupAuth c = c.headers ++ extra) ∧
    (∀ b, c.bearer = some b → b ≠ [] → hasCI c.headers ciAuthorization = false →
        dictGet (setupAuth c) kAuthorization = some (bearerFmt b)) ∧
    (hasCI c.headers ciUserAgent = false → dictGet (setupAuth c) kUserAgent = some c.userAgent) :=
  ⟨setupAuth_append c, setupAuth_bearer c, setupAuth_userAgent c⟩

/-- Every other configured header reaches the POST with the caller's value. -/
theorem c11_post_custom_headers (cfg : Hdrs) (env session : Option (List Char)) (k : List Char)
    (h1 : k ≠ kContentType) (h2 : k ≠ kAccept) (h3 : k ≠ kAuthorization) (h4 : k ≠ kSession) :
    dictGet (postHeaders cfg env session) k = dictGetLast cfg k :=
  post_custom cfg env session k h1 h2 h3 h4

example :
    let c : Cfg := { headers := [("X-Trace".toList, "1".toList), ("accept".toList, "*/*".toList)],
                     userAgent := "chuk-mcp/1.0.0".toList, bearer := some "tok".toList }
    setupAuth c = c.headers ++ [(kUserAgent, "chuk-mcp/1.0.0".toList), (kAuthorization, "Bearer tok".toList)] ∧
    postHeaders (setupAuth c) (some "envtok".toList) (some "S1".toList) =
      [(kContentType, vJson), (kAccept, vAccept), ("X-Trace".toList, "1".toList), ("accept".toList, "*/*".toList),
       (kUserAgent, "chuk-mcp/1.0.0".toList), (kAuthorization, "Bearer tok".toList), (kSession, "S1".toList)] ∧
    wireValues (postHeaders (setupAuth c) none none) kSession = [] ∧
    -- the hypothesis of the wire-level statement is needed: a caller header spelt in lower case is sent as well
    wireValues (postHeaders [("mcp-session-id".toList, "old".toList)] none (some "NEW".toList)) kSession
      = ["old".toList, "NEW".toList] := by
  decide

end headers

/-! ## The streaming branch of `_process_sse_response` (supplementary; unreachable with httpx,
see `Verif.Model.SseStream`) -/

section stream
open Verif.Model.SseStream

/-- Chunk independence: however the body is cut into chunks (inside a line, inside a CRLF,
inside a multi-byte character's neighbourhood, one character at a time), the streaming branch
yields what it yields for the whole body in one chunk. -/
theorem c11_stream_chunk_independent (chunks : List (List Char)) :
    parseStream chunks = parseStream [chunks.flatten] :=
  parseStream_chunks chunks

/-- On the encodings its (pre-repair) grammar understands — explicit event type, one space
after each colon, LF or CRLF, every event terminated by its blank line — the streaming branch
yields exactly the events, in order, for every chunking. -/
theorem c11_stream_plain_encodings (evs : List PlainEvent) (eols : List Bool) (chunks : List (List Char))
    (h : ∀ e ∈ evs, PlainOk e = true) (hc : chunks.flatten = withEols (evs.flatMap plainLines) eols) :
    parseStream chunks = evs.map (fun e => (e.name, joinNl e.data)) :=
  parseStream_plain evs eols chunks h hc

/-- non-vacuity, and what the branch would lose if it were ever reached: an event without
event field, a field without the space, an unterminated last line -/
example :
    parseStream ["event: mess".toList, "age\r".toList, "\ndata: {}\r\n\r".toList, "\n".toList]
      = [("message".toList, "{}".toList)] ∧
    parseStream ["data: {}\n\n".toList] = [] ∧ parseText "data: {}\n\n".toList = [("message".toList, "{}".toList)] ∧
    parseStream ["event:message\ndata:{}\n\n".toList] = [] ∧
    parseStream ["event: message\ndata: {}".toList] = [] := by
  decide

end stream

/-! ## Parameter validation (supplementary; `Verif.Gen.HttpParams` is REGENERATED from the
field validators of `StreamableHTTPParameters` on every run) -/

section params
open Verif.Gen.HttpParams

/-- The translator covered every validator it was asked to translate. -/
theorem c11_params_translated : translatable = true := by decide

/-- Accept-iff, for every value: a URL is accepted exactly when it starts with `http://` or
`https://`; `timeout` and `max_concurrent_requests` exactly when positive; `max_retries` and
`retry_delay` exactly when non-negative. -/
theorem c11_params_accept_iff :
    (∀ u : List Char, urlAccept u = true ↔
        (("http://".toList).isPrefixOf u = true ∨ ("https://".toList).isPrefixOf u = true)) ∧
    (∀ t : Int, timeoutAccept t = true ↔ 0 < t) ∧
    (∀ n : Int, maxConcurrentRequestsAccept n = true ↔ 0 < n) ∧
    (∀ n : Int, maxRetriesAccept n = true ↔ 0 ≤ n) ∧
    (∀ d : Int, retryDelayAccept d = true ↔ 0 ≤ d) := by
  refine ⟨?_, ?_, ?_, ?_, ?_⟩
  · intro u
    cases u with
    | nil => decide
    | cons c cs => simp [urlAccept]
  · intro t; simp [timeoutAccept]
  · intro n; simp [maxConcurrentRequestsAccept]
  · intro n; simp [maxRetriesAccept]
  · intro d; simp [retryDelayAccept]

/-- The stored URL is the given one without its trailing slashes: a prefix of it, not ending in
`/`, and normalising again changes nothing. -/
theorem c11_params_url_normalised (u : List Char) :
    urlNormalize u <+: u ∧ (urlNormalize u).getLast? ≠ some '/' ∧ urlNormalize (urlNormalize u) = urlNormalize u := by
  have hhead : ∀ l : List Char, (l.dropWhile (· == '/')).head? ≠ some '/' := by
    intro l
    have := List.head?_dropWhile_not (fun c : Char => c == '/') l
    cases h : (l.dropWhile (· == '/')).head? with
    | none => simp
    | some x => simp [h] at this; simpa using this
  have hlast : (urlNormalize u).getLast? ≠ some '/' := by
    unfold urlNormalize
    rw [List.getLast?_reverse]
    exact hhead _
  refine ⟨?_, hlast, ?_⟩
  · unfold urlNormalize
    have := List.dropWhile_suffix (fun c : Char => c == '/') (l := u.reverse)
    have h2 := List.reverse_prefix.mpr this
    simpa using h2
  · generalize hw : urlNormalize u = w at hlast
    unfold urlNormalize
    have : w.reverse.dropWhile (· == '/') = w.reverse := by
      cases hr : w.reverse with
      | nil => rfl
      | cons c cs =>
        have hl : w.getLast? = some c := by
          have := congrArg List.head? hr
          simpa [List.head?_reverse] using this
        have : c ≠ '/' := by intro e; exact hlast (by rw [hl, e])
        have hb : (c == '/') = false := by simpa using this
        simp [List.dropWhile, hb]
    rw [this]; simp

example :
    urlAccept "https://h/mcp/".toList = true ∧ urlNormalize "https://h/mcp//".toList = "https://h/mcp".toList ∧
    urlAccept "ftp://h".toList = false ∧ urlAccept [] = false ∧ timeoutAccept 0 = false ∧ timeoutAccept 1 = true ∧
    maxRetriesAccept 0 = true ∧ maxRetriesAccept (-1) = false ∧ maxConcurrentRequestsAccept 0 = false := by
  decide

end params

/-! ### non-vacuity of the outcome theorems on a concrete decoder -/

/-- a toy decoder: "R" is the response to request 1, "N" a notification, "B" the batch [N, R],
    "J" a JSON value that is no message; everything else is not JSON -/
def toyDec : Dec Nat where
  json s :=
    if s = "{R}".toList then some (.msg ⟨.result, some (.int 1), 10⟩)
    else if s = "{N}".toList then some (.msg ⟨.notification, none, 20⟩)
    else if s = "B".toList then some (.arr [.msg ⟨.notification, none, 20⟩, .msg ⟨.result, some (.int 1), 10⟩])
    else if s = "J".toList then some .junk
    else none

def resp (st : Nat) (ct : CType) (sess : Option String) (t : String) : Behaviour :=
  .resp { status := st, ctype := ct, session := sess, body := { text := t.toList, utf8 := true } }

example :
    -- failures of every class: one synthesised terminal each
    Failure toyDec (.exc .other) ∧ Failure toyDec (.exc .timeout) ∧ Failure toyDec (resp 500 .json none "{R}") ∧
    Failure toyDec (resp 200 .json none "") ∧ Failure toyDec (resp 200 .json none "J") ∧
    Failure toyDec (resp 202 .other none "<html>") ∧ Failure toyDec (resp 200 .sse none ": nothing\n\n") ∧
    Failure toyDec (resp 204 .absent none "") ∧
    outcome toyDec (some (.int 0)) (resp 204 .absent none "") = [.synth (some (.int 0))] ∧
    outcome toyDec (some (.int 1)) (resp 202 .other none "<html>") = [.synth (some (.int 1))] ∧
    -- error status with a JSON-RPC body for a foreign id: still the synthesised terminal, nothing passed through
    Failure toyDec (resp 404 .json none "{R}") ∧
    outcome toyDec (some (.int 7)) (resp 404 .json none "{R}") = [.synth (some (.int 7))] ∧
    -- pass-through: single, batch, SSE with two events in two encodings
    outcome toyDec (some (.int 1)) (resp 200 .json none "{R}") = [.pass ⟨.result, some (.int 1), 10⟩] ∧
    outcome toyDec (some (.int 1)) (resp 200 .json none "B")
      = [.pass ⟨.notification, none, 20⟩, .pass ⟨.result, some (.int 1), 10⟩] ∧
    outcome toyDec (some (.int 1)) (resp 200 .sse none "event: ping\n\ndata: {R}\n\n")
      = [.pass ⟨.result, some (.int 1), 10⟩] ∧
    outcome toyDec (some (.int 1)) (resp 200 .sse none "data:{N}\r\n\r\nevent: message\ndata: {R}")
      = [.pass ⟨.notification, none, 20⟩, .pass ⟨.result, some (.int 1), 10⟩] ∧
    -- notification POST: nothing with an id on failure
    outcome toyDec none (resp 500 .json none "") = [.synth none] ∧
    outcome toyDec none (resp 202 .absent none "") = [] := by
  decide

example :
    let rs : List (Req × Behaviour) :=
      [(⟨some (.int 1)⟩, resp 200 .json (some "A") "{R}"), (⟨some (.int 2)⟩, .exc .other),
       (⟨none⟩, resp 500 .json (some "X") ""), (⟨some (.int 3)⟩, resp 200 .json (some "B") "J"),
       (⟨some (.int 4)⟩, resp 200 .json none "{R}")]
    (run toyDec none rs).hdrs = [none, some "A", some "A", some "A", some "B"] ∧
    (run toyDec none rs).outs =
      [.pass ⟨.result, some (.int 1), 10⟩, .synth (some (.int 2)), .synth none, .synth (some (.int 3)),
       .pass ⟨.result, some (.int 1), 10⟩] := by
  decide

end Verif.Props.C11
