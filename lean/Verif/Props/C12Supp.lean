import Verif.Props.C12
import Verif.Lemmas.SseUnits
import Verif.Gen.SseUnits

/-! # C12 — supplementary obligations (not stated by the property text)

Header construction, the regenerated endpoint chain, the session id cut, parameter validation,
`is_sse_url` and the guards of a never-started transport (`Model/SseUnits.lean`, regenerated parts
in `Gen/SseUnits.lean`).  Built and audited on every run like `Props/C12.lean`; a failure here is
reported as INFO and in the evidence, never as a verdict about C12 (DESIGN 9.9). -/
set_option linter.unusedSimpArgs false
namespace Verif.Props.C12
open Verif.Model.SseReq
variable {α : Type}

/-! ## pure decision logic next to the transport (`Model/SseUnits.lean`)

Not implied by the property text; the generated definitions (`Gen/SseUnits.lean`, regenerated from
the source on every run) are tied to the hand-written model by agreement theorems stated under
their `…Translatable` flag. -/
section Units
open Verif.Model.SseUnits

/-- the if / else chain of `_handle_endpoint_event` as the source states it now is the decision
table of `resolveEndpoint` -/
theorem c12_endpoint_translated_agrees : Verif.Gen.SseUnits.endpointTranslatable = true →
    ∀ base data, Verif.Gen.SseUnits.resolveGen base (strip data) = resolveEndpoint base data := by
  intro h base data
  first
  | exact absurd h (by decide)
  | simp [Verif.Gen.SseUnits.resolveGen, resolveEndpoint, hasSub_singleton, sHttp, sMessages, sMessagesQ]

example : Verif.Gen.SseUnits.resolveGen "http://h/messages/v1".toList "session_id=a".toList
    = "http://h/messages/v1?session_id=a".toList ∨ Verif.Gen.SseUnits.endpointTranslatable = false := by decide

/-- the session id is cut out of the message URL exactly when the URL mentions `session_id=` -/
theorem c12_session_id_none_iff (url : Str) : sessionIdOf url = none ↔ hasSub sSessionEq url = false := by
  unfold sessionIdOf
  cases h : afterFirst sSessionEq url with
  | none => simpa using (afterFirst_none_iff _ _).mp h
  | some r =>
    have : hasSub sSessionEq url ≠ false := fun hf => by
      have := (afterFirst_none_iff sSessionEq url).mpr hf
      simp [h] at this
    simpa using this

example : sessionIdOf "http://h/messages/?a=1&session_id=abc&x=2".toList = some "abc".toList
    ∧ sessionIdOf "http://h/mcp?session_id=".toList = some []
    ∧ sessionIdOf "http://h/mcp".toList = none := by decide

/-- the Authorization value for a bearer token always carries the prefix once -/
theorem c12_bearer_value (t : Str) :
    startsWith sBearer (bearerValue t) = true
    ∧ (startsWith sBearer t = true → bearerValue t = t)
    ∧ (startsWith sBearer t = false → bearerValue t = sBearer ++ t) := by
  unfold bearerValue
  by_cases h : startsWith sBearer t = true
  · simp [h]
  · have h' : startsWith sBearer t = false := by simpa using h
    simp [h', startsWith_append]

/-- Header construction: the caller's headers are kept, in order, by both builders; the
transport adds `Authorization: Bearer <token>` exactly when there is a non-empty token and no
caller header mentions authorization, and nothing otherwise. -/
theorem c12_headers (headers : Option Headers) (tok : Option Str) :
    headers.getD [] <+: getHeaders headers tok
    ∧ (∀ h', setupAuth headers tok = some h' → headers.getD [] <+: h')
    ∧ (getHeaders headers tok =
        if (headers.getD []).any (fun kv => mentionsAuth kv.1) then headers.getD []
        else match tok with
          | some t => if t = [] then headers.getD [] else headers.getD [] ++ [(sAuthName, bearerValue t)]
          | none => headers.getD []) := by
  refine ⟨?_, ?_, ?_⟩
  · unfold getHeaders
    simp only
    split
    · exact List.prefix_refl _
    · cases tok with
      | none => exact List.prefix_refl _
      | some t => by_cases ht : t = [] <;> simp [ht]
  · intro h' hs
    unfold setupAuth at hs
    cases tok with
    | none => simp only at hs; subst hs; simp
    | some t =>
      simp only at hs
      by_cases ht : t = []
      · simp only [ht, if_true] at hs; subst hs; simp
      · simp only [ht, if_false, Option.some.injEq] at hs
        subst hs
        split
        · exact List.prefix_refl _
        · exact List.prefix_append _ _
  · unfold getHeaders
    cases tok <;> rfl

/-- After the parameter object has set up its headers, the transport's own builder adds nothing
(the bearer branch of `_get_headers` is unreachable through `SSEParameters`): both HTTP clients are
created with exactly the headers of the validated parameters. -/
theorem c12_headers_transport_adds_nothing (headers : Option Headers) (tok : Option Str) :
    clientHeaders headers tok = (setupAuth headers tok).getD [] := by
  have key : ∀ (h : Option Headers) (t : Option Str),
      (h.getD []).any (fun kv => mentionsAuth kv.1) = true ∨ t = none ∨ t = some [] →
      getHeaders h t = h.getD [] := by
    intro h t hc
    unfold getHeaders
    rcases hc with hc | hc | hc
    · simp [hc]
    · subst hc; simp
    · subst hc; simp
  unfold clientHeaders
  cases tok with
  | none => exact key _ _ (Or.inr (Or.inl rfl))
  | some t =>
    by_cases ht : t = []
    · subst ht; exact key _ _ (Or.inr (Or.inr rfl))
    · apply key
      left
      simp only [setupAuth, ht, if_false, Option.getD_some]
      by_cases ha : (headers.getD []).any (fun kv => isAuthKey kv.1) = true
      · simp only [ha, if_true]
        exact any_mentions_of_any_auth _ ha
      · simp only [ha]
        have : mentionsAuth sAuthName = true := by decide
        simp [this]

example : clientHeaders (some [("X-A".toList, "1".toList)]) (some "tok".toList)
      = [("X-A".toList, "1".toList), ("Authorization".toList, "Bearer tok".toList)]
    ∧ clientHeaders (some [("authorization".toList, "Basic x".toList)]) (some "tok".toList)
      = [("authorization".toList, "Basic x".toList)]
    ∧ clientHeaders none (some "Bearer t".toList) = [("Authorization".toList, "Bearer t".toList)]
    ∧ clientHeaders none (some []) = [] := by decide

/-- the literals of the two header builders in the source are the model's -/
theorem c12_header_literals_agree : Verif.Gen.SseUnits.headersTranslatable = true →
    Verif.Gen.SseUnits.paramsAuthExact = true ∧ Verif.Gen.SseUnits.transportAuthSubstring = true
    ∧ Verif.Gen.SseUnits.bearerPrefix = sBearer ∧ Verif.Gen.SseUnits.authName = sAuthName := by
  intro h
  first
  | exact absurd h (by decide)
  | decide

/-- Parameter validation: accepted exactly when the URL is a non-empty http(s) URL, the timeout and
the keep-alive interval are positive and the reconnect numbers are not negative. -/
theorem c12_params_accept_iff (p : ParamIn) :
    (∃ o, validate NumRules.source p = .ok o) ↔
      (p.url ≠ [] ∧ (startsWith sHttpScheme p.url = true ∨ startsWith sHttpsScheme p.url = true)
       ∧ 0 < p.timeout ∧ 0 ≤ p.maxReconnect ∧ 0 ≤ p.reconnectDelay ∧ 0 < p.keepAlive) := by
  rw [validate_ok_iff, badFields_nil_iff]
  simp only [NumRules.source, decide_eq_false_iff_not, Bool.or_eq_false_iff, Bool.not_eq_false',
    Bool.or_eq_true, decide_eq_false_iff_not]
  constructor
  · rintro ⟨⟨hu, hs⟩, h2, h3, h4, h5⟩
    exact ⟨hu, hs, by omega, by omega, by omega, by omega⟩
  · rintro ⟨hu, hs, h2, h3, h4, h5⟩
    exact ⟨⟨hu, hs⟩, by omega, by omega, by omega, by omega⟩

/-- what an accepted parameter object holds: the URL without trailing slashes (so the transport's
own `rstrip("/")` changes nothing) and endpoint paths that start with a slash -/
theorem c12_params_normalised (R : NumRules) (p : ParamIn) (o : ParamOut) (h : validate R p = .ok o) :
    normBase o.url = o.url ∧ startsWith ['/'] o.sseEndpoint = true ∧ startsWith ['/'] o.messageBase = true := by
  unfold validate at h
  by_cases hb : badFields R p = []
  · simp only [hb, if_true, Except.ok.injEq] at h
    subst h
    have hl : ∀ v, startsWith ['/'] (leadSlash v) = true := by
      intro v
      unfold leadSlash
      by_cases hv : startsWith ['/'] v = true
      · simp [hv]
      · have hv' : startsWith ['/'] v = false := by simpa using hv
        simp only [hv', Bool.false_eq_true, if_false]
        simp [startsWith, stripPrefix]
    exact ⟨rdrop_idem _ _, hl _, hl _⟩
  · simp [hb] at h

/-- the comparisons with zero of the validators in the source are the model's -/
theorem c12_param_rules_agree : Verif.Gen.SseUnits.rulesTranslatable = true → ∀ v : Int,
    Verif.Gen.SseUnits.rules.timeout v = NumRules.source.timeout v
    ∧ Verif.Gen.SseUnits.rules.maxReconnect v = NumRules.source.maxReconnect v
    ∧ Verif.Gen.SseUnits.rules.reconnectDelay v = NumRules.source.reconnectDelay v
    ∧ Verif.Gen.SseUnits.rules.keepAlive v = NumRules.source.keepAlive v := by
  intro h v
  first
  | exact absurd h (by decide)
  | simp [Verif.Gen.SseUnits.rules, NumRules.source]

def exParamsGood : ParamIn :=
  { url := "https://h.test/api//".toList
    timeout := 1
    maxReconnect := 0
    reconnectDelay := 0
    keepAlive := 3
    sseEndpoint := "sse".toList
    messageBase := "/mcp".toList }

def exParamsBad : ParamIn :=
  { url := "ftp://h".toList
    timeout := 0
    maxReconnect := -1
    reconnectDelay := 0
    keepAlive := 1
    sseEndpoint := []
    messageBase := [] }

example : badFields NumRules.source exParamsGood = []
    ∧ (validate NumRules.source exParamsGood).toOption
        = some { url := "https://h.test/api".toList, sseEndpoint := "/sse".toList, messageBase := "/mcp".toList }
    ∧ badFields NumRules.source exParamsBad = [.url, .timeout, .maxReconnect] := by
  decide

/-- `is_sse_url`, for whatever indicator list the source has: true exactly for a non-empty url
whose lower-cased text contains one of the indicators -/
theorem c12_is_sse_url_spec (inds : List Str) (url : Str) :
    isSseUrl inds url = true ↔ url ≠ [] ∧ ∃ i ∈ inds, hasSub i (lower url) = true := by
  unfold isSseUrl
  cases url <;> simp [List.any_eq_true]

/-- every URL that names the transport's own `/sse` path is recognised -/
theorem c12_sse_endpoint_is_sse_url : Verif.Gen.SseUnits.indicatorsTranslatable = true →
    ∀ pre post : Str, isSseUrl Verif.Gen.SseUnits.indicators (pre ++ ['/', 's', 's', 'e'] ++ post) = true := by
  intro h pre post
  first
  | exact absurd h (by decide)
  | (rw [c12_is_sse_url_spec]
     refine ⟨by simp, ['/', 's', 's', 'e'], by decide, ?_⟩
     rw [lower_append, lower_append]
     have : lower ['/', 's', 's', 'e'] = ['/', 's', 's', 'e'] := by decide
     rw [this]
     exact hasSub_mid _ _ _)

/-- a transport that was never started has no streams to hand out and nothing to release; once
started, the streams stay available (closed) after cleanup -/
theorem c12_not_started : streamsAvailable Handles.none = false ∧ cleanup Handles.none = Handles.none
    ∧ ∀ h : Handles, streamsAvailable h = true → streamsAvailable (cleanup h) = true := by
  refine ⟨by decide, by decide, ?_⟩
  intro h
  unfold streamsAvailable cleanup
  cases h.incomingSend <;> cases h.outgoingSend <;> simp [H.close]

end Units

end Verif.Props.C12
